#!/bin/bash
# Detection self-test: applies each property-breaking change of mutants/ (and seeded/*/patch.diff)
# to /repo, checks that the repository's own tests still pass with it, runs the named checks and
# expects them to report a violation (exit 1); /repo is restored after every change.
# usage: ./selftest.sh [name-substring]      (writes selftest.log)
set -u
cd "$(dirname "$0")"
FILTER="${1:-}"
declare -A EXPECT=(
  [add_return_type_lhs]="C01"
  [value_arm_covers]="C02"
  [at_range_off_by_one]="C09 C04"
  [or_recreate_drops_rhs]="C04 C07"
  [if_evaluates_both]="C07 C12"
  [tuple_reverse_order]="C07"
  [continue_is_break]="C12"
  [assign_not_atomic]="C16"
  [match_arm_type_equality]="C12"
  [filter_predicate_twice]="C11"
  [function_params_covariant]="C10"
  [mut_union_no_parens]="C15"
  [pratt_swap_and_xor]="C14"
  [pow_right_assoc]="C14"
  [index_result_first_member]="C05"
  [host_call_no_arity_check]="C17"
  [to_int_bits]="C18"
  [ilog_swapped]="C18"
  [div_not_wrapping]="C08"
  [debug_no_backslash_escape]="C20"
  [no_self_binding]="C06"
  [struct_hash_unsorted]="C05"
  [destruct_copies_cells]="C13"
  [zero_dividend_folded]="C08 C04"
)
: > selftest.log
fail=0
if ! git -C /repo diff --quiet; then echo "/repo has uncommitted changes; refusing" >&2; exit 2; fi
run_one() {
  local name="$1" patch="$2" checks="$3"
  if ! git -C /repo apply "$(realpath "$patch")" 2>>selftest.log; then echo "$name: patch does not apply" | tee -a selftest.log; fail=1; return; fi
  local tests="ok"
  if ! (cd /repo && cargo test --workspace --no-fail-fast --offline >/tmp/selftest_tests.log 2>&1); then tests="BASELINE-TESTS-FAIL"; fi
  for c in $checks; do
    ./check "$c" quick >/tmp/selftest_check.log 2>&1
    local code=$?
    local nviol
    nviol=$(grep -c '^VIOLATION' /tmp/selftest_check.log)
    if [ $code -eq 1 ] && [ "$nviol" -gt 0 ]; then
      echo "$name: $c detects it ($nviol replay files; baseline tests: $tests)" | tee -a selftest.log
    else
      echo "$name: $c MISSES it (exit $code; baseline tests: $tests)" | tee -a selftest.log
      fail=1
    fi
  done
  git -C /repo checkout -- .
}
for patch in mutants/*.diff; do
  name=$(basename "$patch" .diff)
  case "$name" in *"$FILTER"*) ;; *) continue ;; esac
  run_one "$name" "$patch" "${EXPECT[$name]:-}"
done
for meta in seeded/*/meta.json; do
  [ -f "$meta" ] || continue
  dir=$(dirname "$meta")
  name="seeded/$(basename "$dir")"
  case "$name" in *"$FILTER"*) ;; *) continue ;; esac
  checks=$(python3 -c "import json,sys; print(' '.join(json.load(open('$meta'))['detected_by']))")
  run_one "$name" "$dir/patch.diff" "$checks"
done
git -C /repo checkout -- .
exit $fail
