#!/bin/bash
# applies each seeded/<id>/patch.diff to /repo, runs every quick check, records which report a violation
cd /verif
out=${2:-/tmp/seedmatrix.log}
for id in $1; do
  git -C /repo diff --quiet || { echo "/repo dirty" >> $out; exit 2; }
  git -C /repo apply /verif/seeded/$id/patch.diff || { echo "$id: patch does not apply" >> $out; continue; }
  line="$id:"
  for c in C01 C02 C03 C04 C05 C06 C07 C08 C09 C10 C11 C12 C13 C14 C15 C16 C17 C18 C19 C20; do
    ./check $c quick > /tmp/seedmatrix_$c.log 2>&1
    code=$?
    if [ $code -eq 1 ]; then line="$line $c"; elif [ $code -ne 0 ]; then line="$line $c(exit$code)"; fi
  done
  git -C /repo checkout -- .
  echo "$line" >> $out
done
echo done >> $out
