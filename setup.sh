#!/bin/bash
# builds the harness (and the loom harness) offline from files on disk
set -e
cd "$(dirname "$0")"
export CARGO_NET_OFFLINE=true
(cd harness && cargo build --release --offline)
(cd nativecheck && cargo build --release --offline)
if [ -d loomcheck ]; then (cd loomcheck && cargo build --release --offline); fi
mkdir -p evidence
