#!/bin/bash
# builds the harness (and the loom harness) offline from files on disk
set -e
cd "$(dirname "$0")"
export CARGO_NET_OFFLINE=true
(cd harness && cargo build --release --offline)
(cd nativecheck && cargo build --release --offline)
# loomcheck is built against an instrumented copy of /repo (see ./check)
python3 loomcheck/instrument.py .instrumented/repo
(cd loomcheck && cargo build --release --offline)
mkdir -p evidence
