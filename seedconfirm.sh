#!/bin/bash
# ./seedconfirm.sh <round-dir> <ID> <letter>
# confirms a sub-agent's change in its scratch worktree <round-dir>/<ID> (outputs in <round-dir>/<ID>_out):
#   patch applies to a clean checkout, baseline suite passes with it (52), demo fails with it, demo passes without it;
# stores seeded/<ID><letter>/ and removes the worktree with its build output
R=$1; ID=$2; L=$3; W=$R/$ID; O=$R/${ID}_out
export CARGO_NET_OFFLINE=true
set -u
[ -f $O/patch.diff ] && [ -f $O/seeded_demo.rs ] && [ -f $O/report.json ] || { echo "$ID: outputs missing"; exit 2; }
cd $W || exit 2
git checkout -q -- . ; rm -f tests/seeded_demo.rs
git apply --check $O/patch.diff || { echo "$ID: patch does not apply to clean checkout"; exit 2; }
git -C /repo apply --check $O/patch.diff || { echo "$ID: patch does not apply to /repo"; exit 2; }
# touches sources only?
if git apply --numstat $O/patch.diff | awk '{print $3}' | grep -qE '^(tests/|.*/tests?\.rs$)'; then echo "$ID: patch touches tests"; fi
git apply $O/patch.diff
base=$(cargo test --workspace --no-fail-fast --offline 2>&1 | grep -E '^test result' | awk '{p+=$4; f+=$6} END{print p" passed "f" failed"}')
cp $O/seeded_demo.rs tests/seeded_demo.rs
with=$(cargo test --offline --test seeded_demo 2>&1 | grep -E '^test result' | head -1)
git checkout -q -- . 
without=$(cargo test --offline --test seeded_demo 2>&1 | grep -E '^test result' | head -1)
echo "$ID: suite with change: $base | demo with: $with | demo without: $without"
case "$base" in "52 passed 0 failed") ;; *) echo "$ID: REJECT (suite)"; exit 1;; esac
case "$with" in *FAILED*) ;; *) echo "$ID: REJECT (demo does not fail with change)"; exit 1;; esac
case "$without" in *"ok."*" 0 failed"*) ;; *) echo "$ID: REJECT (demo fails without change)"; exit 1;; esac
D=/verif/seeded/$ID$L; mkdir -p $D
cp $O/patch.diff $O/seeded_demo.rs $D/
python3 - "$O/report.json" "$D/meta.json" "$ID" "$R" <<'PY'
import json,sys
r=json.load(open(sys.argv[1]))
m={"breaks_property":sys.argv[3],"change":r["change"],"needs_to_manifest":r["needs_to_manifest"],
 "confirmed":{"baseline_suite_with_change":"scratch worktree: cargo test --workspace --no-fail-fast --offline -> 52 passed, 0 failed (demo not in tests/)",
  "demo_with_change":"cargo test --offline --test seeded_demo -> FAILED",
  "demo_without_change":"git checkout -- . ; cargo test --offline --test seeded_demo -> ok"},
 "origin":"round "+sys.argv[4].rsplit('r',1)[-1]+": written by an independent sub-agent that saw only the property text, a note on the earlier changes to stay away from, and its own scratch worktree",
 "detected_by":[],"checks_run":"pending"}
json.dump(m,open(sys.argv[2],"w"),indent=1)
PY
cd /; git -C /repo worktree remove --force $W
echo "$ID: stored as seeded/$ID$L"
