//! C16 — parsed code and values are safe to share between threads.
//! loom drives the real interpreter: the cell's RwLock is loom's (cargo feature
//! verif-loom), so every lock operation is a scheduling point and every
//! interleaving (DPOR, optionally preemption-bounded) of the worker threads is
//! executed. Each case runs in a child process (a failing loom model can abort).
use serde_json::{json, Value};
use simplesl::variable::{Mut, Type, Variable};
use simplesl::{Code, Interpreter};
use std::collections::BTreeSet;
use std::sync::atomic::{AtomicUsize, Ordering};
use std::sync::{Arc, Mutex};
use std::time::Instant;

static EXECUTIONS: AtomicUsize = AtomicUsize::new(0);
static OUTCOMES: Mutex<BTreeSet<String>> = Mutex::new(BTreeSet::new());

const STACK: usize = 1 << 23;

fn big<F, T>(f: F) -> loom::thread::JoinHandle<T>
where
    F: FnOnce() -> T + Send + 'static,
    T: Send + 'static,
{
    loom::thread::Builder::new().stack_size(STACK).spawn(f).expect("spawn loom thread")
}

#[derive(Clone)]
struct Case {
    name: &'static str,
    /// (cell name, declared type, initial content literal)
    cells: &'static [(&'static str, &'static str, &'static str)],
    /// one program per worker thread, parsed against an interpreter holding the cells (and `shared`)
    threads: &'static [(&'static str, &'static [&'static str])],
    /// optional statement run once before the workers (defines `shared` values: functions, closures)
    setup: &'static str,
    /// preemption bound (None = unbounded DPOR)
    bound: Option<usize>,
    thorough_only: bool,
}

const fn case(
    name: &'static str,
    cells: &'static [(&'static str, &'static str, &'static str)],
    setup: &'static str,
    threads: &'static [(&'static str, &'static [&'static str])],
    bound: Option<usize>,
    thorough_only: bool,
) -> Case {
    Case { name, cells, threads, setup, bound, thorough_only }
}

const C0: &[(&str, &str, &str)] = &[("c", "int", "0")];
const C5: &[(&str, &str, &str)] = &[("c", "int", "5")];
const CB: &[(&str, &str, &str)] = &[("c", "bool", "true")];
const AB: &[(&str, &str, &str)] = &[("a", "int", "1"), ("b", "int", "2")];
const NONE: &[(&str, &str, &str)] = &[];
const CA: &[(&str, &str, &str)] = &[("c", "[int]", "[0]")];
const CS: &[(&str, &str, &str)] = &[("c", "string", "\"a\"")];
const CF: &[(&str, &str, &str)] = &[("c", "float", "1.5")];
const CU: &[(&str, &str, &str)] = &[("c", "int|float|string", "1")];
const CANY: &[(&str, &str, &str)] = &[("c", "any", "0")];

/// a thread whose program is one atomic cell operation
macro_rules! one {
    ($p:expr) => {
        ($p, &[] as &[&str])
    };
}

fn cases() -> Vec<Case> {
    // thread = (program, the same program as a sequence of statements with at most one cell
    // operation each; empty = the program itself is one atomic operation)
    vec![
        // 1. shared cell, every assignment operator: results of some sequential order
        case("inc x2", C0, "", &[one!("c += 1"), one!("c += 1")], None, false),
        case("inc x3", C0, "", &[one!("c += 1"), one!("c += 1"), one!("c += 1")], None, false),
        case("mul vs add", C5, "", &[one!("c *= 3"), one!("c += 1")], None, false),
        case("sub vs mul", C5, "", &[one!("c -= 2"), one!("c *= 2")], None, false),
        case("div vs add", C5, "", &[one!("c /= 2"), one!("c += 3")], None, false),
        case("mod vs add", C5, "", &[one!("c %= 3"), one!("c += 4")], None, false),
        case("pow vs add", C5, "", &[one!("c **= 2"), one!("c += 1")], None, false),
        case("shl vs add", C5, "", &[one!("c <<= 1"), one!("c += 1")], None, false),
        case("shr vs add", C5, "", &[one!("c >>= 1"), one!("c += 3")], None, false),
        case("and vs or", C5, "", &[one!("c &= 6"), one!("c |= 8")], None, false),
        case("xor vs add", C5, "", &[one!("c ^= 3"), one!("c += 1")], None, false),
        case("assign vs inc", C5, "", &[one!("c = 100"), one!("c += 1")], None, false),
        case("bool ops", CB, "", &[one!("c &= false"), one!("c |= true"), one!("c ^= true")], None, false),
        case("failing update vs inc", C5, "", &[one!("c /= 0"), one!("c += 1")], None, false),
        case("read vs inc", C0, "", &[one!("*c"), one!("c += 1"), one!("*c")], None, false),
        case("two ops each", C0, "", &[("{ c += 1; c *= 2 }", &["c += 1", "c *= 2"]), ("{ c += 3; c -= 1 }", &["c += 3", "c -= 1"])], None, false),
        case("three ops each (bound 3)", C0, "", &[("{ c += 1; c *= 2; c += 1 }", &["c += 1", "c *= 2", "c += 1"]), ("{ c += 3; c -= 1; c *= 3 }", &["c += 3", "c -= 1", "c *= 3"])], Some(3), true),
        case("mixed ops x3", C5, "", &[one!("c *= 3"), one!("c += 1"), one!("c -= 7")], None, true),
        case("rhs evaluated before the update", AB, "", &[("a += *b", &["t := *b", "a += t"]), ("b += *a", &["t := *a", "b += t"])], None, false),
        case("rhs updates the same cell", C5, "shared := () -> int { c *= 2; return 1 }", &[("c += shared()", &["c *= 2", "c += 1"]), one!("c -= 1")], None, false),
        // 2. no shared cell: the same Code / Function from several threads gives the sequential result
        case("private cells in shared code", NONE, "", &[one!("{ x := mut 0; x += 2; x *= 5; *x }"), one!("{ x := mut 0; x += 2; x *= 5; *x }")], Some(3), false),
        case("shared iterator pipeline code", NONE, "", &[one!("[1, 2, 3]~ @ (v: int) -> int { return v * 2 } $+"), one!("[1, 2, 3]~ @ (v: int) -> int { return v * 2 } $+")], Some(2), false),
        case("shared recursive function", NONE, "shared := (n: int) -> int { if n <= 0 { return 0 }; return n + shared(n - 1) }", &[one!("shared(4)"), one!("shared(3)"), one!("shared(4)")], None, false),
        case("shared closure factory", NONE, "shared := (n: int) -> () -> int { k := mut n; return () -> int { k += 1; return *k } }", &[one!("{ f := shared(10); f(); f() }"), one!("{ f := shared(20); f(); f() }")], Some(3), false),
        // 3. a shared function value with a captured cell: its body is two operations (update, read)
        case("shared counter closure", C0, "shared := () -> int { c += 1; return *c }", &[("shared()", &["c += 1", "*c"]), ("shared()", &["c += 1", "*c"])], None, false),
        case("shared counter closure x3", C0, "shared := () -> int { c += 1; return *c }", &[("shared()", &["c += 1", "*c"]), ("shared()", &["c += 1", "*c"]), ("shared()", &["c += 1", "*c"])], Some(3), true),
        case("shared accumulating closure", C0, "shared := (v: int) -> int { return c += v }", &[one!("shared(1)"), one!("shared(10)"), one!("shared(100)")], None, false),
        // 4. lock order: no deadlock, no poisoned lock
        case("print vs assign", C5, "", &[("std.convert.to_string(c)", &["std.convert.to_string(c)"]), one!("c += 1")], None, false),
        case("cell in cell", C5, "shared := mut c", &[("{ inner := *shared; inner += 1 }", &["inner := *shared", "inner += 1"]), one!("std.convert.to_string(shared)"), one!("c *= 2")], Some(3), false),
        case("swap through reads", AB, "", &[("{ t := *a; a = *b; b = t }", &["t := *a", "u := *b", "a = u", "b = t"]), ("{ t := *b; b = *a; a = t }", &["t := *b", "u := *a", "b = u", "a = t"])], Some(2), true),
        case("nested cells both ways", AB, "shared := (mut a, mut b)", &[("{ x := *(shared.0); x += *b }", &["x := *(shared.0)", "t := *b", "x += t"]), ("{ y := *(shared.1); y += *a }", &["y := *(shared.1)", "t := *a", "y += t"])], Some(3), false),
        // 6. the same guarantees for cells of every content type the assignment operators accept
        case("array append x2", CA, "", &[one!("c += [1]"), one!("c += [2]")], None, false),
        case("array append x3", CA, "", &[one!("c += [1]"), one!("c += [2]"), one!("c += [3, 4]")], None, false),
        case("array append vs assign", CA, "", &[one!("c += [1]"), one!("c = [9]")], None, false),
        case("array append vs read", CA, "", &[one!("*c"), one!("c += [1]"), one!("std.len(*c)")], None, false),
        case("array appends own content", CA, "", &[("c += *c", &["t := *c", "c += t"]), one!("c += [7]")], None, false),
        case("string append x2", CS, "", &[one!("c += \"b\""), one!("c += \"c\"")], None, false),
        case("string append x3", CS, "", &[one!("c += \"b\""), one!("c += \"c\""), one!("c = \"z\"")], None, false),
        case("float ops", CF, "", &[one!("c += 0.5"), one!("c *= 2.0"), one!("c -= 0.25")], None, false),
        case("float div pow", CF, "", &[one!("c /= 4.0"), one!("c **= 2.0")], None, false),
        case("union cell changes kind", CU, "", &[one!("c = 2.5"), one!("c = \"s\""), one!("*c")], None, false),
        // 7. state hidden in the parsed program must not couple runs that share no cell
        case("type filter default cells are private", NONE, "", &[one!("{ it := [1]~ ? mut int; (m, c) := it(); c += 5; *c }"), one!("{ it := [1]~ ? mut int; (m, c) := it(); c += 5; *c }")], Some(3), false),
        case("type filter default cells, shared function", NONE, "shared := () -> int { it := [1]~ ? mut int; (m, c) := it(); c += 5; return *c }", &[one!("shared()"), one!("shared()")], Some(3), false),
        case("iterator defaults are private", NONE, "", &[one!("{ it := [mut 1][1:]~; (m, c) := it(); c += 5; *c }"), one!("{ it := [mut 1][1:]~; (m, c) := it(); c += 5; *c }")], None, false),
        case("printing private nested cells", NONE, "", &[one!("std.convert.to_string(mut mut mut 1)"), one!("std.convert.to_string(mut mut mut 2)")], None, false),
        case("printing private nested cells x3", NONE, "", &[one!("std.convert.to_string([mut mut 1, mut mut 2])"), one!("std.convert.to_string(mut mut 3)"), one!("std.convert.to_string(mut mut mut 4)")], Some(3), false),
        // 8. type tests in shared code meeting different run-time types in different threads (a
        //    memo of the last answer inside the instruction would couple the runs); the sources
        //    are compiled with every std::sync object redirected to loom (instrument.py)
        case("if-set in a shared function, int vs string", NONE, "shared := (v: int|string) -> int { if q: int = v { return q + 1 }; return 0 }", &[one!("(shared(1), shared(2))"), one!("(shared(\"a\"), shared(\"b\"))")], Some(3), false),
        case("match type arm in a shared function, int vs string", NONE, "shared := (v: int|string) -> int { return match v { q: int => q + 1, q: string => 0, } }", &[one!("(shared(1), shared(2))"), one!("(shared(\"a\"), shared(\"b\"))")], Some(3), false),
        case("while-set in a shared function, int vs string", NONE, "shared := (v: int|string) -> int { n := mut 0; while q: int = v { n += q; break }; return *n }", &[one!("(shared(1), shared(2))"), one!("(shared(\"a\"), shared(\"b\"))")], Some(3), false),
        case("type filter in a shared function, mixed arrays", NONE, "shared := (a: [int|string]) -> [int] { return a~ ? int $] }", &[one!("(shared([1, \"a\"]), shared([2]))"), one!("(shared([\"b\", 3]), shared([\"c\"]))")], Some(2), false),
        case("if-set in shared code over a mixed array", NONE, "", &[one!("{ s := mut 0; for e in [1, \"a\", 2]~ { if q: int = e { s += q } }; *s }"), one!("{ s := mut 0; for e in [1, \"a\", 2]~ { if q: int = e { s += q } }; *s }")], Some(2), false),
        case("if-set in a shared function x3 (bound 2)", NONE, "shared := (v: int|string|float) -> int { if q: int = v { return q + 1 }; return 0 }", &[one!("(shared(1), shared(2))"), one!("(shared(\"a\"), shared(\"b\"))"), one!("(shared(1.5), shared(3))")], Some(2), true),
        // 9. pure operations on *different* data in different threads (a process-wide memo of the
        //    last operand - string characters, a type, a parsed helper - would couple the runs)
        case("string indexing, different strings", NONE, "shared := (s: string, i: int) -> string { return s[i] + s[i + 1] }", &[one!("(shared(\"abc\", 0), shared(\"abc\", 1))"), one!("(shared(\"xyz\", 0), shared(\"uv\", 0))")], Some(3), false),
        case("string slicing and length, different strings", NONE, "shared := (s: string) -> any { return (s[1:], s[::-1], std.len(s)) }", &[one!("(shared(\"abc\"), shared(\"abc\"))"), one!("(shared(\"wxyz\"), shared(\"é\"))")], Some(2), false),
        case("array indexing and slicing, different arrays", NONE, "shared := (a: [int], i: int) -> any { return (a[i], a[i:], std.len(a)) }", &[one!("(shared([1, 2, 3], 0), shared([1, 2, 3], 1))"), one!("(shared([7, 8], 1), shared([9], 0))")], Some(2), false),
        case("struct and tuple access, different values", NONE, "shared := (s: struct{a: int, b: string}, t: (int, string)) -> any { return (s.a, s.b, t.0, t.1) }", &[one!("(shared(struct{ a := 1, b := \"x\" }, (1, \"x\")), shared(struct{ a := 2, b := \"y\" }, (2, \"y\")))"), one!("(shared(struct{ a := 3, b := \"z\" }, (3, \"z\")), shared(struct{ a := 4, b := \"w\" }, (4, \"w\")))")], Some(2), false),
        case("stdlib string helpers, different strings", NONE, "shared := (s: string) -> any { return (std.string.to_uppercase(s), std.string.split(s, \"b\"), std.convert.to_string(std.len(s))) }", &[one!("(shared(\"abc\"), shared(\"abc\"))"), one!("(shared(\"xby\"), shared(\"q\"))")], Some(2), false),
        case("equality and type tests, different values", NONE, "shared := (v: any, w: any) -> any { m := match v { q: [int] => 1, q: struct{a: int} => 2, q: (int, int) => 3, => 0, }; return (v == w, v != w, m) }", &[one!("(shared([1], [1]), shared(struct{ a := 1 }, struct{ a := 1 }))"), one!("(shared((1, 2), (1, 3)), shared(\"s\", [1.5]))")], Some(2), false),
        // 10. the file tree is shared state outside the interpreter: operations on *different*
        //     files in different threads give what each gives alone (every std::fs call of the
        //     sources passes a common scheduling point, see instrument.py)
        case("fs: writes to different files", NONE, "", &[one!("(std.fs.write_to_file(\"t/a.txt\", \"A\"), std.fs.file_read_to_string(\"t/a.txt\"))"), one!("(std.fs.write_to_file(\"t/b.txt\", \"B\"), std.fs.file_read_to_string(\"t/b.txt\"))")], Some(3), false),
        case("fs: write and copy of different files", NONE, "", &[one!("(std.fs.write_to_file(\"t/a.txt\", \"A\"), std.fs.copy_file(\"t/a.txt\", \"t/a2.txt\"), std.fs.file_read_to_string(\"t/a2.txt\"))"), one!("(std.fs.write_to_file(\"t/d/b.txt\", \"B\"), std.fs.file_read_to_string(\"t/d/b.txt\"))")], Some(3), false),
        case("fs: directories and files side by side", NONE, "", &[one!("(std.fs.create_dir_all(\"t/x/y\"), std.fs.write_to_file(\"t/x/y/f\", \"F\"), std.fs.file_read_to_string(\"t/x/y/f\"))"), one!("(std.fs.rename(\"t/old.txt\", \"t/new.txt\"), std.fs.file_read_to_string(\"t/new.txt\"), std.fs.remove_file(\"t/new.txt\"))")], Some(3), false),
        case("fs: shared function writing the file it is given", NONE, "shared := (p: string, v: string) -> any { std.fs.write_to_file(p, v); return std.fs.file_read_to_string(p) }", &[one!("(shared(\"t/a.txt\", \"A1\"), shared(\"t/a.txt\", \"A2\"))"), one!("(shared(\"t/b.txt\", \"B1\"), shared(\"t/b.txt\", \"B2\"))")], Some(2), false),
        // 11. user code must never run while a cell lock is held: functions kept in cells and called
        //     through the cell, whose bodies (or argument expressions) write cells - the other
        //     function's cell, their own cell - and operands evaluated next to a cell read
        case("call through cells: handlers in two cells, each stores into the other", C0, "i1 := () -> int { return 1 }; i2 := () -> int { return 2 }; f := mut i1; g := mut i2; n20 := () -> int { return 20 }; n100 := () -> int { return 100 }; f = () -> int { g = n20; return 10 }; g = () -> int { f = n100; return 200 }; shared := (f, g)", &[("(*(shared.0))()", &["h := *(shared.0)", "h()"]), ("(*(shared.1))()", &["h := *(shared.1)", "h()"])], None, false),
        case("call through cells: a handler that replaces itself", C0, "later := () -> int { return 2 }; f := mut later; f = () -> int { f = later; return 1 }; shared := f", &[("(*shared)()", &["h := *shared", "h()"]), ("(*shared)()", &["h := *shared", "h()"])], None, false),
        case("call through cells: recursion through the cell vs replacement", C0, "z := (n: int) -> int { return 0 }; f := mut z; f = (n: int) -> int { if n <= 0 { return 0 }; return n + (*f)(n - 1) }; m1 := (n: int) -> int { return -1 }; shared := (f, m1)", &[("(*(shared.0))(1)", &["h := *(shared.0)", "h(1)"]), one!("{ t := shared.0; t = shared.1 }")], None, false),
        case("call through cells: the argument writes the cell", C0, "i1 := (n: int) -> int { return n }; f := mut i1; i2 := (n: int) -> int { return n * 10 }; bump := () -> int { f = i2; return 1 }; shared := (f, bump)", &[("(*(shared.0))((shared.1)())", &["h := *(shared.0)", "a := (shared.1)()", "h(a)"]), ("(*(shared.0))(3)", &["h := *(shared.0)", "h(3)"])], None, false),
        case("cell read next to an operand that writes the cell", C5, "shared := () -> int { c += 1; return 1 }", &[("*c + shared()", &["t := *c", "u := shared()", "t + u"]), one!("c *= 2")], None, false),
        case("array cell indexed by an expression that writes the cell", CA, "shared := () -> int { c += [1]; return 0 }", &[("(*c)[shared()]", &["t := *c", "i := shared()", "t[i]"]), one!("c += [2]")], None, false),
        // 12. one function value reached by several threads through a cell of content type `any`:
        //     whatever a function value keeps about itself (its type, say) is asked for the first
        //     time by two threads at once (OnceLock is a scheduling point in the instrumented copy)
        case("shared function value: type arm in two threads", CANY, "c = (x: int) -> int { return x + 1 }", &[one!("match *c { q: (int) -> int => 1, => 0, }"), one!("match *c { q: (int) -> int => 1, => 0, }")], None, false),
        case("shared function value: if-set and type filter", CANY, "c = (x: int, y: int, z: int) -> int { return x }", &[one!("if q: (int, int, int) -> int = *c { 1 } else { 0 }"), one!("std.len([*c]~ ? (int, int, int) -> int $])")], None, false),
        case("shared function value: mapped with and tested", CANY, "c = (x: int) -> int { return x + 1 }", &[("{ g := *c; if q: (int) -> int = g { [1]~ @ q $] } else { [] } }", &["g := *c", "if q: (int) -> int = g { [1]~ @ q $] } else { [] }"]), one!("match *c { q: (any) -> int => 2, q: (int) -> any => 1, => 0, }")], None, false),
        // 13. a thread that waits in a loop for another thread's assignment ("every assignment takes
        //     effect"): the loop yields to the scheduler on every pass (verif_loom::set_spin_yield),
        //     the expected outcome is fixed (the sequential oracle cannot run a wait on its own); a
        //     wait that never sees the write exhausts the branch budget and is reported
        case("spin: wait for an int cell to change", C0, "", &[one!("{ while *c == 0 { }; *c }"), one!("c = 1")], Some(3), false),
        case("spin: wait for a bool cell, then answer through another cell", &[("c", "bool", "false"), ("d", "int", "0")], "", &[one!("{ while !(*c) { }; d = 5; *d }"), one!("{ c = true; while *d == 0 { }; *d }")], Some(3), false),
        case("spin: wait with a comparison of two cells", AB, "", &[one!("{ while *a < *b { }; (*a, *b) }"), one!("a += 5")], Some(3), false),
        // 14. threads that are deep inside nested calls at the same moment (each stops at a private
        //     cell at the bottom of its recursion, where the scheduler may let the other run down to
        //     its own bottom): whatever is kept per call - a depth, a frame, a scratch buffer -
        //     belongs to the run, not to the process
        case("deep recursion, private cells, two threads", NONE, "shared := (n: int, k: mut int) -> int { if n <= 0 { k += 1; return *k }; return 1 + shared(n - 1, k) }", &[one!("shared(100, mut 0)"), one!("shared(100, mut 5)")], Some(2), false),
        case("deep recursion through a loop body and an argument, two threads", NONE, "shared := (n: int, k: mut int) -> int { if n <= 0 { k += 1; return *k }; r := mut 0; for e in [n]~ { r = shared(e - 1, k) }; return *r + 1 }", &[one!("shared(35, mut 0)"), one!("shared(35, mut 5)")], Some(1), false),
        case("deep recursion, private cells, three threads (bound 2)", NONE, "shared := (n: int, k: mut int) -> int { if n <= 0 { k += 1; return *k }; return 1 + shared(n - 1, k) }", &[one!("shared(45, mut 0)"), one!("shared(45, mut 5)"), one!("shared(45, mut 9)")], Some(2), true),
        // deeper thorough-only explorations
        case("three threads, two ops each (bound 2)", C0, "", &[("{ c += 1; c *= 2 }", &["c += 1", "c *= 2"]), ("{ c += 3; c -= 1 }", &["c += 3", "c -= 1"]), ("{ c *= 3; c += 5 }", &["c *= 3", "c += 5"])], Some(2), true),
        case("two threads, four ops each (bound 3)", C0, "", &[("{ c += 1; c *= 2; c -= 3; c += 7 }", &["c += 1", "c *= 2", "c -= 3", "c += 7"]), ("{ c *= 5; c += 2; c /= 2; c -= 1 }", &["c *= 5", "c += 2", "c /= 2", "c -= 1"])], Some(3), true),
        case("two cells, crossing updates x3 (bound 3)", AB, "", &[("{ a += *b; b += 1 }", &["t := *b", "a += t", "b += 1"]), ("{ b += *a; a *= 2 }", &["t := *a", "b += t", "a *= 2"]), ("{ a -= 1; b -= 1 }", &["a -= 1", "b -= 1"])], Some(3), true),
        case("array and readers x3 (bound 3)", CA, "", &[("{ c += [1]; *c }", &["c += [1]", "*c"]), one!("std.len(*c)"), ("{ c += [2]; std.len(*c) }", &["c += [2]", "std.len(*c)"])], Some(3), true),
        case("failing updates x3", C5, "", &[one!("c /= 0"), one!("c %= 0"), one!("c <<= 64")], None, true),
        case("failing update between two updates (bound 3)", C5, "", &[("{ c += 1; c /= 0 }", &["c += 1", "c /= 0"]), ("{ c *= 2; c -= 1 }", &["c *= 2", "c -= 1"])], Some(3), true),
        case("array cell two ops each", CA, "", &[("{ c += [1]; c += [2] }", &["c += [1]", "c += [2]"]), ("{ c += [3]; c = *c + [4] }", &["c += [3]", "t := *c", "c = t + [4]"])], Some(3), true),
    ]
}

fn dump(v: &Variable) -> String {
    format!("{v:?}")
}

struct Env {
    interp: Interpreter<'static>,
    cells: Vec<Arc<Mut>>,
}

fn fresh_env(case: &Case) -> Env {
    if case.name.starts_with("fs:") {
        // every execution starts from the same file tree (the harness's own std::fs: no scheduling point)
        let _ = std::fs::remove_dir_all("t");
        std::fs::create_dir_all("t/d").expect("scratch tree");
        std::fs::write("t/old.txt", "old").expect("scratch file");
    }
    let mut interp = Interpreter::with_stdlib();
    let mut cells = Vec::new();
    for (name, ty, init) in case.cells {
        let content = Code::parse(&Interpreter::without_stdlib(), init).unwrap().exec().unwrap();
        let cell = Arc::new(Mut { var_type: ty.parse::<Type>().unwrap(), variable: content.into() });
        interp.insert((*name).into(), Variable::Mut(cell.clone()));
        cells.push(cell);
    }
    if !case.setup.is_empty() {
        Code::parse(&interp, case.setup).expect("setup parses").exec_unscoped(&mut interp).expect("setup runs");
    }
    Env { interp, cells }
}

fn finals(env: &Env) -> String {
    env.cells
        .iter()
        .map(|c| match c.variable.read() {
            Ok(g) => dump(&g),
            Err(_) => "<poisoned>".into(),
        })
        .collect::<Vec<_>>()
        .join(",")
}

fn run_one(code: &Code) -> String {
    match code.exec() {
        Ok(v) => dump(&v),
        Err(e) => format!("error:{e:?}"),
    }
}

/// every merge of the threads' operation sequences that keeps each thread's order
fn merges(lens: &[usize]) -> Vec<Vec<usize>> {
    fn rec(left: &mut Vec<usize>, cur: &mut Vec<usize>, out: &mut Vec<Vec<usize>>) {
        if left.iter().all(|l| *l == 0) {
            out.push(cur.clone());
            return;
        }
        for t in 0..left.len() {
            if left[t] > 0 {
                left[t] -= 1;
                cur.push(t);
                rec(left, cur, out);
                cur.pop();
                left[t] += 1;
            }
        }
    }
    let mut out = Vec::new();
    rec(&mut lens.to_vec(), &mut Vec::new(), &mut out);
    out
}

/// interpreter of one thread of the sequential oracle: the shared cells and values plus its own temporaries
fn thread_interp(case: &Case, env: &Env) -> Interpreter<'static> {
    let mut interp = Interpreter::with_stdlib();
    for ((name, _, _), cell) in case.cells.iter().zip(&env.cells) {
        interp.insert((*name).into(), Variable::Mut(cell.clone()));
    }
    if let Some(shared) = env.interp.get_variable("shared") {
        interp.insert("shared".into(), shared.clone());
    }
    interp
}

/// outcome of the harnesses whose threads wait for each other (the only one possible)
fn spin_expected(name: &str) -> Option<&'static str> {
    match name {
        "spin: wait for an int cell to change" => Some("results=[1 | 1] cells=[1]"),
        "spin: wait for a bool cell, then answer through another cell" => Some("results=[5 | 5] cells=[true,5]"),
        "spin: wait with a comparison of two cells" => Some("results=[(6, 2) | 6] cells=[6,2]"),
        _ => None,
    }
}

/// the body of one loom execution
fn execution(case: &Case) {
    if let Some(want) = spin_expected(case.name) {
        simplesl::verif_loom::set_spin_yield(true);
        let env = fresh_env(case);
        let codes: Vec<Code> = case.threads.iter().map(|(t, _)| Code::parse(&env.interp, t).expect("thread program parses")).collect();
        simplesl::verif_loom::begin_lock_book();
        let handles: Vec<_> = codes.into_iter().map(|code| big(move || run_one(&code))).collect();
        let results: Vec<String> = handles.into_iter().map(|h| h.join().expect("worker panicked")).collect();
        let recursive = simplesl::verif_loom::end_lock_book();
        assert!(recursive == 0, "RECURSIVE LOCK: {recursive} (thread, cell) pair(s)");
        let outcome = format!("results=[{}] cells=[{}]", results.join(" | "), finals(&env));
        EXECUTIONS.fetch_add(1, Ordering::Relaxed);
        OUTCOMES.lock().unwrap().insert(outcome.clone());
        assert!(outcome == want, "NOT LINEARIZABLE: observed {outcome}; the only outcome of threads that wait for each other's assignments is {want}");
        return;
    }
    let n = case.threads.len();
    // sequential oracle: the real interpreter executing, one operation at a time, every merge of
    // the threads' operation sequences on fresh state
    let ops: Vec<Vec<&str>> = case.threads.iter().map(|(p, o)| if o.is_empty() { vec![*p] } else { o.to_vec() }).collect();
    let lens: Vec<usize> = ops.iter().map(|o| o.len()).collect();
    let mut allowed: BTreeSet<String> = BTreeSet::new();
    for order in merges(&lens) {
        let env = fresh_env(case);
        let mut interps: Vec<Interpreter<'static>> = (0..n).map(|_| thread_interp(case, &env)).collect();
        let mut next = vec![0usize; n];
        let mut results = vec![String::new(); n];
        let mut failed = vec![false; n];
        for &t in &order {
            let stmt = ops[t][next[t]];
            next[t] += 1;
            if failed[t] {
                continue; // a failed operation ends its thread's program
            }
            let code = Code::parse(&interps[t], stmt).unwrap_or_else(|e| panic!("oracle statement {stmt} rejected: {e}"));
            match code.exec_unscoped(&mut interps[t]) {
                Ok(v) => results[t] = dump(&v),
                Err(e) => {
                    results[t] = format!("error:{e:?}");
                    failed[t] = true;
                }
            }
        }
        allowed.insert(format!("results=[{}] cells=[{}]", results.join(" | "), finals(&env)));
    }
    // runs that share no cell: each gives what it gives when it is the only run (fresh parse, fresh values)
    let alone: Option<Vec<String>> = case.cells.is_empty().then(|| {
        case.threads
            .iter()
            .map(|(t, _)| {
                let env = fresh_env(case);
                run_one(&Code::parse(&env.interp, t).expect("thread program parses"))
            })
            .collect()
    });
    // runs that share no cell are explored under every order of their cell accesses (the world
    // variable makes accesses to different cells conflict): sharing behind the scheduler's back shows
    if case.cells.is_empty() {
        simplesl::verif_loom::set_world(Some(Arc::new(loom::sync::atomic::AtomicUsize::new(0))));
    }
    // concurrent run; threads with the same program text execute one parsed program
    let env = fresh_env(case);
    let mut parsed: Vec<(&str, Code)> = Vec::new();
    let codes: Vec<Code> = case
        .threads
        .iter()
        .map(|(t, _)| {
            if let Some((_, code)) = parsed.iter().find(|(text, _)| text == t) {
                return code.clone();
            }
            let code = Code::parse(&env.interp, t).expect("thread program parses");
            parsed.push((*t, code.clone()));
            code
        })
        .collect();
    simplesl::verif_loom::begin_lock_book();
    let handles: Vec<_> = codes.into_iter().map(|code| big(move || run_one(&code))).collect();
    let results: Vec<String> = handles.into_iter().map(|h| h.join().expect("worker panicked")).collect();
    simplesl::verif_loom::set_world(None);
    // std's RwLock prefers writers; loom's does not model that. A thread that re-takes a cell lock
    // it is holding deadlocks when another thread asks for the write lock in between
    let recursive = simplesl::verif_loom::end_lock_book();
    assert!(recursive == 0, "RECURSIVE LOCK: {recursive} (thread, cell) pair(s) where a thread takes a cell lock it already holds while another thread writes that cell (deadlock under a writer-preferring lock)");
    let outcome = format!("results=[{}] cells=[{}]", results.join(" | "), finals(&env));
    EXECUTIONS.fetch_add(1, Ordering::Relaxed);
    OUTCOMES.lock().unwrap().insert(outcome.clone());
    if let Some(alone) = alone {
        assert!(results == alone, "NOT ISOLATED: runs sharing no cell gave {results:?}; each alone gives {alone:?}");
    }
    assert!(
        allowed.contains(&outcome),
        "NOT LINEARIZABLE: observed {outcome}; interleavings of the atomic operations allow {allowed:?}"
    );
}

fn run_case_child(index: usize) -> i32 {
    let case = cases()[index].clone();
    let mut builder = loom::model::Builder::new();
    builder.preemption_bound = case.bound;
    builder.max_branches = 100_000;
    let start = Instant::now();
    // warm-up: one sequential run of every thread's program in a model of its own, so that
    // whatever the process keeps from one run to the next (lazily built helpers, memos inside
    // long-lived values) is in the same state in every execution the explorer compares
    {
        let cw = case.clone();
        let mut warm = loom::model::Builder::new();
        warm.max_branches = 100_000;
        warm.check(move || {
            let cw = cw.clone();
            big(move || {
                let env = fresh_env(&cw);
                if spin_expected(cw.name).is_some() {
                    return; // a wait cannot run on its own
                }
                for (t, _) in cw.threads {
                    if let Ok(code) = Code::parse(&env.interp, t) {
                        let _ = run_one(&code);
                    }
                }
            })
            .join()
            .expect("warm-up failed");
        });
    }
    let c2 = case.clone();
    builder.check(move || {
        let c3 = c2.clone();
        // the model closure itself only spawns: pest needs more stack than loom's default
        big(move || execution(&c3)).join().expect("execution failed");
    });
    let outcomes: Vec<String> = OUTCOMES.lock().unwrap().iter().cloned().collect();
    println!(
        "{}",
        json!({"case": case.name, "executions": EXECUTIONS.load(Ordering::Relaxed), "distinct_outcomes": outcomes.len(), "outcomes": outcomes, "preemption_bound": case.bound, "threads": case.threads.iter().map(|t| t.0).collect::<Vec<_>>(), "wall_s": start.elapsed().as_secs_f64()})
    );
    0
}

fn main() {
    let args: Vec<String> = std::env::args().collect();
    if args.len() >= 3 && args[1] == "--case" {
        // file-system harnesses use relative paths below a scratch directory of this child
        let exe = std::env::current_exe().unwrap();
        let scratch = exe.parent().unwrap().join(format!("fs-scratch-{}", std::process::id()));
        let _ = std::fs::create_dir_all(&scratch);
        let _ = std::env::set_current_dir(&scratch);
        let code = run_case_child(args[2].parse().unwrap());
        let _ = std::env::set_current_dir(exe.parent().unwrap());
        let _ = std::fs::remove_dir_all(&scratch);
        std::process::exit(code);
    }
    // parent: ./loomcheck C16 <quick|thorough> | ./loomcheck C16 --replay <path>
    let tier = args.get(2).map(|s| s.as_str()).unwrap_or("quick").to_string();
    let root = std::env::var("VERIF_ROOT").unwrap_or_else(|_| "/verif".into());
    let start = Instant::now();
    let exe = std::env::current_exe().unwrap();
    let all = cases();
    if tier == "--replay" {
        let path = args.get(3).expect("replay path");
        let v: Value = serde_json::from_str(&std::fs::read_to_string(path).unwrap()).unwrap();
        let idx = v["case"]["case_index"].as_u64().unwrap() as usize;
        let st = std::process::Command::new(&exe).arg("--case").arg(idx.to_string()).status().unwrap();
        std::process::exit(if st.success() { 0 } else { 1 });
    }
    // `loomcheck C13 <tier>`: the shared-cell harnesses only, summary on stdout for the C13 check
    // (which decides "the update is computed from the content at the moment of the update" with them)
    let for_c13 = args.get(1).map(|s| s.as_str()) == Some("C13");
    let selected: Vec<usize> = (0..all.len()).filter(|&i| (tier == "thorough" || !all[i].thorough_only) && (!for_c13 || !all[i].cells.is_empty())).collect();
    // children in parallel (each is single-threaded under loom's scheduler)
    let results: Mutex<Vec<(usize, Result<Value, String>)>> = Mutex::new(Vec::new());
    let next = AtomicUsize::new(0);
    let workers = std::thread::available_parallelism().map(|n| n.get()).unwrap_or(8);
    std::thread::scope(|s| {
        for _ in 0..workers {
            s.spawn(|| loop {
                let k = next.fetch_add(1, Ordering::Relaxed);
                if k >= selected.len() {
                    break;
                }
                let idx = selected[k];
                let out = std::process::Command::new(&exe).arg("--case").arg(idx.to_string()).output().expect("child");
                let stdout = String::from_utf8_lossy(&out.stdout).to_string();
                let stderr = String::from_utf8_lossy(&out.stderr).to_string();
                let r = if out.status.success() {
                    stdout.lines().last().and_then(|l| serde_json::from_str::<Value>(l).ok()).ok_or_else(|| format!("no result line: {stdout}"))
                } else {
                    let never_ends = spin_expected(all[idx].name).is_some() && (stderr.contains("exceeded maximum number of branches") || stderr.contains("max_branches") || stderr.contains("maximum number of branches"));
                    let verdict = never_ends || ["NOT LINEARIZABLE", "NOT ISOLATED", "RECURSIVE LOCK", "invalid internal loom state", "deadlock", "Deadlock", "Poison", "worker panicked", "/repo/src"].iter().any(|k| stderr.contains(k));
                    let lines = stderr.lines().filter(|l| l.contains("NOT LINEARIZABLE") || l.contains("NOT ISOLATED") || l.contains("RECURSIVE LOCK") || l.contains("eadlock") || l.contains("panicked") || l.contains("Poison")).take(4).collect::<Vec<_>>().join(" / ");
                    if !verdict {
                        eprintln!("MACHINERY ERROR: loom harness {} failed without a verdict: exit {:?}: {lines}", idx, out.status.code());
                        std::process::exit(2);
                    }
                    // loom's RwLock keeps its readers as a set of threads: it reaches this state exactly
                    // when one thread holds two guards of one lock at once (a recursive acquisition,
                    // which deadlocks under std's writer-preferring lock when a writer queues in between)
                    let lines = if never_ends { format!("THE WAIT NEVER ENDS: a thread waiting in a loop for another thread's assignment keeps running after that thread has finished (loom: branch budget exhausted) / {lines}") } else { lines };
                    let lines = if stderr.contains("invalid internal loom state") { format!("RECURSIVE LOCK: a thread took a cell lock it was already holding (loom: invalid internal loom state) / {lines}") } else { lines };
                    Err(format!("exit {:?}: {lines}", out.status.code()))
                };
                results.lock().unwrap().push((idx, r));
            });
        }
    });
    let mut results = results.into_inner().unwrap();
    results.sort_by_key(|r| r.0);
    let mut executions = 0u64;
    let mut violations = Vec::new();
    let mut per_case = Vec::new();
    let mut max_outcomes = 0u64;
    for (idx, r) in &results {
        match r {
            Ok(v) => {
                executions += v["executions"].as_u64().unwrap_or(0);
                max_outcomes = max_outcomes.max(v["distinct_outcomes"].as_u64().unwrap_or(0));
                per_case.push(json!({"case": v["case"], "executions": v["executions"], "distinct_outcomes": v["distinct_outcomes"], "preemption_bound": v["preemption_bound"], "wall_s": v["wall_s"]}));
            }
            Err(e) => violations.push((*idx, e.clone())),
        }
    }
    if for_c13 {
        let vs: Vec<Value> = violations
            .iter()
            .map(|(idx, e)| json!({"name": all[*idx].name, "case_index": idx, "cells": all[*idx].cells.iter().map(|c| format!("{}: mut {} = {}", c.0, c.1, c.2)).collect::<Vec<_>>(), "setup": all[*idx].setup, "threads": all[*idx].threads.iter().map(|t| t.0).collect::<Vec<_>>(), "observed": e}))
            .collect();
        println!("SUMMARY {}", json!({"harnesses": selected.len(), "schedules": executions, "violations": vs}));
        std::process::exit(0);
    }
    let replay_dir = format!("{root}/replays/C16");
    let _ = std::fs::remove_dir_all(&replay_dir);
    for (n, (idx, e)) in violations.iter().enumerate() {
        std::fs::create_dir_all(&replay_dir).unwrap();
        let path = format!("{replay_dir}/{n}.json");
        let body = json!({"property": "C16", "sig": format!("C16|{}", all[*idx].name), "case": {"kind": "loom", "case_index": idx, "name": all[*idx].name, "cells": all[*idx].cells.iter().map(|c| format!("{}: mut {} = {}", c.0, c.1, c.2)).collect::<Vec<_>>(), "setup": all[*idx].setup, "threads": all[*idx].threads.iter().map(|t| t.0).collect::<Vec<_>>(), "observed": e}});
        std::fs::write(&path, serde_json::to_string_pretty(&body).unwrap()).unwrap();
        println!("VIOLATION property=C16 replay={path}");
        println!("  {}: {e}", all[*idx].name);
    }
    let sample = results.iter().find_map(|(_, r)| r.as_ref().ok().filter(|v| v["distinct_outcomes"].as_u64().unwrap_or(0) > 1)).cloned();
    // how the sources were compiled (written by ./check)
    let plain_copy = std::path::Path::new(&format!("{root}/loomcheck/target/PLAIN_COPY")).exists();
    let instrument_log = std::fs::read_to_string(format!("{root}/loomcheck/instrument.log")).unwrap_or_default();
    let sync_note = if plain_copy {
        "the sources with std::sync redirected to loom did NOT compile: built against the plain copy, only cell locks are scheduling points".to_string()
    } else {
        format!("sources compiled with every std::sync path redirected to loom's types ({})", instrument_log.lines().last().unwrap_or("no instrument.log").trim())
    };
    let evidence = json!({
        "property_id": "C16",
        "tier": if tier == "thorough" { "thorough" } else { "quick" },
        "seed": std::env::var("VERIF_SEED").ok().and_then(|s| s.parse::<i64>().ok()).unwrap_or(0),
        "level": "model_checking",
        "coverage": {
            "states": executions,
            "transitions": executions,
            "traces_validated_against_impl": executions,
            "harnesses": selected.len(),
            "schedules_explored": executions,
            "max_distinct_outcomes_in_one_harness": max_outcomes,
            "per_harness": per_case,
            "samples": [sample.unwrap_or(json!({"note": "no harness with more than one outcome"}))],
            "synchronisation_objects_modelled": sync_note,
            "exhaustive": true,
            "rule": "each harness is a loom model over the real interpreter: worker threads execute shared Code / Function values; every interleaving of their lock operations (DPOR; preemption bound where stated) is executed; the per-thread results and final cell contents must equal those of some sequential order of the same programs (computed by running the real interpreter sequentially in every order); loom reports deadlocks; a poisoned lock or a panic fails the execution",
        },
        "assumptions": [
            "scheduling points are the operations on cell locks, on every other std::sync lock / atomic in the sources and every std::fs call of the sources (redirected to loom objects by loomcheck/instrument.py; thread_local!, static mut and objects of other crates are not); the crates contain no unsafe code; for harnesses whose runs share no cell every order of these operations across threads is explored (a world variable makes them conflict), so state shared outside cells shows as a difference from the result each run gives alone; code between two consecutive synchronisation operations of one thread is not interleaved",
            "loom does not model the writer preference of std's RwLock; the facade therefore keeps a book of lock acquisitions per execution and a thread that re-takes a cell lock it holds, in an execution where another thread writes that cell, is reported (such a pair deadlocks when the writer queues between the two acquisitions)",
            "lazy_static first-use races are std::sync::Once's responsibility"
        ],
        "wall_s": start.elapsed().as_secs_f64(),
        "violations": violations.len(),
    });
    // scratch trees of children that ended by a panic
    if let Some(dir) = exe.parent() {
        for entry in std::fs::read_dir(dir).into_iter().flatten().flatten() {
            if entry.file_name().to_string_lossy().starts_with("fs-scratch-") {
                let _ = std::fs::remove_dir_all(entry.path());
            }
        }
    }
    std::fs::create_dir_all(format!("{root}/evidence")).unwrap();
    std::fs::write(format!("{root}/evidence/C16.json"), serde_json::to_string_pretty(&evidence).unwrap() + "\n").unwrap();
    println!("C16 {tier}: {} violation(s), {} harnesses, {} schedules, {:.1}s", violations.len(), selected.len(), executions, start.elapsed().as_secs_f64());
    std::process::exit(if violations.is_empty() { 0 } else { 1 });
}
