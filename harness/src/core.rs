//! Safe, reproducible execution of the real implementation: panic capture,
//! fuel, worker pool, outcome classification.
use simplesl::{verif, Code, Error, ExecError, Interpreter};
use simplesl::variable::Variable;
use std::cell::RefCell;
use std::panic::{catch_unwind, AssertUnwindSafe};
use std::sync::atomic::{AtomicUsize, Ordering};
use std::sync::Once;

thread_local! {
    static LAST_PANIC: RefCell<Option<(String, String)>> = const { RefCell::new(None) };
    static IN_GUARD: std::cell::Cell<u32> = const { std::cell::Cell::new(0) };
}

static HOOK: Once = Once::new();

/// resident-set cap: a runaway exploration ends as a machinery failure (exit 2), never as a verdict
fn start_watchdog() {
    let cap_gb: u64 = std::env::var("VERIF_MAX_RSS_GB").ok().and_then(|s| s.parse().ok()).unwrap_or(40);
    std::thread::spawn(move || loop {
        std::thread::sleep(std::time::Duration::from_secs(2));
        if let Ok(statm) = std::fs::read_to_string("/proc/self/statm") {
            let pages: u64 = statm.split_whitespace().nth(1).and_then(|x| x.parse().ok()).unwrap_or(0);
            if pages * 4096 > cap_gb << 30 {
                eprintln!("MACHINERY ERROR: resident set exceeds {cap_gb} GiB; aborting the check");
                std::process::exit(2);
            }
        }
    });
}

pub fn install_panic_hook() {
    HOOK.call_once(|| {
        start_watchdog();
        std::panic::set_hook(Box::new(|info| {
            let msg = if let Some(s) = info.payload().downcast_ref::<&str>() {
                s.to_string()
            } else if let Some(s) = info.payload().downcast_ref::<String>() {
                s.clone()
            } else {
                "<non-string panic payload>".to_string()
            };
            let loc = info
                .location()
                .map(|l| format!("{}:{}", l.file(), l.line()))
                .unwrap_or_default();
            if IN_GUARD.with(|g| g.get()) == 0 {
                eprintln!("MACHINERY PANIC (outside guard): {msg} at {loc}");
            }
            LAST_PANIC.with(|p| *p.borrow_mut() = Some((msg, loc)));
        }));
    });
}

#[derive(Debug, Clone, PartialEq)]
pub struct PanicInfo {
    pub msg: String,
    /// file:line of the panic site
    pub loc: String,
}

impl PanicInfo {
    /// file (without line) of the panic site, relative to the repository
    pub fn file(&self) -> String {
        let f = self.loc.rsplit_once(':').map(|x| x.0).unwrap_or(&self.loc);
        f.trim_start_matches("/repo/").to_string()
    }
    /// message class: the message without the case-specific tail
    pub fn short_msg(&self) -> String {
        let m = self.msg.replace('\n', " ");
        let cut = ["` value", "Tried to", "Unexpected rule"]
            .iter()
            .filter_map(|k| m.find(k).map(|i| i + k.len()))
            .min()
            .unwrap_or(usize::MAX);
        let mut out: String = m.chars().take(70).collect();
        if cut < out.len() && m.is_char_boundary(cut) {
            out = m[..cut].to_string();
        }
        out
    }
}

#[derive(Debug, Clone, PartialEq)]
pub enum Stop {
    Panic(PanicInfo),
    /// fuel or depth budget exhausted: the case is inconclusive
    Exhausted,
}

/// Runs `f`, converting an unwind into `Stop`. Resets hook state afterwards.
pub fn guard<T>(f: impl FnOnce() -> T) -> Result<T, Stop> {
    install_panic_hook();
    LAST_PANIC.with(|p| *p.borrow_mut() = None);
    IN_GUARD.with(|g| g.set(g.get() + 1));
    let r = catch_unwind(AssertUnwindSafe(f));
    IN_GUARD.with(|g| g.set(g.get() - 1));
    match r {
        Ok(v) => Ok(v),
        Err(payload) => {
            verif::reset_run_state();
            if payload.downcast_ref::<verif::Exhausted>().is_some() {
                return Err(Stop::Exhausted);
            }
            let (msg, loc) = LAST_PANIC.with(|p| p.borrow_mut().take()).unwrap_or_else(|| {
                let msg = if let Some(s) = payload.downcast_ref::<&str>() {
                    s.to_string()
                } else if let Some(s) = payload.downcast_ref::<String>() {
                    s.clone()
                } else {
                    "<unknown>".into()
                };
                (msg, String::new())
            });
            if msg.contains("capacity overflow") || msg.contains("Exhausted") || msg.contains("memory allocation") {
                return Err(Stop::Exhausted);
            }
            Err(Stop::Panic(PanicInfo { msg, loc }))
        }
    }
}

pub fn error_kind(e: &Error) -> String {
    let s = format!("{e:?}");
    s.chars()
        .take_while(|c| c.is_ascii_alphanumeric() || *c == '_')
        .collect()
}

/// true iff the parse-time error is one of the six documented run-time error kinds
/// (raised while folding constants)
pub fn is_exec_kind(e: &Error) -> bool {
    matches!(
        e,
        Error::IndexOutOfBounds
            | Error::NegativeLength
            | Error::NegativeExponent
            | Error::ZeroDivision
            | Error::ZeroModulo
            | Error::OverflowShift
    )
}

pub fn exec_error_kind(e: &ExecError) -> String {
    format!("{e:?}")
}

#[derive(Debug, Clone)]
pub enum Outcome {
    Value(Variable),
    /// rejected by parser/checker: (variant name, is one of the six exec kinds)
    Rejected(String, bool),
    ExecError(String),
    Panic(&'static str, PanicInfo),
    Exhausted,
}

impl Outcome {
    pub fn tag(&self) -> String {
        match self {
            Outcome::Value(_) => "value".into(),
            Outcome::Rejected(k, _) => format!("rejected:{k}"),
            Outcome::ExecError(k) => format!("error:{k}"),
            Outcome::Panic(phase, p) => format!("panic@{phase}:{}:{}", p.file(), p.short_msg()),
            Outcome::Exhausted => "exhausted".into(),
        }
    }
    pub fn is_panic(&self) -> bool {
        matches!(self, Outcome::Panic(..))
    }
}

pub const QUICK_FUEL: u64 = 20_000;
pub const DEPTH: u32 = 150;

/// parse + check (+ static type) + exec of one program text against a fresh interpreter
pub fn run_text(src: &str, stdlib: bool, fuel: u64) -> Outcome {
    verif::set_fuel(Some(fuel), Some(DEPTH));
    let interp = if stdlib {
        Interpreter::with_stdlib()
    } else {
        Interpreter::without_stdlib()
    };
    let parsed = guard(|| Code::parse(&interp, src));
    let code = match parsed {
        Err(Stop::Exhausted) => return Outcome::Exhausted,
        Err(Stop::Panic(p)) => return Outcome::Panic("parse", p),
        Ok(Err(e)) => return Outcome::Rejected(error_kind(&e), is_exec_kind(&e)),
        Ok(Ok(c)) => c,
    };
    let r = guard(|| code.exec());
    verif::set_fuel(None, None);
    match r {
        Err(Stop::Exhausted) => Outcome::Exhausted,
        Err(Stop::Panic(p)) => Outcome::Panic("exec", p),
        Ok(Err(e)) => Outcome::ExecError(exec_error_kind(&e)),
        Ok(Ok(v)) => Outcome::Value(v),
    }
}

pub fn n_workers() -> usize {
    std::env::var("VERIF_WORKERS")
        .ok()
        .and_then(|s| s.parse().ok())
        .unwrap_or_else(|| std::thread::available_parallelism().map(|n| n.get()).unwrap_or(8))
}

const STACK: usize = 512 << 20;

/// Runs `step(state, i)` for every i in 0..n on a pool of big-stack workers; each
/// worker folds into its own state, the states are returned (order unspecified).
pub fn par_fold<S: Send>(
    n: usize,
    init: impl Fn() -> S + Sync,
    step: impl Fn(&mut S, usize) + Sync,
) -> Vec<S> {
    install_panic_hook();
    let next = AtomicUsize::new(0);
    let chunk = (n / (n_workers() * 64)).clamp(1, 4096);
    let workers = n_workers().min(n.max(1));
    std::thread::scope(|scope| {
        let mut handles = Vec::new();
        for w in 0..workers {
            let next = &next;
            let init = &init;
            let step = &step;
            let h = std::thread::Builder::new()
                .name(format!("w{w}"))
                .stack_size(STACK)
                .spawn_scoped(scope, move || {
                    // warm every lazily built global before any budget is installed
                    crate::warm::warm();
                    let mut state = init();
                    loop {
                        let start = next.fetch_add(chunk, Ordering::Relaxed);
                        if start >= n {
                            break;
                        }
                        for i in start..(start + chunk).min(n) {
                            step(&mut state, i);
                        }
                    }
                    state
                })
                .expect("spawn worker");
            handles.push(h);
        }
        handles
            .into_iter()
            .map(|h| h.join().expect("worker died outside guard (machinery error)"))
            .collect()
    })
}

/// Runs a closure on a big-stack thread (for sequential drivers).
pub fn on_big_stack<T: Send>(f: impl FnOnce() -> T + Send) -> T {
    install_panic_hook();
    std::thread::scope(|scope| {
        std::thread::Builder::new()
            .stack_size(STACK)
            .spawn_scoped(scope, move || {
                crate::warm::warm();
                f()
            })
            .unwrap()
            .join()
            .expect("driver thread died (machinery error)")
    })
}


// ------------------------------------------------------------------ crash isolation
// An allocation failure or a stack overflow inside the implementation aborts the process: no
// panic to catch. A check that feeds extreme operands runs as a child of a supervisor (see
// main.rs); every worker thread notes the case it is about to run in a file of its own, and
// when the child is killed the supervisor re-runs the noted cases one by one in fresh children
// to find the one that kills its process.
thread_local! {
    static JOURNAL: std::cell::RefCell<Option<std::fs::File>> = const { std::cell::RefCell::new(None) };
}
static JOURNAL_SEQ: std::sync::atomic::AtomicUsize = std::sync::atomic::AtomicUsize::new(0);

/// notes `case` (a replayable case as JSON text) as the one this thread is about to run
pub fn journal(case: impl FnOnce() -> String) {
    use std::io::{Seek, SeekFrom, Write};
    let Ok(dir) = std::env::var("SSLVERIF_JOURNAL") else { return };
    JOURNAL.with(|j| {
        let mut j = j.borrow_mut();
        if j.is_none() {
            let k = JOURNAL_SEQ.fetch_add(1, std::sync::atomic::Ordering::Relaxed);
            *j = std::fs::File::create(std::path::Path::new(&dir).join(format!("{k}.json"))).ok();
        }
        if let Some(f) = j.as_mut() {
            let text = case();
            let _ = f.seek(SeekFrom::Start(0));
            let _ = f.write_all(text.as_bytes());
            let _ = f.set_len(text.len() as u64);
        }
    });
}
