//! Canonical dumps of implementation values: order-independent, identity of
//! cells and functions expressed by first-reachability numbering.
use crate::ty::Ty;
use simplesl::variable::{Typed, Variable};
use std::collections::HashMap;
use std::sync::Arc;

#[derive(Default)]
pub struct Canon {
    cells: HashMap<usize, usize>,
    fns: HashMap<usize, usize>,
    /// include declared types of cells/functions in the dump
    pub with_types: bool,
}

impl Canon {
    pub fn new(with_types: bool) -> Self {
        Canon { with_types, ..Default::default() }
    }

    pub fn dump(&mut self, v: &Variable) -> String {
        self.dump_depth(v, 0)
    }

    fn dump_depth(&mut self, v: &Variable, depth: usize) -> String {
        if depth > 16 {
            return "…".into();
        }
        match v {
            Variable::Bool(b) => format!("{b}"),
            Variable::Int(i) => format!("{i}"),
            Variable::Float(f) => float_canon(*f),
            Variable::String(s) => format!("{:?}", s.as_ref()),
            Variable::Void => "()".into(),
            Variable::Array(a) => format!(
                "[{}]",
                a.iter().map(|x| self.dump_depth(x, depth + 1)).collect::<Vec<_>>().join(", ")
            ),
            Variable::Tuple(xs) => format!(
                "({})",
                xs.iter().map(|x| self.dump_depth(x, depth + 1)).collect::<Vec<_>>().join(", ")
            ),
            Variable::Struct(vm) => {
                let mut keys: Vec<String> = vm.keys().map(|k| k.to_string()).collect();
                keys.sort();
                let fields: Vec<String> = keys
                    .iter()
                    .map(|k| format!("{k}:={}", self.dump_depth(vm.get(k.as_str()).unwrap(), depth + 1)))
                    .collect();
                format!("struct{{{}}}", fields.join(", "))
            }
            Variable::Mut(m) => {
                let key = Arc::as_ptr(m) as usize;
                let next = self.cells.len();
                let (id, fresh) = match self.cells.get(&key) {
                    Some(id) => (*id, false),
                    None => {
                        self.cells.insert(key, next);
                        (next, true)
                    }
                };
                if !fresh {
                    return format!("cell#{id}");
                }
                let content = match m.variable.read() {
                    Ok(g) => g.clone(),
                    Err(_) => return format!("cell#{id}<poisoned>"),
                };
                let ty = if self.with_types {
                    format!("<{}>", Ty::from_impl(&m.var_type).print())
                } else {
                    String::new()
                };
                format!("cell#{id}{ty}({})", self.dump_depth(&content, depth + 1))
            }
            Variable::Function(f) => {
                let key = Arc::as_ptr(f) as usize;
                let next = self.fns.len();
                let id = *self.fns.entry(key).or_insert(next);
                if self.with_types {
                    format!("fn#{id}<{}>", Ty::from_impl(&f.as_type()).print())
                } else {
                    format!("fn#{id}")
                }
            }
        }
    }
}

pub fn float_canon(f: f64) -> String {
    if f.is_nan() {
        "NaN".into()
    } else {
        format!("f{:?}", f)
    }
}

pub fn canon(v: &Variable) -> String {
    Canon::new(false).dump(v)
}

pub fn canon_typed(v: &Variable) -> String {
    Canon::new(true).dump(v)
}
