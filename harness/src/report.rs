//! Violations, known findings, replay artefacts and evidence files.
use serde_json::{json, Value};
use std::collections::BTreeMap;
use std::path::PathBuf;
use std::time::Instant;

pub fn verif_root() -> PathBuf {
    std::env::var("VERIF_ROOT").map(PathBuf::from).unwrap_or_else(|_| PathBuf::from("/verif"))
}

#[derive(Debug, Clone)]
pub struct Violation {
    /// normalised signature of the failing case (construct, operand types, kind of disagreement)
    pub sig: String,
    /// everything needed to replay the case without the explorer
    pub detail: Value,
}

/// deduplicating collection of violations: one stored case per signature, with a count
#[derive(Default)]
pub struct VSet {
    pub map: BTreeMap<String, (usize, Value)>,
}

impl VSet {
    /// `detail` is only evaluated for a signature not seen before
    pub fn push(&mut self, sig: String, detail: impl FnOnce() -> Value) {
        match self.map.get_mut(&sig) {
            Some(e) => e.0 += 1,
            None => {
                self.map.insert(sig, (1, detail()));
            }
        }
    }
    pub fn merge(&mut self, other: VSet) {
        for (sig, (n, d)) in other.map {
            match self.map.get_mut(&sig) {
                Some(e) => e.0 += n,
                None => {
                    self.map.insert(sig, (n, d));
                }
            }
        }
    }
    pub fn len(&self) -> usize {
        self.map.len()
    }
}

struct Known {
    property: String,
    sig_prefix: String,
    contains: Vec<String>,
    what: String,
}

pub struct Report {
    pub property: String,
    pub tier: String,
    pub seed: i64,
    start: Instant,
    by_sig: BTreeMap<String, (usize, Value)>,
    known: Vec<Known>,
}

impl Report {
    pub fn new(property: &str, tier: &str) -> Self {
        let seed = std::env::var("VERIF_SEED").ok().and_then(|s| s.parse().ok()).unwrap_or(0);
        let mut known = Vec::new();
        let path = verif_root().join("known_findings.json");
        if let Ok(text) = std::fs::read_to_string(&path) {
            let v: Value = serde_json::from_str(&text).expect("known_findings.json must be valid JSON");
            for f in v["findings"].as_array().cloned().unwrap_or_default() {
                known.push(Known {
                    property: f["property"].as_str().unwrap_or("").to_string(),
                    sig_prefix: f["sig_prefix"].as_str().unwrap_or("\u{0}").to_string(),
                    contains: f["contains"]
                        .as_array()
                        .map(|a| a.iter().filter_map(|x| x.as_str().map(String::from)).collect())
                        .unwrap_or_default(),
                    what: f["what"].as_str().unwrap_or("").to_string(),
                });
            }
        }
        Report {
            property: property.to_string(),
            tier: tier.to_string(),
            seed,
            start: Instant::now(),
            by_sig: BTreeMap::new(),
            known,
        }
    }

    pub fn is_empty(&self) -> bool {
        self.by_sig.is_empty()
    }

    pub fn violation(&mut self, v: Violation) {
        let e = self.by_sig.entry(v.sig).or_insert((0, v.detail));
        e.0 += 1;
    }

    pub fn violations(&mut self, vs: impl IntoIterator<Item = Violation>) {
        for v in vs {
            self.violation(v);
        }
    }

    pub fn violation_set(&mut self, vs: VSet) {
        for (sig, (n, detail)) in vs.map {
            let e = self.by_sig.entry(sig).or_insert((0, detail));
            e.0 += n;
        }
    }

    pub fn elapsed(&self) -> f64 {
        self.start.elapsed().as_secs_f64()
    }

    fn known_for(&self, sig: &str) -> Option<&Known> {
        self.known.iter().find(|k| {
            k.property == self.property
                && sig.starts_with(&k.sig_prefix)
                && k.contains.iter().all(|c| sig.contains(c.as_str()))
        })
    }

    /// Writes replay files + evidence, prints the verdict lines, returns the exit code.
    pub fn finish(self, level: &str, mut coverage: Value, assumptions: &[&str]) -> i32 {
        let root = verif_root();
        let replay_dir = root.join("replays").join(&self.property);
        let _ = std::fs::remove_dir_all(&replay_dir);
        let mut unknown = 0usize;
        let mut known_hits: BTreeMap<String, usize> = BTreeMap::new();
        let mut known_sigs: BTreeMap<String, usize> = BTreeMap::new();
        let mut known_examples: Vec<Value> = Vec::new();
        let mut n = 0usize;
        let mut per_class: BTreeMap<String, usize> = BTreeMap::new();
        for (sig, (count, detail)) in &self.by_sig {
            if let Some(k) = self.known_for(sig) {
                *known_hits.entry(k.what.clone()).or_insert(0) += count;
                *known_sigs.entry(sig.clone()).or_insert(0) += count;
                if known_examples.len() < 12 {
                    known_examples.push(json!({"sig": sig, "case": detail}));
                }
                continue;
            }
            unknown += 1;
            let class = sig_class(sig);
            let seen = per_class.entry(class).or_insert(0);
            *seen += 1;
            if *seen <= 3 && n < 60 {
                let _ = std::fs::create_dir_all(&replay_dir);
                let path = replay_dir.join(format!("{n}.json"));
                let body = json!({"property": self.property, "sig": sig, "occurrences": count, "case": detail});
                std::fs::write(&path, serde_json::to_string_pretty(&body).unwrap()).expect("write replay");
                println!("VIOLATION property={} replay={}", self.property, path.display());
                println!("  sig: {sig}");
                n += 1;
            }
        }
        if unknown > 0 {
            println!("  ... {} distinct violation signatures in {} classes:", unknown, per_class.len());
            for (class, count) in &per_class {
                println!("    {count:6}  {class}");
            }
        }
        for (what, count) in &known_hits {
            println!("KNOWN-FINDING: property={} {} ({} cases)", self.property, what, count);
        }
        let wall = self.start.elapsed().as_secs_f64();
        if let Some(obj) = coverage.as_object_mut() {
            obj.insert("known_finding_cases".into(), json!(known_hits.values().sum::<usize>()));
            obj.insert("distinct_violation_signatures".into(), json!(unknown));
            if !known_sigs.is_empty() {
                obj.insert("known_finding_signatures".into(), json!(known_sigs));
                obj.insert("known_finding_examples".into(), json!(known_examples));
            }
        }
        let evidence = json!({
            "property_id": self.property,
            "tier": self.tier,
            "seed": self.seed,
            "level": level,
            "coverage": coverage,
            "assumptions": assumptions,
            "wall_s": (wall * 1000.0).round() / 1000.0,
            "violations": unknown,
        });
        let dir = root.join("evidence");
        let _ = std::fs::create_dir_all(&dir);
        std::fs::write(
            dir.join(format!("{}.json", self.property)),
            serde_json::to_string_pretty(&evidence).unwrap() + "\n",
        )
        .expect("write evidence");
        println!(
            "{} {}: {} unknown violation signature(s), {} known-finding case(s), {:.1}s",
            self.property,
            self.tier,
            unknown,
            known_hits.values().sum::<usize>(),
            wall
        );
        if unknown > 0 {
            1
        } else {
            0
        }
    }
}

/// coarse class of a signature: everything except the `construct=` / `types=` / `static=` / `node=` fields
pub fn sig_class(sig: &str) -> String {
    sig.split('|')
        .filter(|f| !(f.starts_with("construct=") || f.starts_with("types=") || f.starts_with("static=") || f.starts_with("node=") || f.starts_with("case=")))
        .collect::<Vec<_>>()
        .join("|")
}

/// Small helper: keep the first `cap` samples.
pub struct Samples {
    cap: usize,
    pub items: Vec<Value>,
}

impl Samples {
    pub fn new(cap: usize) -> Self {
        Samples { cap, items: Vec::new() }
    }
    pub fn push(&mut self, v: impl FnOnce() -> Value) {
        if self.items.len() < self.cap {
            self.items.push(v());
        }
    }
    pub fn merge(&mut self, other: Samples) {
        for i in other.items {
            if self.items.len() < self.cap {
                self.items.push(i);
            }
        }
    }
}
