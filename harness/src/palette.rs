//! Type palette and value palette ("one type per shortcut visible in the code",
//! every boundary inhabitant). Values are *recipes*: SimpleSL source expressions
//! that are evaluated by the implementation and then checked with `belongs`
//! against the type they are used at, so a mis-evaluated recipe is a machinery
//! error, never a silent wrong input.
use crate::core::{guard, Stop};
use crate::ty::{belongs, Ty};
use simplesl::variable::Variable;
use simplesl::{Code, Interpreter};

pub fn t_iter(e: Ty) -> Ty {
    Ty::func(vec![], Ty::Tup(vec![Ty::Bool, e]))
}

pub fn quick_types() -> Vec<Ty> {
    vec![
        Ty::Bool,
        Ty::Int,
        Ty::Float,
        Ty::Str,
        Ty::Any,
        Ty::Never,
        Ty::arr(Ty::Int),
        Ty::arr(Ty::Never),
        Ty::Tup(vec![Ty::Int, Ty::Int]),
        Ty::union([Ty::Int, Ty::Float]),
        Ty::mutc(Ty::Int),
        Ty::union([Ty::mutc(Ty::Int), Ty::mutc(Ty::Float)]),
        t_iter(Ty::Int),
        Ty::func(vec![Ty::Int], Ty::Int),
        Ty::strukt(&[("a", Ty::Int)]),
        t_iter(Ty::Str),
        Ty::union([Ty::Tup(vec![Ty::Int, Ty::Int]), Ty::Tup(vec![Ty::Int, Ty::Int, Ty::Int])]),
        Ty::arr(Ty::union([Ty::Int, Ty::Float])),
        Ty::func(vec![Ty::Int], Ty::Bool),
        // same width as struct{a: int}, another field name
        Ty::strukt(&[("b", Ty::Str)]),
    ]
}

pub fn thorough_types() -> Vec<Ty> {
    let mut v = quick_types();
    v.extend([
        Ty::Void,
        Ty::arr(Ty::Any),
        Ty::arr(Ty::union([Ty::Int, Ty::Str])),
        Ty::union([Ty::Tup(vec![Ty::Int, Ty::Int]), Ty::Tup(vec![Ty::Float, Ty::Float])]),
        Ty::Tup(vec![Ty::Int, Ty::Str, Ty::Bool]),
        Ty::union([Ty::Int, Ty::Str, Ty::Void]),
        Ty::union([Ty::arr(Ty::Int), Ty::Str]),
        Ty::mutc(Ty::union([Ty::Int, Ty::Float])),
        Ty::union([t_iter(Ty::Int), t_iter(Ty::Float)]),
        t_iter(Ty::Never),
        t_iter(Ty::Bool),
        Ty::union([Ty::func(vec![Ty::Any], Ty::Int), Ty::func(vec![Ty::Int], Ty::Any)]),
        Ty::func(vec![Ty::Int, Ty::Int], Ty::Int),
        Ty::union([Ty::strukt(&[("a", Ty::Int), ("b", Ty::Str)]), Ty::strukt(&[("a", Ty::Float)])]),
        Ty::func(vec![], Ty::Never),
        Ty::mutc(Ty::arr(Ty::Int)),
        Ty::arr(Ty::Str),
        Ty::arr(Ty::Float),
        t_iter(Ty::Float),
        Ty::strukt(&[("a", Ty::Int), ("b", Ty::Str)]),
        Ty::strukt(&[("a", Ty::Int), ("c", Ty::Str)]),
    ]);
    v
}

/// types used in type positions of constructs (`? T`, `mut T e`, `x: T` arms)
pub fn position_types() -> Vec<Ty> {
    vec![
        Ty::Int,
        Ty::Float,
        Ty::Str,
        Ty::Void,
        Ty::union([Ty::Int, Ty::Float]),
        Ty::arr(Ty::Int),
        Ty::Any,
        Ty::Never,
        Ty::Tup(vec![Ty::Int, Ty::Int]),
        Ty::mutc(Ty::Int),
        Ty::func(vec![], Ty::Int),
        Ty::strukt(&[("a", Ty::Int)]),
    ]
}

#[derive(Clone, Debug)]
pub struct Recipe {
    pub src: &'static str,
    /// the value carries state (cells, iterators): instantiate afresh for every use
    pub stateful: bool,
    /// boundary rank: lower = simpler (quick tiers take the lowest ranks first)
    pub rank: u8,
}

const fn r(src: &'static str, stateful: bool, rank: u8) -> Recipe {
    Recipe { src, stateful, rank }
}

pub const RECIPES: &[Recipe] = &[
    // bool / void
    r("true", false, 0),
    r("false", false, 0),
    r("()", false, 0),
    // ints
    r("0", false, 0),
    r("1", false, 0),
    r("(0 - 1)", false, 0),
    r("2", false, 1),
    r("3", false, 2),
    r("63", false, 1),
    r("64", false, 1),
    r("(0 - 64)", false, 2),
    r("65", false, 2),
    r("4294967296", false, 1),
    r("9223372036854775807", false, 1),
    r("(-9223372036854775807 - 1)", false, 0),
    // floats
    r("0.0", false, 0),
    r("1.5", false, 0),
    r("(-0.0)", false, 1),
    r("(-2.5)", false, 1),
    r("(0.0 / 0.0)", false, 0),
    r("(1.0 / 0.0)", false, 1),
    r("(-1.0 / 0.0)", false, 2),
    r("1e308", false, 2),
    r("5e-324", false, 2),
    // strings
    r("\"\"", false, 0),
    r("\"a\"", false, 0),
    r("\"é😀x\"", false, 1),
    // arrays (different producers give different stored element types)
    r("[]", false, 0),
    r("[1, 2, 3]", false, 0),
    r("[1]", false, 1),
    r("[1, \"a\"]", false, 1),
    r("[1.5]", false, 1),
    r("[1, 2.5]", false, 1),
    r("[\"a\", \"b\"]", false, 1),
    r("[1, 2][2:]", false, 1),
    r("[1, 2.5][0:1]", false, 2),
    r("[[1], []]", false, 2),
    r("[0; 2]", false, 2),
    r("(() -> [any] { return [1, \"a\"] })()", false, 2),
    // tuples
    r("(1, 2)", false, 0),
    r("(1.5, 2.5)", false, 1),
    r("(1, \"a\", true)", false, 1),
    r("(1, 2, 3)", false, 1),
    // cells
    r("mut 1", true, 0),
    r("mut 1.5", true, 1),
    r("mut int | float 1", true, 0),
    r("mut int | float 2.5", true, 1),
    r("mut [int] []", true, 1),
    r("mut [int] [1, 2]", true, 2),
    // iterators
    r("[1, 2]~", true, 0),
    r("[]~", true, 0),
    r("[1.5]~", true, 1),
    r("[true, false]~", true, 1),
    r("[\"a\", \"b\"]~", true, 1),
    r("[\"a\"][1:]~", true, 1),
    r("[1, 2]~ @ (v: int) -> string { return \"m\" }", true, 2),
    r("[\"a\"]~ @ (v: string) -> int { return 1 } ? (v: int) -> bool { return true }", true, 2),
    r("[1, \"a\"]~ ? int", true, 2),
    // functions
    r("(v: int) -> int { return v + 1 }", false, 0),
    r("(v: any) -> int { return 1 }", false, 1),
    r("(v: int) -> any { return v }", false, 1),
    r("(v: int) -> bool { return v > 0 }", false, 0),
    r("(v: int, w: int) -> int { return v + w }", false, 0),
    r("() -> int { return 7 }", false, 1),
    r("{ g := () -> ! { return g() }; g }", false, 2),
    // structs
    r("struct{ a := 1 }", false, 0),
    r("struct{ a := 1, b := \"s\" }", false, 1),
    r("struct{ a := 1.5 }", false, 1),
    r("struct{ b := \"s\" }", false, 0),
    r("struct{ a := 1, c := \"x\" }", false, 2),
    r("struct{ b := 1, z := 2.5 }", false, 2),
];

pub struct Values {
    interp: Interpreter<'static>,
    cache: Vec<Option<Variable>>,
    /// recipes the implementation failed to evaluate (each is an accepted program
    /// that panicked: reported by the C02 check, skipped by the others)
    pub failures: Vec<(usize, crate::core::PanicInfo)>,
    failed: Vec<bool>,
}

impl Values {
    pub fn new() -> Self {
        Values {
            interp: Interpreter::with_stdlib(),
            cache: vec![None; RECIPES.len()],
            failures: Vec::new(),
            failed: vec![false; RECIPES.len()],
        }
    }

    /// evaluates recipe i (fresh for stateful ones); None if the implementation cannot build it
    pub fn make(&mut self, i: usize) -> Option<Variable> {
        let rec = &RECIPES[i];
        if self.failed[i] {
            return None;
        }
        if !rec.stateful {
            if let Some(v) = &self.cache[i] {
                return Some(v.clone());
            }
        }
        match self.eval(rec.src) {
            Ok(v) => {
                if !rec.stateful {
                    self.cache[i] = Some(v.clone());
                }
                Some(v)
            }
            Err(p) => {
                self.failed[i] = true;
                self.failures.push((i, p));
                None
            }
        }
    }

    pub fn eval(&self, src: &str) -> Result<Variable, crate::core::PanicInfo> {
        simplesl::verif::set_fuel(None, None);
        let r = guard(|| {
            let code = match Code::parse(&self.interp, src) {
                Ok(c) => c,
                Err(e) => {
                    eprintln!("MACHINERY ERROR: value recipe is rejected: {src}: {e}");
                    std::process::exit(2);
                }
            };
            match code.exec() {
                Ok(v) => v,
                Err(e) => {
                    eprintln!("MACHINERY ERROR: value recipe fails: {src}: {e}");
                    std::process::exit(2);
                }
            }
        });
        match r {
            Ok(v) => Ok(v),
            Err(Stop::Panic(p)) => Err(p),
            Err(Stop::Exhausted) => {
                eprintln!("MACHINERY ERROR: value recipe {src} exhausted resources");
                std::process::exit(2);
            }
        }
    }

    /// indices of the recipes whose value belongs to `t`, simplest first, at most
    /// `max_rank` in boundary rank
    pub fn admitted(&mut self, t: &Ty, max_rank: u8) -> Vec<usize> {
        let mut out: Vec<usize> = (0..RECIPES.len())
            .filter(|&i| RECIPES[i].rank <= max_rank)
            .filter(|&i| self.make(i).is_some_and(|v| belongs(&v, t)))
            .collect();
        // values whose own run-time type is exactly t come first (a slot of type [int|float]
        // is first tried with an array tagged [int|float], not only with narrower ones)
        let want = crate::ty::normal(t);
        let native: Vec<bool> = (0..RECIPES.len())
            .map(|i| out.contains(&i) && self.make(i).is_some_and(|v| crate::ty::normal(&Ty::from_impl(&simplesl::variable::Typed::as_type(&v))) == want))
            .collect();
        out.sort_by_key(|&i| (!native[i], RECIPES[i].rank, i));
        out
    }
}
