//! The harness's own representation of SimpleSL types, written from the
//! documentation: printer, structural subtype relation, and the value
//! membership judgement `belongs` (independent of the crate's `Type::matches`).
use simplesl::variable::{Type, Typed, Variable};
use std::collections::{BTreeMap, BTreeSet};

#[derive(Clone, PartialEq, Eq, PartialOrd, Ord, Hash, Debug)]
pub enum Ty {
    Bool,
    Int,
    Float,
    Str,
    Void,
    Any,
    Never,
    Arr(Box<Ty>),
    Tup(Vec<Ty>),
    Fn(Vec<Ty>, Box<Ty>),
    Mut(Box<Ty>),
    Struct(BTreeMap<String, Ty>),
    Union(BTreeSet<Ty>),
}

impl Ty {
    pub fn arr(t: Ty) -> Ty {
        Ty::Arr(Box::new(t))
    }
    pub fn mutc(t: Ty) -> Ty {
        Ty::Mut(Box::new(t))
    }
    pub fn func(p: Vec<Ty>, r: Ty) -> Ty {
        Ty::Fn(p, Box::new(r))
    }
    pub fn strukt(fields: &[(&str, Ty)]) -> Ty {
        Ty::Struct(fields.iter().map(|(k, v)| (k.to_string(), v.clone())).collect())
    }
    /// Normalising union constructor: flattens, absorbs `!` and `any`, collapses singletons.
    pub fn union(members: impl IntoIterator<Item = Ty>) -> Ty {
        let mut set = BTreeSet::new();
        for m in members {
            match m {
                Ty::Union(inner) => set.extend(inner),
                Ty::Never => {}
                other => {
                    set.insert(other);
                }
            }
        }
        if set.contains(&Ty::Any) {
            return Ty::Any;
        }
        match set.len() {
            0 => Ty::Never,
            1 => set.into_iter().next().unwrap(),
            _ => Ty::Union(set),
        }
    }

    pub fn from_impl(t: &Type) -> Ty {
        match t {
            Type::Bool => Ty::Bool,
            Type::Int => Ty::Int,
            Type::Float => Ty::Float,
            Type::String => Ty::Str,
            Type::Void => Ty::Void,
            Type::Any => Ty::Any,
            Type::Never => Ty::Never,
            Type::Function(f) => Ty::Fn(
                f.params.iter().map(Ty::from_impl).collect(),
                Box::new(Ty::from_impl(&f.return_type)),
            ),
            Type::Array(e) => Ty::arr(Ty::from_impl(e)),
            Type::Tuple(ts) => Ty::Tup(ts.iter().map(Ty::from_impl).collect()),
            // not normalised on purpose: the raw member set is kept so that
            // malformed unions built by the implementation stay visible
            Type::Multi(m) => Ty::Union(m.iter().map(Ty::from_impl).collect()),
            Type::Mut(e) => Ty::mutc(Ty::from_impl(e)),
            Type::Struct(s) => Ty::Struct(
                s.0.iter()
                    .map(|(k, v)| (k.to_string(), Ty::from_impl(v)))
                    .collect(),
            ),
        }
    }

    /// SimpleSL source text of the type (unions parenthesised where the grammar needs it).
    pub fn print(&self) -> String {
        self.print_with(&|members: Vec<String>| members)
    }

    /// Same, with union members / struct fields arranged by `arrange` (used to print
    /// every member order).
    pub fn print_with(&self, arrange: &dyn Fn(Vec<String>) -> Vec<String>) -> String {
        match self {
            Ty::Bool => "bool".into(),
            Ty::Int => "int".into(),
            Ty::Float => "float".into(),
            Ty::Str => "string".into(),
            Ty::Void => "()".into(),
            Ty::Any => "any".into(),
            Ty::Never => "!".into(),
            Ty::Arr(e) => {
                if **e == Ty::Never {
                    "[]".into()
                } else {
                    format!("[{}]", e.print_with(arrange))
                }
            }
            Ty::Tup(ts) => format!(
                "({})",
                ts.iter().map(|t| t.print_with(arrange)).collect::<Vec<_>>().join(", ")
            ),
            Ty::Fn(ps, r) => {
                let r_s = r.print_with(arrange);
                let r_s = if matches!(**r, Ty::Union(_)) { format!("({r_s})") } else { r_s };
                format!(
                    "({})->{}",
                    ps.iter().map(|t| t.print_with(arrange)).collect::<Vec<_>>().join(", "),
                    r_s
                )
            }
            Ty::Mut(e) => {
                let s = e.print_with(arrange);
                if matches!(**e, Ty::Union(_)) {
                    format!("mut ({s})")
                } else {
                    format!("mut {s}")
                }
            }
            Ty::Struct(fs) => {
                let fields: Vec<String> =
                    fs.iter().map(|(k, v)| format!("{k}: {}", v.print_with(arrange))).collect();
                format!("struct{{{}}}", arrange(fields).join(", "))
            }
            Ty::Union(ms) => {
                let members: Vec<String> = ms.iter().map(|t| t.print_with(arrange)).collect();
                arrange(members).join("|")
            }
        }
    }

    pub fn is_union(&self) -> bool {
        matches!(self, Ty::Union(_))
    }

    pub fn depth(&self) -> usize {
        match self {
            Ty::Arr(e) | Ty::Mut(e) => 1 + e.depth(),
            Ty::Tup(ts) => 1 + ts.iter().map(Ty::depth).max().unwrap_or(0),
            Ty::Fn(ps, r) => 1 + ps.iter().map(Ty::depth).max().unwrap_or(0).max(r.depth()),
            Ty::Struct(fs) => 1 + fs.values().map(Ty::depth).max().unwrap_or(0),
            Ty::Union(ms) => ms.iter().map(Ty::depth).max().unwrap_or(0),
            _ => 0,
        }
    }

    pub fn to_impl(&self) -> Type {
        self.print().parse::<Type>().unwrap_or_else(|_| panic!("harness type does not parse: {}", self.print()))
    }
}

/// Reference subtype relation, written from the property statement (C10): `!` least,
/// `any` greatest, arrays / tuples / struct fields covariant (structs also by
/// width), parameters contravariant, results covariant, cells invariant, a union is
/// below exactly what all its members are below, and above what is below one member.
pub fn sub(a: &Ty, b: &Ty) -> bool {
    match (a, b) {
        (Ty::Never, _) => true,
        (Ty::Union(ms), _) => ms.iter().all(|m| sub(m, b)),
        (_, Ty::Any) => true,
        (_, Ty::Union(ms)) => ms.iter().any(|m| sub(a, m)),
        (Ty::Arr(x), Ty::Arr(y)) => sub(x, y),
        (Ty::Tup(xs), Ty::Tup(ys)) => xs.len() == ys.len() && xs.iter().zip(ys).all(|(x, y)| sub(x, y)),
        (Ty::Fn(p1, r1), Ty::Fn(p2, r2)) => {
            p1.len() == p2.len() && p1.iter().zip(p2).all(|(x, y)| sub(y, x)) && sub(r1, r2)
        }
        (Ty::Struct(f1), Ty::Struct(f2)) => f2.iter().all(|(k, t2)| f1.get(k).is_some_and(|t1| sub(t1, t2))),
        (Ty::Mut(x), Ty::Mut(y)) => x == y,
        _ => a == b,
    }
}

/// Does the value `v` inhabit `t`, judged by its actual contents recursively.
pub fn belongs(v: &Variable, t: &Ty) -> bool {
    belongs_depth(v, t, 0)
}

fn belongs_depth(v: &Variable, t: &Ty, depth: usize) -> bool {
    if depth > 12 {
        return true; // cyclic cell graphs: stop unfolding
    }
    match t {
        Ty::Any => true,
        Ty::Never => false,
        Ty::Union(ms) => ms.iter().any(|m| belongs_depth(v, m, depth)),
        Ty::Bool => matches!(v, Variable::Bool(_)),
        Ty::Int => matches!(v, Variable::Int(_)),
        Ty::Float => matches!(v, Variable::Float(_)),
        Ty::Str => matches!(v, Variable::String(_)),
        Ty::Void => matches!(v, Variable::Void),
        Ty::Arr(e) => match v {
            Variable::Array(a) => a.iter().all(|x| belongs_depth(x, e, depth + 1)),
            _ => false,
        },
        Ty::Tup(ts) => match v {
            Variable::Tuple(xs) => {
                xs.len() == ts.len() && xs.iter().zip(ts).all(|(x, t)| belongs_depth(x, t, depth + 1))
            }
            _ => false,
        },
        Ty::Struct(fs) => match v {
            Variable::Struct(vm) => fs
                .iter()
                .all(|(k, t)| vm.get(k.as_str()).is_some_and(|x| belongs_depth(x, t, depth + 1))),
            _ => false,
        },
        Ty::Mut(c) => match v {
            Variable::Mut(m) => {
                let declared = Ty::from_impl(&m.var_type);
                if normal(&declared) != normal(c) {
                    return false;
                }
                let content = match m.variable.read() {
                    Ok(g) => g.clone(),
                    Err(_) => return false, // poisoned lock
                };
                belongs_depth(&content, &declared, depth + 1)
            }
            _ => false,
        },
        Ty::Fn(..) => match v {
            Variable::Function(f) => sub(&Ty::from_impl(&f.as_type()), t),
            _ => false,
        },
    }
}

/// Normal form used to compare cell content types structurally.
pub fn normal(t: &Ty) -> Ty {
    match t {
        Ty::Arr(e) => Ty::arr(normal(e)),
        Ty::Mut(e) => Ty::mutc(normal(e)),
        Ty::Tup(ts) => Ty::Tup(ts.iter().map(normal).collect()),
        Ty::Fn(ps, r) => Ty::Fn(ps.iter().map(normal).collect(), Box::new(normal(r))),
        Ty::Struct(fs) => Ty::Struct(fs.iter().map(|(k, v)| (k.clone(), normal(v))).collect()),
        Ty::Union(ms) => Ty::union(ms.iter().map(normal)),
        other => other.clone(),
    }
}

/// Every cell reachable from `v` holds a value of its declared type.
pub fn cells_well_typed(v: &Variable) -> bool {
    fn walk(v: &Variable, depth: usize) -> bool {
        if depth > 12 {
            return true;
        }
        match v {
            Variable::Array(a) => a.iter().all(|x| walk(x, depth + 1)),
            Variable::Tuple(xs) => xs.iter().all(|x| walk(x, depth + 1)),
            Variable::Struct(vm) => vm.values().all(|x| walk(x, depth + 1)),
            Variable::Mut(m) => {
                let Ok(content) = m.variable.read().map(|g| g.clone()) else {
                    return false;
                };
                belongs(&content, &Ty::from_impl(&m.var_type)) && walk(&content, depth + 1)
            }
            _ => true,
        }
    }
    walk(v, 0)
}
