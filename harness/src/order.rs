//! E4 — deviation-bounded exploration over the order oracle: every hash-collection
//! instance created during a run gets its iteration order from a choice vector.
use simplesl::verif;

/// Runs `f` with the given choice vector; returns its result and the sizes of the
/// instances the oracle was asked about (in order of first sight).
pub fn run_with<T>(choices: &[usize], f: &mut dyn FnMut() -> T) -> (T, Vec<usize>) {
    verif::oracle_install(choices.to_vec());
    let r = f();
    let seen = verif::oracle_take();
    (r, seen)
}

pub struct Exploration<T> {
    /// (choice vector, result)
    pub runs: Vec<(Vec<usize>, T)>,
    pub choice_points: usize,
    pub complete: bool,
}

/// Every assignment with at most `bound` non-canonical instances.
pub fn explore_bounded<T>(bound: usize, max_runs: usize, f: &mut dyn FnMut() -> T) -> Exploration<T> {
    let (r0, seen0) = run_with(&[], f);
    let mut runs = vec![(vec![], r0)];
    let mut complete = true;
    let choice_points = seen0.len();
    fn rec<T>(
        prefix: Vec<usize>,
        start: usize,
        left: usize,
        runs: &mut Vec<(Vec<usize>, T)>,
        max_runs: usize,
        complete: &mut bool,
        f: &mut dyn FnMut() -> T,
    ) {
        if left == 0 {
            return;
        }
        // the instance sequence under this prefix
        let (_, seen) = run_with(&prefix, f);
        for i in start..seen.len() {
            for alt in 1..verif::alternatives(seen[i]) {
                if runs.len() >= max_runs {
                    *complete = false;
                    return;
                }
                let mut c = prefix.clone();
                c.resize(i + 1, 0);
                c[i] = alt;
                let (r, _) = run_with(&c, f);
                runs.push((c.clone(), r));
                rec(c, i + 1, left - 1, runs, max_runs, complete, f);
            }
        }
    }
    rec(vec![], 0, bound, &mut runs, max_runs, &mut complete, f);
    Exploration { runs, choice_points, complete }
}

/// Every assignment of orders to instances (full product), capped at `max_runs`.
pub fn explore_all<T>(max_runs: usize, f: &mut dyn FnMut() -> T) -> Exploration<T> {
    explore_bounded(usize::MAX, max_runs, f)
}
