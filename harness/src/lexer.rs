//! A small SimpleSL tokenizer used to mutate corpus programs token-wise, and the
//! token alphabets of the C03 / C14 enumerations.

pub const MULTI_OPS: &[&str] = &[
    "**=", "<<=", ">>=", "$&&", "$||", ":=", "==", "!=", "<=", ">=", "&&", "||", "**", "<<", ">>", "+=", "-=",
    "*=", "/=", "%=", "&=", "|=", "^=", "=>", "->", "$+", "$*", "$&", "$|", "$]", "()",
];

pub fn lex(src: &str) -> Vec<String> {
    let cs: Vec<char> = src.chars().collect();
    let mut i = 0;
    let mut out = Vec::new();
    while i < cs.len() {
        let c = cs[i];
        if c.is_whitespace() {
            i += 1;
            continue;
        }
        if c == '/' && i + 1 < cs.len() && cs[i + 1] == '/' {
            while i < cs.len() && cs[i] != '\n' {
                i += 1;
            }
            continue;
        }
        if c == '/' && i + 1 < cs.len() && cs[i + 1] == '*' {
            i += 2;
            while i + 1 < cs.len() && !(cs[i] == '*' && cs[i + 1] == '/') {
                i += 1;
            }
            i = (i + 2).min(cs.len());
            continue;
        }
        if c == '"' {
            let start = i;
            i += 1;
            while i < cs.len() && cs[i] != '"' {
                if cs[i] == '\\' {
                    i += 1;
                }
                i += 1;
            }
            i = (i + 1).min(cs.len());
            out.push(cs[start..i].iter().collect());
            continue;
        }
        if c.is_ascii_digit() {
            let start = i;
            while i < cs.len()
                && (cs[i].is_ascii_alphanumeric()
                    || cs[i] == '_'
                    || (cs[i] == '.' && i + 1 < cs.len() && cs[i + 1].is_ascii_digit())
                    || ((cs[i] == '+' || cs[i] == '-') && (cs[i - 1] == 'e' || cs[i - 1] == 'E') && !cs[start..i].iter().collect::<String>().starts_with("0x")))
            {
                i += 1;
            }
            out.push(cs[start..i].iter().collect());
            continue;
        }
        if c.is_ascii_alphabetic() || c == '_' {
            let start = i;
            while i < cs.len() && (cs[i].is_ascii_alphanumeric() || cs[i] == '_') {
                i += 1;
            }
            out.push(cs[start..i].iter().collect());
            continue;
        }
        let rest: String = cs[i..(i + 3).min(cs.len())].iter().collect();
        if let Some(op) = MULTI_OPS.iter().find(|op| rest.starts_with(**op)) {
            out.push(op.to_string());
            i += op.chars().count();
            continue;
        }
        out.push(c.to_string());
        i += 1;
    }
    out
}

pub fn join(tokens: &[String]) -> String {
    tokens.join(" ")
}

/// Core alphabet: the tokens that make most short sequences reach the checker.
pub const CORE_TOKENS: &[&str] = &[
    "x", "f", "a", "m", "it", "0", "1.5", "\"s\"", "true", "()", "(", ")", "[", "]", "{", "}", ",", ";", ":=",
    ":", "+", "-", "*", "=", "==", "?", "$", "~", "$]", ".", "if", "return", "int",
];

/// Medium alphabet (thorough: every sequence of 5 tokens): one token per syntactic role.
pub const MEDIUM_TOKENS: &[&str] = &[
    "x", "f", "a", "m", "it", "s", "0", "1.5", "\"s\"", "true", "()", "(", ")", "[", "]", "{", "}", ",", ";", ":=", ":", "=>",
    "->", ".", "+", "-", "*", "**", "<", "==", "&&", "=", "+=", "@", "?", "\\", "$", "!", "$+", "$]", "~", "if", "else",
    "match", "return", "loop", "while", "for", "in", "break", "mut", "struct", "mod", "int", "any",
];

/// Full alphabet: every keyword, every operator spelling, brackets, punctuation,
/// one literal per kind, identifiers bound in the interpreter, type words.
pub const FULL_TOKENS: &[&str] = &[
    // identifiers (bound in the parse-time interpreter) and literals
    "x", "f", "a", "m", "it", "s", "0", "1", "1.5", "\"s\"", "true", "false", "()",
    // brackets and punctuation
    "(", ")", "[", "]", "{", "}", ",", ";", ":=", ":", "=>", "->", ".",
    // binary operators
    "+", "-", "*", "/", "%", "**", "<<", ">>", "&", "|", "^", "==", "!=", "<", "<=", ">", ">=", "&&", "||",
    "=", "+=", "-=", "*=", "/=", "%=", "**=", "<<=", ">>=", "&=", "|=", "^=", "@", "?", "\\", "$",
    // prefix / postfix
    "!", "$+", "$*", "$&&", "$||", "$&", "$|", "$]", "~",
    // keywords
    "if", "else", "match", "import", "return", "loop", "while", "for", "in", "break", "continue", "mut",
    "struct", "mod",
    // type words
    "int", "bool", "float", "string", "any",
];
