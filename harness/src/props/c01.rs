//! C01 (type soundness) and C02 (no run-time panics) share the opgrid engine.
use crate::opgrid;
use crate::report::Report;
use serde_json::json;

pub fn run(property: &str, tier: &str) -> i32 {
    let thorough = tier == "thorough";
    let mut report = Report::new(property, tier);
    let st = opgrid::run_grid(thorough);
    let opgrid::RunStats {
        programs, accepted, calls, host_rejected, values, exec_errors, exhausted, panics, nodes_judged,
        closure_calls, outcome_kinds, c01, c02, samples,
    } = st;
    if property == "C01" {
        report.violation_set(c01);
    } else {
        report.violation_set(c02);
    }
    let inconclusive_share = exhausted as f64 / (calls.max(1) as f64);
    let coverage = json!({
        "states": accepted,
        "transitions": calls + nodes_judged,
        "traces_validated_against_impl": calls,
        "programs_generated": programs,
        "programs_accepted": accepted,
        "host_calls": calls,
        "closure_calls": closure_calls,
        "host_rejected_argument_tuples": host_rejected,
        "completed_with_value": values,
        "documented_errors": exec_errors,
        "inconclusive_fuel_or_depth": exhausted,
        "inconclusive_share": inconclusive_share,
        "panics": panics,
        "instruction_results_judged_by_monitor": nodes_judged,
        "distinct_outcomes": outcome_kinds.len(),
        "outcome_histogram": outcome_kinds,
        "samples": samples,
        "exhaustive": true,
        "bounds": format!("constructs x {} palette types per operand slot x admitted palette values (rank <= {}), typed-parameter / literal / top-level forms, function-valued results called to depth 2", if thorough {32} else {15}, if thorough {2} else {1}),
        "rule": "a state is an accepted (construct, operand types) program; a transition is one monitored execution step",
    });
    let code = report.finish(
        "model_checking",
        coverage,
        &[
            "the monitor sees every value: values are produced only by Instruction::exec, Function::exec and native bodies",
            "placeholder-typed helper closures behind @ ? ~ are not judged internally; what they return to user code is",
            "function values are judged by their declared type (C10 validates the relation on function types)",
        ],
    );
    if inconclusive_share > 0.05 {
        eprintln!("MACHINERY ERROR: inconclusive share {inconclusive_share:.3} exceeds 5%");
        return 2;
    }
    code
}
