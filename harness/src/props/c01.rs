//! C01 (type soundness) and C02 (no run-time panics) share the opgrid engine.
use crate::core::{guard, Stop};
use crate::opgrid;
use crate::ty::{belongs, Ty};
use simplesl::variable::Variable;
use crate::report::{Report, Violation};
use serde_json::json;

/// Values returned by native functions inhabit the declared result type, judged by contents:
/// every exported function over the values its parameter types admit (the C18 sweep), and the
/// file-system functions over a path alphabet that reaches every kind of failure (missing,
/// directory, not UTF-8, NUL in the path, empty path, over-long name, a full device) - including
/// failures the operating system never sees and which therefore carry no OS error number.
fn native_results(property: &str, thorough: bool) -> (u64, Vec<Violation>) {
    let c01 = property == "C01";
    use crate::props::c18;
    use crate::ty::{belongs, Ty};
    use crate::val::canon_typed;
    use simplesl::variable::{Type, Typed, Variable};
    let ex = c18::exports();
    let (acc, _) = c18::sweep(&ex, thorough);
    let mut n = acc.calls;
    let mut out: Vec<Violation> = acc
        .violations
        .into_iter()
        .filter(|v| if c01 { v.sig.starts_with("C18|result-not-in-declared-type|") } else { v.sig.starts_with("C18|call-failed|") && v.sig.contains("|PANIC") })
        .map(|v| Violation { sig: v.sig.replacen("C18|", &format!("{property}|native-"), 1), detail: v.detail })
        .collect();
    let root = crate::report::verif_root().join("harness/target/scratch").join(format!("c01-fs-{}", std::process::id()));
    let setup = |root: &std::path::Path| {
        let _ = std::fs::remove_dir_all(root);
        let _ = std::fs::create_dir_all(root.join("dir"));
        let _ = std::fs::write(root.join("file.txt"), "text");
        let _ = std::fs::write(root.join("dir/inner.txt"), "inner");
        let _ = std::fs::write(root.join("bad_utf8"), [0xffu8, 0xfe, 0x00, 0xc3]);
    };
    let abs = |p: &str| root.join(p).to_string_lossy().to_string();
    let mut paths: Vec<(String, String)> = vec![
        ("missing".into(), abs("missing")),
        ("dir".into(), abs("dir")),
        ("file".into(), abs("file.txt")),
        ("file-not-utf8".into(), abs("bad_utf8")),
        ("under-a-file".into(), abs("file.txt/x")),
        ("nul-inside".into(), "a\u{0}b".into()),
        ("nul-inside-absolute".into(), abs("a\u{0}b")),
        ("empty".into(), String::new()),
        ("over-long-name".into(), abs(&"n".repeat(300))),
        ("new".into(), abs("new")),
    ];
    // a device that accepts no data: only ever as the target of a write or copy (reading it never ends)
    let full_device = std::path::Path::new("/dev/full").exists();
    for (path, f) in ex.iter().filter(|(p, _)| p.starts_with("std.fs.")) {
        let Variable::Function(f) = f else { continue };
        let Type::Function(ft) = f.as_type() else { continue };
        let rty = Ty::from_impl(&ft.return_type);
        let arity = ft.params.len();
        if arity == 0 || arity > 2 || !ft.params.iter().all(|p| Type::String.matches(p)) {
            continue;
        }
        // second parameter: a path (copy, rename) or contents (write): both alphabets
        let mut seconds: Vec<(String, String)> = paths.clone();
        let mut paths = paths.clone();
        if full_device && path.ends_with("write_to_file") {
            paths.push(("full-device".into(), "/dev/full".into()));
        }
        if full_device && path.ends_with("copy_file") {
            seconds.push(("full-device".into(), "/dev/full".into()));
        }
        // only write_to_file takes contents; for copy / rename a second string is a path and
        // would be created relative to the working directory
        if path.ends_with("write_to_file") {
            seconds.push(("contents".into(), "some contents".into()));
            seconds.push(("no-contents".into(), String::new()));
        }
        for (d1, p1) in &paths {
            let tuples: Vec<(String, Vec<String>)> = if arity == 1 {
                vec![(d1.clone(), vec![p1.clone()])]
            } else {
                seconds.iter().map(|(d2, p2)| (format!("{d1}, {d2}"), vec![p1.clone(), p2.clone()])).collect()
            };
            for (desc, args) in tuples {
                setup(&root);
                n += 1;
                let got = c18::call(f, args.iter().map(|a| Variable::from(a.clone())).collect());
                match got {
                    Ok(v) => {
                        if c01 && (!belongs(&v, &rty) || !v.as_type().matches(&ft.return_type)) {
                            out.push(Violation {
                                sig: format!("C01|native-result-not-in-declared-type|{path}|{desc}"),
                                detail: json!({"kind": "fs_call", "function": path, "argument_kinds": desc, "args": args.iter().map(|a| if a.len() > 80 { format!("{}…", &a[..60]) } else { a.clone() }).collect::<Vec<_>>(), "declared_result": rty.print(), "observed": canon_typed(&v), "observed_type": Ty::from_impl(&v.as_type()).print()}),
                            });
                        }
                    }
                    Err(e) if e == "exhausted" => {}
                    // a native function neither panics nor raises: failures are values of the declared type
                    Err(e) if c01 && e.starts_with("PANIC") => {}
                    Err(e) => out.push(Violation {
                        sig: format!("{property}|native-call-failed|{path}|{desc}|{}", e.chars().take(50).collect::<String>()),
                        detail: json!({"kind": "fs_call", "function": path, "argument_kinds": desc, "observed": e}),
                    }),
                }
            }
        }
    }
    let _ = std::fs::remove_dir_all(&root);
    (n, out)
}

/// Values built at run time from parts of related types (the C10 alphabet: every ordered pair of
/// parts under every aggregate-building form), then *narrowed by a run-time type test* to each
/// of a list of types and used as that type says (every element of an array taken part in an
/// operation of the element type): the test believes the value's run-time type, so a type that
/// does not describe the contents ends in an operation on the wrong kind of value. C02: no run
/// panics; C01: what the arm yields is in the arm's static result type.
fn built_values_under_type_tests(property: &str) -> (u64, Vec<Violation>) {
    use crate::core::par_fold;
    use crate::props::c10::{BUILT_FORMS, BUILT_PARTS};
    use simplesl::{Code, Interpreter};
    // (arm type, use of the bound name q, type of that use)
    const ARMS: &[(&str, &str, &str)] = &[
        ("[int]", "{ s := mut 0; for e in q~ { s += e * 2 }; *s }", "int"),
        ("[float]", "{ s := mut 0.0; for e in q~ { s += e / 2.0 }; *s }", "float"),
        ("[string]", "{ s := mut \"\"; for e in q~ { s += e + \"s\" }; *s }", "string"),
        ("[[int]]", "{ s := mut 0; for e in q~ { for w in e~ { s += w * 2 } }; *s }", "int"),
        ("[[float]]", "{ s := mut 0.0; for e in q~ { for w in e~ { s += w / 2.0 } }; *s }", "float"),
        ("[(int, int)]", "{ s := mut 0; for e in q~ { s += e.0 * e.1 }; *s }", "int"),
        ("[struct{a: int}]", "{ s := mut 0; for e in q~ { s += e.a * 2 }; *s }", "int"),
        ("[struct{a: int, b: float}]", "{ s := mut 0.0; for e in q~ { s += e.b / 2.0 }; *s }", "float"),
        ("[(int) -> int]", "{ s := mut 0; for e in q~ { s += e(1) * 2 }; *s }", "int"),
        ("[mut int]", "{ s := mut 0; for e in q~ { s += *e * 2 }; *s }", "int"),
        ("([int], int)", "{ s := mut 0; for e in q.0~ { s += e * 2 }; *s }", "int"),
        ("[([int], int)]", "{ s := mut 0; for e in q~ { for w in e.0~ { s += w * 2 } }; *s }", "int"),
        ("[()]", "std.len(q)", "int"),
    ];
    let n = BUILT_PARTS.len() * BUILT_PARTS.len() * BUILT_FORMS.len();
    let property = property.to_string();
    let accs = par_fold(
        n,
        || (Vec::<Violation>::new(), 0u64, Interpreter::with_stdlib()),
        |(out, count, interp), j| {
            let form = BUILT_FORMS[j % BUILT_FORMS.len()];
            let x = BUILT_PARTS[(j / BUILT_FORMS.len()) % BUILT_PARTS.len()];
            let y = BUILT_PARTS[j / BUILT_FORMS.len() / BUILT_PARTS.len()];
            let build = format!("f := (x: any, y: any) -> any {{ return {} }}; f({x}, {y})", form.replace('X', "x").replace('Y', "y"));
            // is there such a value at all?
            if !matches!(guard(|| Code::parse(interp, &build).map(|c| c.exec())), Ok(Ok(Ok(_)))) {
                return;
            }
            for (arm, usage, use_ty) in ARMS {
                let text = format!("{build}; v := f({x}, {y}); match v {{ q: {arm} => {usage}, => (), }}");
                *count += 1;
                let case = json!({"kind": "program", "stdlib": true, "text": text});
                match guard(|| Code::parse(interp, &text).map(|c| c.exec())) {
                    Ok(Ok(Ok(v))) => {
                        if property == "C01" && !matches!(v, Variable::Void) && !belongs(&v, &Ty::from_impl(&use_ty.parse::<simplesl::variable::Type>().unwrap())) {
                            out.push(Violation { sig: format!("C01|built-value-under-type-test|arm={}|{form}", arm.replace('|', "/")), detail: json!({"case": case, "expected_type_of_the_result": use_ty, "value": crate::val::canon_typed(&v)}) });
                        }
                    }
                    Ok(_) => {}
                    Err(Stop::Panic(p)) => {
                        if property == "C02" {
                            out.push(Violation { sig: format!("C02|panic|built-value-under-type-test|arm={}|{form}|{}|{}", arm.replace('|', "/"), p.file(), p.short_msg()), detail: json!({"case": case, "panic": p.msg, "at": p.loc}) });
                        }
                    }
                    Err(Stop::Exhausted) => {}
                }
            }
        },
    );
    let mut out = Vec::new();
    let mut count = 0;
    for (v, k, _) in accs {
        out.extend(v);
        count += k;
    }
    (count, out)
}

pub fn run(property: &str, tier: &str) -> i32 {
    let thorough = tier == "thorough";
    let mut report = Report::new(property, tier);
    let st = opgrid::run_grid(thorough);
    let opgrid::RunStats {
        programs, accepted, calls, host_rejected, values, exec_errors, exhausted, panics, nodes_judged,
        closure_calls, outcome_kinds, c01, c02, samples,
    } = st;
    let mut native_calls = 0u64;
    if property == "C01" {
        report.violation_set(c01);
    } else {
        report.violation_set(c02);
    }
    {
        let property = property.to_string();
        let (n, v) = crate::core::on_big_stack(move || native_results(&property, thorough));
        native_calls = n;
        report.violations(v);
    }
    let built = {
        let property = property.to_string();
        crate::core::on_big_stack(move || built_values_under_type_tests(&property))
    };
    report.violations(built.1);
    let inconclusive_share = exhausted as f64 / (calls.max(1) as f64);
    let coverage = json!({
        "states": accepted,
        "transitions": calls + nodes_judged,
        "traces_validated_against_impl": calls,
        "programs_generated": programs,
        "programs_accepted": accepted,
        "host_calls": calls,
        "closure_calls": closure_calls,
        "native_function_calls_judged (stdlib sweep + file-system functions over the failure path alphabet: results inhabit the declared type (C01), no call panics (C02))": native_calls,
        "built_values_under_type_tests (19 x 19 parts x 15 aggregate forms x 13 type arms with a typed use of every element)": built.0,
        "host_rejected_argument_tuples": host_rejected,
        "completed_with_value": values,
        "documented_errors": exec_errors,
        "inconclusive_fuel_or_depth": exhausted,
        "inconclusive_share": inconclusive_share,
        "panics": panics,
        "instruction_results_judged_by_monitor": nodes_judged,
        "distinct_outcomes": outcome_kinds.len(),
        "outcome_histogram": outcome_kinds,
        "samples": samples,
        "exhaustive": true,
        "bounds": format!("constructs x {} palette types per operand slot x admitted palette values (rank <= {}), typed-parameter / literal / top-level forms, function-valued results called to depth 2", if thorough {32} else {15}, if thorough {2} else {1}),
        "rule": "a state is an accepted (construct, operand types) program; a transition is one monitored execution step",
    });
    let code = report.finish(
        "model_checking",
        coverage,
        &[
            "the monitor sees every value: values are produced only by Instruction::exec, Function::exec and native bodies",
            "placeholder-typed helper closures behind @ ? ~ are not judged internally; what they return to user code is",
            "function values are judged by their declared type (C10 validates the relation on function types)",
        ],
    );
    if inconclusive_share > 0.05 {
        eprintln!("MACHINERY ERROR: inconclusive share {inconclusive_share:.3} exceeds 5%");
        return 2;
    }
    code
}
