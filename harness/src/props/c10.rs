//! C10 — the subtype relation obeys its laws and is sound for values (E3):
//! all pairs / triples of a type universe closed under every constructor.
use crate::core::{guard, par_fold, Stop};
use crate::palette::{Values, RECIPES};
use crate::report::{Report, Samples, Violation};
use crate::ty::{belongs, normal, Ty};
use crate::universe::{self, build};
use serde_json::json;
use simplesl::variable::{Type, Typed};
use std::collections::HashSet;

fn p(t: &Ty) -> String {
    t.print().replace('|', "/")
}

fn law_violation(law: &str, tys: &[&Ty], extra: &str) -> Violation {
    let names: Vec<String> = tys.iter().map(|t| t.print()).collect();
    Violation {
        sig: format!("C10|{law}|{}{}", tys.iter().map(|t| p(t)).collect::<Vec<_>>().join(" ; "), if extra.is_empty() { String::new() } else { format!("|{extra}") }),
        detail: json!({"kind": "type_law", "law": law, "types": names, "note": extra}),
    }
}

/// Membership as the language itself decides it (`if q: T = v`, a `match` type arm, `? T`): for
/// every palette value v, every type T of the depth-1 universe (+ struct / function material) and
/// several static types S of the tested expression (any, v's own type, T when v is in it, unions
/// with an unrelated member) the three routes answer what `as_type(v).matches(T)` answers - so
/// the relation the checker reasons with is the one the run-time tests implement, whatever the
/// checker knows about the tested expression.
pub fn language_membership() -> (u64, Vec<Violation>) {
    use simplesl::variable::Variable;
    use simplesl::{Code, Interpreter};
    let mut tys: Vec<Ty> = universe::u1();
    tys.extend(universe::function_unions().into_iter().take(40));
    tys.push(Ty::strukt(&[]));
    tys.push(Ty::strukt(&[("a", Ty::Int)]));
    tys.push(Ty::strukt(&[("a", Ty::Int), ("b", Ty::Str)]));
    tys.push(Ty::union([Ty::strukt(&[]), Ty::Int]));
    tys.push(Ty::arr(Ty::strukt(&[])));
    let tys: Vec<Ty> = { let mut seen = HashSet::new(); tys.into_iter().filter(|t| seen.insert(normal(t).print())).collect() };
    let n_recipes = RECIPES.len();
    let accs = par_fold(
        n_recipes,
        || (Vec::<Violation>::new(), 0u64, Values::new(), Interpreter::with_stdlib()),
        |(out, n, values, interp), ri| {
            let Some(v) = values.make(ri) else { return };
            let own = Ty::from_impl(&v.as_type());
            let tag = v.as_type();
            for t in &tys {
                let want = tag.matches(&build(t));
                let mut statics: Vec<Ty> = vec![Ty::Any, own.clone(), Ty::union([own.clone(), Ty::Void])];
                if want {
                    statics.push(t.clone());
                    statics.push(Ty::union([t.clone(), Ty::Void]));
                }
                for st in statics {
                    let (s_txt, t_txt) = (st.print(), t.print());
                    for (route, text) in [
                        ("if-set", format!("f := (v: {s_txt}) -> any {{ if q: {t_txt} = v {{ return true }}; return false }}")),
                        ("match-type-arm", format!("f := (v: {s_txt}) -> any {{ return match v {{ q: {t_txt} => true, => false, }} }}")),
                        ("type-filter", format!("f := (v: {s_txt}) -> any {{ return std.len([v]~ ? {t_txt} $]) == 1 }}")),
                    ] {
                        let f = match guard(|| Code::parse(interp, &text).map(|c| c.exec())) {
                            Ok(Ok(Ok(Variable::Function(f)))) => f,
                            // a test the checker knows cannot succeed may be rejected
                            Ok(Err(_)) if !want => continue,
                            Ok(Err(_)) => continue,
                            _ => {
                                out.push(Violation { sig: format!("C10|language-membership|program-fails|{route}|{}", p(t)), detail: json!({"kind": "program", "stdlib": true, "text": text}) });
                                continue;
                            }
                        };
                        let Some(arg) = values.make(ri) else { continue };
                        *n += 1;
                        let got = match guard(|| f.clone().create_call(vec![arg]).map(|c| c.exec())) {
                            Ok(Ok(Ok(r))) => crate::val::canon(&r),
                            Ok(Ok(Err(e))) => format!("error:{}", crate::core::exec_error_kind(&e)),
                            Ok(Err(_)) => continue, // the host rejects the argument for S: not a membership question
                            Err(Stop::Panic(pn)) => format!("PANIC {} @{}", pn.short_msg(), pn.file()),
                            Err(Stop::Exhausted) => continue,
                        };
                        if got != want.to_string() {
                            out.push(Violation {
                                sig: format!("C10|language-membership|{route}|tested={}|static={}|value={}", p(t), p(&st), RECIPES[ri].src.chars().take(30).collect::<String>().replace('|', "/")),
                                detail: json!({"kind": "host_call", "program": text, "args": [RECIPES[ri].src], "expected (run-time type of the value matches the tested type)": want, "observed": got}),
                            });
                        }
                    }
                }
            }
        },
    );
    let mut out = Vec::new();
    let mut n = 0;
    for (v, k, _, _) in accs {
        out.extend(v);
        n += k;
    }
    (n, out)
}

pub const BUILT_PARTS: &[&str] = &[
    "1", "2.5", "\"a\"", "()", "[]", "[1]", "[2.5]", "[1, 2.5]", "[[]]", "[[1]]", "(1, 2)", "(1, 2.5)", "struct{ a := 1 }",
    "struct{ a := 1, b := 2.5 }", "struct{ a := 2.5 }", "mut 1", "(x: any) -> int { return 1 }", "(x: int) -> int { return 1 }",
    "(x: int) -> any { return 1 }",
];
pub const BUILT_FORMS: &[&str] = &[
    "[X, Y]", "[X] + [Y]", "[[X, Y]]", "[X, Y, X][0:2]", "[X; 1] + [Y; 1]", "[[X], [Y]]", "[(X, 1), (Y, 1)]", "([X, Y], 1)", "[X, Y, X]", "[Y] + [X, Y]",
    "X + Y", "[X] + [Y] + [X]", "[X + Y]", "(X + Y, 1)", "[X, X] + [Y, Y][1:]",
];

/// Values *built* from parts whose types are related (an empty array before a non-empty one, a
/// narrower struct / tuple / function before a wider one, and the other way round): every ordered
/// pair of a base set of parts, put together by every aggregate-building form, written as a
/// constant and computed at run time. The run-time type the implementation attaches to the
/// result must describe its contents, and whatever type of the universe that tag matches must
/// hold the value.
fn built_values(u2: &[Ty], tys: &[Type]) -> (u64, Vec<Violation>) {
    use simplesl::variable::Variable;
    use simplesl::{Code, Interpreter};
    const PARTS: &[&str] = BUILT_PARTS;
    const _OLD_PARTS: &[&str] = &[
        "1", "2.5", "\"a\"", "()", "[]", "[1]", "[2.5]", "[1, 2.5]", "[[]]", "[[1]]", "(1, 2)", "(1, 2.5)", "struct{ a := 1 }",
        "struct{ a := 1, b := 2.5 }", "struct{ a := 2.5 }", "mut 1", "(x: any) -> int { return 1 }", "(x: int) -> int { return 1 }",
        "(x: int) -> any { return 1 }",
    ];
    const FORMS: &[&str] = BUILT_FORMS;
    const _OLD_FORMS: &[&str] = &["[X, Y]", "[X] + [Y]", "[[X, Y]]", "[X, Y, X][0:2]", "[X; 1] + [Y; 1]", "[[X], [Y]]", "[(X, 1), (Y, 1)]", "([X, Y], 1)", "[X, Y, X]", "[Y] + [X, Y]"];
    let n = PARTS.len() * PARTS.len() * FORMS.len() * 2;
    let accs = par_fold(
        n,
        || (Vec::<Violation>::new(), 0u64, Interpreter::with_stdlib()),
        |(out, count, interp), j| {
            let run_time = j % 2 == 1;
            let form = FORMS[(j / 2) % FORMS.len()];
            let x = PARTS[(j / 2 / FORMS.len()) % PARTS.len()];
            let y = PARTS[j / 2 / FORMS.len() / PARTS.len()];
            let text = if run_time {
                format!("f := (x: any, y: any) -> any {{ return {} }}; f({x}, {y})", form.replace('X', "x").replace('Y', "y"))
            } else {
                form.replace('X', x).replace('Y', y)
            };
            let v: Variable = match guard(|| Code::parse(interp, &text).map(|c| c.exec())) {
                Ok(Ok(Ok(v))) => v,
                Ok(_) => return, // rejected (the form does not apply to these parts) or a run-time error
                Err(_) => {
                    out.push(Violation { sig: format!("C10|built-value|program-fails|{form}"), detail: json!({"kind": "program", "stdlib": true, "text": text}) });
                    return;
                }
            };
            *count += 1;
            let tag = v.as_type();
            let route = if run_time { "run-time" } else { "constant" };
            if !belongs(&v, &Ty::from_impl(&tag)) {
                out.push(Violation {
                    sig: format!("C10|built-value|tag-does-not-describe-contents|{form}|{route}|{} ; {}", x.chars().take(24).collect::<String>().replace('|', "/"), y.chars().take(24).collect::<String>().replace('|', "/")),
                    detail: json!({"kind": "program", "stdlib": true, "text": text, "run_time_type_of_result": tag.to_string(), "expected": "the run-time type of a value holds the value (every element of an array is in the element type)"}),
                });
                return;
            }
            for (i, t) in tys.iter().enumerate() {
                if tag.matches(t) && !belongs(&v, &u2[i]) {
                    out.push(Violation {
                        sig: format!("C10|built-value|tag-soundness|{form}|{route}|{}", p(&u2[i])),
                        detail: json!({"kind": "program", "stdlib": true, "text": text, "run_time_type_of_result": tag.to_string(), "matches": u2[i].print(), "expected": "a value whose run-time type matches T is a member of T"}),
                    });
                    break;
                }
            }
        },
    );
    let mut out = Vec::new();
    let mut count = 0;
    for (v, k, _) in accs {
        out.extend(v);
        count += k;
    }
    (count, out)
}

pub fn run(tier: &str) -> i32 {
    let thorough = tier == "thorough";
    let mut report = Report::new("C10", tier);
    let mut samples = Samples::new(8);
    let u1 = universe::u1();
    let u2 = universe::u2(thorough);
    let n = u2.len();
    let tys: Vec<Type> = u2.iter().map(build).collect();
    let mut evals: u64 = 0;

    // the matrix of the relation and of equality on U2 x U2 (every pair evaluated on the real code)
    let rows = par_fold(
        n,
        Vec::new,
        |acc: &mut Vec<(usize, Vec<bool>, Vec<bool>, Option<String>)>, i| {
            let r = guard(|| {
                let m: Vec<bool> = (0..n).map(|j| tys[i].matches(&tys[j])).collect();
                let e: Vec<bool> = (0..n).map(|j| tys[i] == tys[j]).collect();
                (m, e)
            });
            match r {
                Ok((m, e)) => acc.push((i, m, e, None)),
                Err(Stop::Panic(pn)) => acc.push((i, vec![false; n], vec![false; n], Some(format!("{} @{}", pn.short_msg(), pn.loc)))),
                Err(Stop::Exhausted) => acc.push((i, vec![false; n], vec![false; n], Some("exhausted".into()))),
            }
        },
    );
    let mut m = vec![Vec::new(); n];
    let mut eq = vec![Vec::new(); n];
    for chunk in rows {
        for (i, mi, ei, err) in chunk {
            if let Some(e) = err {
                report.violation(law_violation("matches-panics", &[&u2[i]], &e));
            }
            m[i] = mi;
            eq[i] = ei;
        }
    }
    evals += 2 * (n * n) as u64;

    // reflexivity, least, greatest, equality laws
    let never = Type::Never;
    let any = Type::Any;
    for i in 0..n {
        if !m[i][i] {
            report.violation(law_violation("reflexivity", &[&u2[i]], ""));
        }
        if !never.matches(&tys[i]) {
            report.violation(law_violation("never-is-least", &[&u2[i]], ""));
        }
        if !tys[i].matches(&any) {
            report.violation(law_violation("any-is-greatest", &[&u2[i]], ""));
        }
        evals += 2;
        for j in 0..n {
            let structurally_equal = normal(&u2[i]) == normal(&u2[j]);
            if eq[i][j] != eq[j][i] {
                report.violation(law_violation("equality-symmetric", &[&u2[i], &u2[j]], ""));
            }
            if eq[i][j] != structurally_equal {
                report.violation(law_violation("equality-is-structural", &[&u2[i], &u2[j]], &format!("==:{} structural:{}", eq[i][j], structurally_equal)));
            }
            if eq[i][j] && !(m[i][j] && m[j][i]) {
                report.violation(law_violation("equal-types-match-each-other", &[&u2[i], &u2[j]], ""));
            }
        }
    }
    // Hash consistent with Eq: an equal type built separately is found in a HashSet
    {
        let rebuilt: Vec<Type> = u2.iter().map(|t| t.to_impl()).collect();
        for i in 0..n {
            let mut set = HashSet::new();
            set.insert(tys[i].clone());
            if !(rebuilt[i] == tys[i]) {
                report.violation(law_violation("parsed-equals-built", &[&u2[i]], ""));
            } else if !set.contains(&rebuilt[i]) {
                report.violation(law_violation("hash-consistent-with-eq", &[&u2[i]], ""));
            }
            evals += 2;
        }
    }

    // transitivity over all triples of U2 (on the matrix), equality respected by matches
    let trans = par_fold(
        n,
        Vec::new,
        |acc: &mut Vec<(usize, usize, usize)>, i| {
            for j in 0..n {
                if !m[i][j] {
                    continue;
                }
                for k in 0..n {
                    if m[j][k] && !m[i][k] && acc.len() < 50 {
                        acc.push((i, j, k));
                    }
                }
            }
        },
    );
    for chunk in trans {
        for (i, j, k) in chunk {
            report.violation(law_violation("transitivity", &[&u2[i], &u2[j], &u2[k]], ""));
        }
    }
    let triples = (n as u64).pow(3);

    // variance laws for all pairs of the base set S
    let s: Vec<Ty> = if thorough { u2.iter().filter(|t| t.depth() <= 1).cloned().collect() } else { u1.clone() };
    let sn = s.len();
    let st: Vec<Type> = s.iter().map(build).collect();
    let var_viol = par_fold(
        sn * sn,
        || (Vec::new(), 0u64),
        |(acc, ev): &mut (Vec<Violation>, u64), idx| {
            let (i, j) = (idx / sn, idx % sn);
            let (a, b) = (&s[i], &s[j]);
            let le = st[i].matches(&st[j]);
            let same = st[i] == st[j];
            let mut expect = |law: &str, wa: Ty, wb: Ty, expected: bool| {
                *ev += 1;
                let got = build(&wa).matches(&build(&wb));
                if got != expected && acc.len() < 200 {
                    acc.push(law_violation(law, &[a, b], &format!("{} <= {} is {got}, expected {expected}", p(&wa), p(&wb))));
                }
            };
            expect("array-covariant", Ty::arr(a.clone()), Ty::arr(b.clone()), le);
            expect("tuple-covariant", Ty::Tup(vec![a.clone(), Ty::Int]), Ty::Tup(vec![b.clone(), Ty::Int]), le);
            expect("tuple-covariant-2nd", Ty::Tup(vec![Ty::Int, a.clone()]), Ty::Tup(vec![Ty::Int, b.clone()]), le);
            expect("struct-field-covariant", Ty::strukt(&[("a", a.clone())]), Ty::strukt(&[("a", b.clone())]), le);
            expect("struct-width", Ty::strukt(&[("a", a.clone()), ("z", Ty::Int)]), Ty::strukt(&[("a", b.clone())]), le);
            expect("struct-missing-field", Ty::strukt(&[("a", a.clone())]), Ty::strukt(&[("a", b.clone()), ("z", Ty::Int)]), false);
            expect("result-covariant", Ty::func(vec![], a.clone()), Ty::func(vec![], b.clone()), le);
            expect("parameter-contravariant", Ty::func(vec![b.clone()], Ty::Int), Ty::func(vec![a.clone()], Ty::Int), le);
            expect("arity", Ty::func(vec![a.clone()], Ty::Int), Ty::func(vec![a.clone(), b.clone()], Ty::Int), false);
            expect("mut-invariant", Ty::mutc(a.clone()), Ty::mutc(b.clone()), same);
        },
    );
    for (v, ev) in var_viol {
        evals += ev;
        report.violations(v);
    }

    // union and meet laws over all triples of U1
    let u1t: Vec<Type> = u1.iter().map(build).collect();
    let n1 = u1.len();
    let uni = par_fold(
        n1 * n1,
        || (Vec::new(), 0u64),
        |(acc, ev): &mut (Vec<Violation>, u64), idx| {
            let (i, j) = (idx / n1, idx % n1);
            let (a, b) = (&u1t[i], &u1t[j]);
            let r = guard(|| {
                let u = a.clone() | b.clone();
                let u_rev = b.clone() | a.clone();
                let mut out = Vec::new();
                if !a.matches(&u) || !b.matches(&u) {
                    out.push(law_violation("union-is-upper-bound", &[&u1[i], &u1[j]], ""));
                }
                if u != u_rev {
                    out.push(law_violation("concat-commutative", &[&u1[i], &u1[j]], ""));
                }
                if i == j && u != *a {
                    out.push(law_violation("concat-idempotent", &[&u1[i]], ""));
                }
                let meet = a.conjoin(b);
                if !meet.matches(a) || !meet.matches(b) {
                    out.push(law_violation("meet-is-lower-bound", &[&u1[i], &u1[j]], &format!("meet = {}", Ty::from_impl(&meet).print().replace('|', "/"))));
                }
                let mut ev = 6u64;
                for k in 0..n1 {
                    let c = &u1t[k];
                    ev += 3;
                    let lhs = u.matches(c);
                    let rhs = a.matches(c) && b.matches(c);
                    if lhs != rhs && out.len() < 20 {
                        out.push(law_violation("union-below-iff-members-below", &[&u1[i], &u1[j], &u1[k]], &format!("A|B<=C is {lhs}, A<=C and B<=C is {rhs}")));
                    }
                    // associativity
                    let left = u.clone() | c.clone();
                    let right = a.clone() | (b.clone() | c.clone());
                    if left != right && out.len() < 20 {
                        out.push(law_violation("concat-associative", &[&u1[i], &u1[j], &u1[k]], ""));
                    }
                }
                (out, ev)
            });
            match r {
                Ok((out, e)) => {
                    *ev += e;
                    if acc.len() < 400 {
                        acc.extend(out);
                    }
                }
                Err(Stop::Panic(pn)) => acc.push(law_violation("type-algebra-panics", &[&u1[i], &u1[j]], &format!("{} @{}", pn.short_msg(), pn.file()))),
                Err(Stop::Exhausted) => {}
            }
        },
    );
    for (v, ev) in uni {
        evals += ev;
        report.violations(v);
    }

    // value soundness on the semantic model [[T]] = { v in V : belongs(v, T) }
    let (val_viols, n_values, separated, thin) = crate::core::on_big_stack(|| {
        let mut values = Values::new();
        let vals: Vec<(usize, simplesl::variable::Variable)> =
            (0..RECIPES.len()).filter_map(|i| values.make(i).map(|v| (i, v))).collect();
        // bel[v][t]
        let bel: Vec<Vec<bool>> = vals.iter().map(|(_, v)| u2.iter().map(|t| belongs(v, t)).collect()).collect();
        let tag: Vec<Vec<bool>> = vals.iter().map(|(_, v)| { let tg = v.as_type(); tys.iter().map(|t| tg.matches(t)).collect() }).collect();
        let mut out = Vec::new();
        let mut separated = 0u64;
        for i in 0..n {
            for j in 0..n {
                let mut sep = false;
                for (vi, (ri, _)) in vals.iter().enumerate() {
                    if bel[vi][i] != bel[vi][j] {
                        sep = true;
                    }
                    if m[i][j] && bel[vi][i] && !bel[vi][j] && out.len() < 200 {
                        out.push(law_violation("value-soundness", &[&u2[i], &u2[j]], &format!("value {} belongs to the first but not the second", RECIPES[*ri].src)));
                    }
                }
                if sep {
                    separated += 1;
                }
            }
        }
        // a value whose run-time tag matches T has contents in T
        for (vi, (ri, _)) in vals.iter().enumerate() {
            for i in 0..n {
                if tag[vi][i] && !bel[vi][i] && out.len() < 300 {
                    out.push(law_violation("tag-soundness", &[&u2[i]], &format!("tag of {} matches the type but its contents do not belong to it", RECIPES[*ri].src)));
                }
            }
        }
        let thin = (0..n).filter(|&i| !bel.iter().any(|b| b[i])).count();
        (out, vals.len(), separated, thin)
    });
    report.violations(val_viols);
    evals += (n * n * n_values) as u64;
    let built = built_values(&u2, &tys);
    report.violations(built.1);
    evals += built.0 * n as u64;
    let lang = language_membership();
    report.violations(lang.1);
    evals += lang.0;

    samples.push(|| json!({"pair": [u2[n / 3].print(), u2[2 * n / 3].print()], "matches": m[n / 3][2 * n / 3]}));
    samples.push(|| json!({"triple_checked_for_transitivity": [u2[1].print(), u2[n / 2].print(), u2[n - 1].print()]}));
    samples.push(|| json!({"union_law": format!("({}) | ({}) <= C  iff both members <= C", u1[5].print(), u1[40].print())}));
    let related: usize = m.iter().map(|r| r.iter().filter(|x| **x).count()).sum();
    let coverage = json!({
        "states": n * n,
        "transitions": evals + triples,
        "traces_validated_against_impl": evals,
        "universe_depth1": n1,
        "universe_depth2": n,
        "variance_base_set": sn,
        "pairs_related": related,
        "triples_for_transitivity": triples,
        "palette_values": n_values,
        "language_membership_cases (if-set / match type arm / ? T on value x tested type x static type of the tested expression)": lang.0,
        "built_values (ordered pairs of 19 parts x 15 aggregate forms x constant / run-time, each against its own tag and every type of U2)": built.0,
        "type_pairs_separated_by_values": separated,
        "types_without_inhabitant_in_palette": thin,
        "distinct_outcomes": 2,
        "samples": samples.items,
        "exhaustive": true,
        "rule": "every pair of U2 is evaluated with the real Type::matches and ==; transitivity on all triples of U2; variance laws on all pairs of the base set under every constructor; union/meet/concat laws on all triples of U1; value soundness on the finite semantic model",
    });
    report.finish(
        "model_checking",
        coverage,
        &[
            "value soundness is judged on a finite value set: a thin set weakens the check but cannot raise a false alarm (an inclusion stays an inclusion on any subset)",
            "function values are in [[(P)->R]] iff their declared type is structurally below it",
        ],
    )
}
