//! C03 — parsing and checking is total: exhaustive input enumeration (E7) plus
//! the typed-operand grid in check-only mode (E1).
use crate::core::{self, guard, par_fold, Stop};
use crate::lexer::{self, CORE_TOKENS, FULL_TOKENS};
use crate::report::{Report, Samples, Violation};
use serde_json::json;
use simplesl::variable::{ReturnType, Type, Variable};
use simplesl::{Code, Interpreter};
use std::collections::BTreeMap;
use std::str::FromStr;

#[derive(Default)]
pub struct Stats {
    pub parses: u64,
    pub accepted: u64,
    pub inconclusive: u64,
    pub kinds: BTreeMap<String, u64>,
    pub violations: Vec<Violation>,
}

impl Stats {
    pub fn merge(&mut self, o: Stats) {
        self.parses += o.parses;
        self.accepted += o.accepted;
        self.inconclusive += o.inconclusive;
        for (k, v) in o.kinds {
            *self.kinds.entry(k).or_insert(0) += v;
        }
        self.violations.extend(o.violations);
    }
}

pub const ENV_SETUP: &str = r#"
x := 1;
f := (p: int) -> int { return p };
a := [1, 2];
m := mut 1;
it := [1, 2]~;
s := struct{ a := 1, b := "t" };
"#;

/// interpreter against which token sequences are parsed (x f a m it s are bound)
pub fn env_interpreter() -> Interpreter<'static> {
    let mut interp = Interpreter::with_stdlib();
    let code = Code::parse(&interp, ENV_SETUP).expect("env setup parses");
    code.exec_unscoped(&mut interp).expect("env setup runs");
    interp
}

fn panic_violation(entry: &str, phase: &str, p: &core::PanicInfo, text: &str, env: &str) -> Violation {
    Violation {
        sig: format!("C03|panic|{entry}:{phase}|{}|{}", p.file(), p.short_msg()),
        detail: json!({"kind": "parse", "entry": entry, "env": env, "text": text, "panic": p.msg, "at": p.loc}),
    }
}

/// Probes the three entry points with one text.
pub fn probe(text: &str, interp: &Interpreter, env: &str, all_entries: bool, st: &mut Stats) {
    st.parses += 1;
    match guard(|| Code::parse(interp, text)) {
        Ok(Ok(code)) => {
            st.accepted += 1;
            *st.kinds.entry("accepted".into()).or_insert(0) += 1;
            match guard(|| code.return_type()) {
                Ok(_) => {}
                Err(Stop::Exhausted) => st.inconclusive += 1,
                Err(Stop::Panic(p)) => st.violations.push(panic_violation("Code::parse", "return_type", &p, text, env)),
            }
        }
        Ok(Err(e)) => {
            *st.kinds.entry(core::error_kind(&e)).or_insert(0) += 1;
        }
        Err(Stop::Exhausted) => st.inconclusive += 1,
        Err(Stop::Panic(p)) => st.violations.push(panic_violation("Code::parse", "parse", &p, text, env)),
    }
    if all_entries {
        match guard(|| Variable::from_str(text)) {
            Ok(Ok(_)) => *st.kinds.entry("var_ok".into()).or_insert(0) += 1,
            Ok(Err(_)) => {}
            Err(Stop::Exhausted) => st.inconclusive += 1,
            Err(Stop::Panic(p)) => st.violations.push(panic_violation("Variable::from_str", "parse", &p, text, "")),
        }
        match guard(|| Type::from_str(text)) {
            Ok(Ok(_)) => *st.kinds.entry("type_ok".into()).or_insert(0) += 1,
            Ok(Err(_)) => {}
            Err(Stop::Exhausted) => st.inconclusive += 1,
            Err(Stop::Panic(p)) => st.violations.push(panic_violation("Type::from_str", "parse", &p, text, "")),
        }
    }
}

fn seq_text(alphabet: &[&str], len: usize, mut index: usize) -> String {
    let mut toks = Vec::with_capacity(len);
    for _ in 0..len {
        toks.push(alphabet[index % alphabet.len()]);
        index /= alphabet.len();
    }
    toks.reverse();
    toks.join(" ")
}

/// every token sequence of exactly `len` tokens over `alphabet`
fn token_sequences(alphabet: &'static [&'static str], len: usize, total: &mut Stats) -> u64 {
    let n = alphabet.len().pow(len as u32);
    let states = par_fold(
        n,
        || (Stats::default(), env_interpreter()),
        |(st, interp), i| {
            let text = seq_text(alphabet, len, i);
            probe(&text, interp, "env", true, st);
        },
    );
    for (s, _) in states {
        total.merge(s);
    }
    n as u64
}

const CHARS: &[char] = &[
    'a', 'x', 'e', 'E', '0', '1', '9', '_', ' ', '\n', '\t', '"', '\\', '\'', '(', ')', '[', ']', '{', '}', ',', ';', ':',
    '=', '.', '+', '-', '*', '/', '%', '<', '>', '&', '|', '^', '!', '?', '$', '~', '@', '#', '\u{0}', 'é', '😀',
    'b', 'o', 'n', 'u',
];

fn char_strings(max_len: usize, total: &mut Stats) -> u64 {
    let mut count = 0u64;
    for len in 0..=max_len {
        let n = CHARS.len().pow(len as u32);
        count += n as u64;
        let states = par_fold(
            n,
            || (Stats::default(), env_interpreter()),
            |(st, interp), mut i| {
                let mut s = String::new();
                for _ in 0..len {
                    s.push(CHARS[i % CHARS.len()]);
                    i /= CHARS.len();
                }
                probe(&s, interp, "env", true, st);
            },
        );
        for (s, _) in states {
            total.merge(s);
        }
    }
    count
}

/// Lexical level, string literals: every literal body up to 3 characters over an alphabet of
/// escape-sequence material, in every syntactic position that reads a string literal in its own
/// way (expression, import path, match arm value, inside a function body, operand of an operator)
fn string_literal_contexts(total: &mut Stats) -> u64 {
    const BODY: &[&str] = &["a", "\\", "q", "n", "u", "{", "}", "0", "1", "x", "\u{0}", "é", "'", " "];
    const CONTEXTS: &[&str] = &[
        "\"BODY\"",
        "import \"BODY\"",
        "m := import \"BODY\"; m",
        "f := () -> any { return import \"BODY\" }",
        "match \"a\" { (\"BODY\") => 1, => 0, }",
        "\"BODY\"[0]",
        "\"BODY\" + \"BODY\"",
        "std.len(\"BODY\")",
        "s := struct{ a := \"BODY\" }; s.a",
    ];
    let mut bodies: Vec<String> = vec![String::new()];
    let mut last: Vec<String> = vec![String::new()];
    for _ in 0..3 {
        let mut next = Vec::new();
        for b in &last {
            for c in BODY {
                next.push(format!("{b}{c}"));
            }
        }
        bodies.extend(next.iter().cloned());
        last = next;
    }
    let n = bodies.len() * CONTEXTS.len();
    let states = par_fold(
        n,
        || (Stats::default(), env_interpreter()),
        |(st, interp), i| {
            let text = CONTEXTS[i % CONTEXTS.len()].replace("BODY", &bodies[i / CONTEXTS.len()]);
            probe(&text, interp, "env", false, st);
        },
    );
    for (s, _) in states {
        total.merge(s);
    }
    n as u64
}

/// Constants whose *static* type is a union wider than their value (`if true a else b` written
/// without braces folds to the value of the taken branch, typed by both): every operator over two
/// such constants of the same union type, holding members of the same kind and of different kinds.
/// The checker decides on the types, the folder then works on the values.
fn union_typed_constants(total: &mut Stats) -> u64 {
    const KINDS: &[(&str, &str, &str)] = &[
        ("bool", "true", "false"),
        ("int", "1", "0"),
        ("float", "1.5", "0.0"),
        ("string", "\"a\"", "\"\""),
        ("[int]", "[1]", "[]"),
        ("()", "()", "()"),
    ];
    const CONTEXTS: &[&str] = &[
        "K0; K1; k0 OP k1",
        "K0; K1; f := () -> any { return k0 OP k1 }; f()",
        "K0; K1; f := (c: bool) -> any { if c { return k0 OP k1 }; return 0 }; f(false)",
        "K0; K1; c := mut UNION VAL0; c OP= k1",
        "K0; K1; [k0 OP k1]",
        "K0; K1; if k0 OP k1 { 1 } else { 2 }",
    ];
    const OPS: &[&str] = &["+", "-", "*", "/", "%", "**", "<<", ">>", "&", "|", "^", "==", "!=", "<", "<=", ">", ">=", "&&", "||"];
    const UNARY: &[&str] = &["K0; -k0", "K0; !k0", "K0; f := () -> any { return -k0 }; f()", "K0; f := () -> any { return !k0 }; f()", "K0; K1; k0[k1]", "K0; K1; k0[k1:]", "K0; K1; [k0; k1]", "K0; k0~", "K0; k0 $+", "K0; *k0", "K0; k0()", "K0; k0.0", "K0; k0.a", "K0; for e in k0 { }", "K0; K1; while k0 { break }", "K0; K1; (k0, k1) := k0"];
    let mut texts: Vec<String> = Vec::new();
    for (ta, a1, a2) in KINDS {
        for (tb, b1, b2) in KINDS {
            if ta == tb {
                continue;
            }
            // k0 holds a member of kind A; k1 a member of kind B, or another member of kind A
            let k0 = format!("k0 := if true {a1} else {b1}");
            for k1 in [format!("k1 := if true {b2} else {a2}"), format!("k1 := if false {b2} else {a2}"), format!("k1 := if true {a2} else {b2}")] {
                for op in OPS {
                    for ctx in CONTEXTS {
                        texts.push(ctx.replace("K0", &k0).replace("K1", &k1).replace("UNION", &format!("{ta}|{tb}")).replace("VAL0", a1).replace("OP", op));
                    }
                }
                for ctx in UNARY {
                    texts.push(ctx.replace("K0", &k0).replace("K1", &k1));
                }
            }
        }
    }
    let n = texts.len();
    let states = par_fold(
        n,
        || (Stats::default(), Interpreter::with_stdlib()),
        |(st, interp), i| probe(&texts[i], interp, "std", false, st),
    );
    for (s, _) in states {
        total.merge(s);
    }
    n as u64
}

/// `match` with type arms over a scrutinee of union type, where the checker (coverage) and the
/// folder (pruning of arms) reason about how arm types and member types relate: every union of two
/// of 9 member types x every ordered pair of 12 arm types x with / without a default arm x the match
/// bound to a name / returned / as a statement, the scrutinee a parameter. Parse + check only.
fn match_type_arm_grid(total: &mut Stats) -> u64 {
    const MEMBERS: &[&str] = &["int", "string", "struct{w: int, h: int}", "struct{r: int, id: int}", "struct{w: int}", "(int, int)", "(int, int, int)", "[int]", "mut int"];
    const ARMS: &[&str] = &["int", "string", "struct{w: int}", "struct{r: int}", "struct{w: int, h: int}", "struct{}", "(int, int)", "(any, any)", "[int]", "[any]", "mut int", "int|string"];
    let mut texts: Vec<String> = Vec::new();
    for (i, m1) in MEMBERS.iter().enumerate() {
        for m2 in MEMBERS.iter().skip(i + 1) {
            for a1 in ARMS {
                for a2 in ARMS {
                    for default in ["", " => 0,"] {
                        let m = format!("match s {{ x: {a1} => 1, y: {a2} => 2,{default} }}");
                        texts.push(format!("g := (s: {m1} | {m2}) -> any {{ r := {m}; return r }}"));
                        texts.push(format!("g := (s: {m1} | {m2}) -> any {{ return {m} }}"));
                        texts.push(format!("g := (s: {m1} | {m2}) -> any {{ {m}; return 0 }}"));
                    }
                }
            }
        }
    }
    let n = texts.len();
    let states = par_fold(
        n,
        || (Stats::default(), Interpreter::with_stdlib()),
        |(st, interp), i| probe(&texts[i], interp, "std", false, st),
    );
    for (s, _) in states {
        total.merge(s);
    }
    n as u64
}

/// Lexical level, integer literals: 2^k - 1, 2^k, 2^k + 1 for k = 0..=65 (so every magnitude
/// around i64::MAX, u64::MAX and beyond) in the four radixes, plain and with digit separators,
/// in every position that reads an integer literal
fn int_literal_ladder(total: &mut Stats) -> u64 {
    const CONTEXTS: &[&str] = &["N", "-N", "x := N; x", "(1, 2).N", "f := () -> int { return N }", "1 << N", "[1, 2][N]", "[1, 2][N:]", "match 1 { N => 1, => 0, }"];
    let mut lits: Vec<String> = Vec::new();
    for k in 0..=65u32 {
        for d in [-1i8, 0, 1] {
            let v: u128 = ((1u128 << k) as i128 + d as i128) as u128;
            lits.push(format!("{v}"));
            lits.push(format!("0x{v:x}"));
            lits.push(format!("0X{v:X}"));
            lits.push(format!("0o{v:o}"));
            lits.push(format!("0b{v:b}"));
            let dec = format!("{v}");
            if dec.len() > 3 {
                lits.push(format!("{}_{}", &dec[..dec.len() - 3], &dec[dec.len() - 3..]));
            }
        }
    }
    lits.sort();
    lits.dedup();
    let n = lits.len() * CONTEXTS.len();
    let states = par_fold(
        n,
        || (Stats::default(), env_interpreter()),
        |(st, interp), i| {
            let text = CONTEXTS[i % CONTEXTS.len()].replace('N', &lits[i / CONTEXTS.len()]);
            probe(&text, interp, "env", true, st);
        },
    );
    for (s, _) in states {
        total.merge(s);
    }
    n as u64
}

/// programs exercising every documented construct; each must be accepted unmutated
pub const CONSTRUCT_CORPUS: &[&str] = &[
    "x := 5; y := 5.0; text := \"Hello\\n world\"; arr := [\"int\", 7.0, 4]; z := [0; 5]; t := (5, 7.8, \"value\"); { t := (4, \"rgg\", 56); t }; t",
    "delta := (a: float, b: float, c: float) -> float { return b**2.0+4.0*a*c }; delta(1.0, 2.0, 3.0)",
    "rec := (n: int) { if n > 0 { rec(n - 1) } }; rec(3)",
    "v := 5; match v { 5 => 1, => 0, }",
    "v := 5; match v { (4), (5) => 1, => 0, }",
    "v := 5; match v { 4, 5 => 1, 6 => 2, => 0, }",
    "g := (v: int | string | ()) -> int { return match v { i: int => i, s: string => std.len(s), => -1, } }; g(\"ab\")",
    "g := (v: int | float) -> int { if i: int = v { return i } else { return 0 } }; g(1.5)",
    "it := [1, 2, 3]~; while e: (bool, int) = it() { if !e.0 { break } }",
    "c := mut 0; loop { c += 1; if *c > 3 { break }; if *c == 2 { continue }; }; *c",
    "c := mut 0; while *c < 3 { c += 1 }; *c",
    "acc := mut 0; for e in [1, 2, 3]~ { if e == 2 { continue }; acc += e }; *acc",
    "m := mod { a := 1; f := () -> int { return 2 }; { hidden := 3 } }; (m.a, m.f())",
    "s := struct{ a := 1, b := \"x\" }; w := 3; t := struct{ w, q := s.a }; t.w + t.q",
    "(p, q) := (1, \"a\"); p",
    "it := [1, 2.5, \"3\"]~ ? int @ (v: int) -> int { return v * 2 }; (it $], [1, 2]~ $+, [1, 2]~ $*, [true]~ $&&, [false]~ $||, [6, 3]~ $&, [6, 3]~ $|)",
    "([1, 2, 3]~ \\ (v: int) -> bool { return v > 1 }, [1, 2]~ $ 0 (acc: int, v: int) -> int { return acc + v })",
    "arr := [1, 2, 3, 4]; (arr[0], arr[-1], arr[1:], arr[:2], arr[::2], arr[1:3:1], \"héllo\"[1], \"héllo\"[1:3])",
    "c := mut int | string 5; c = \"a\"; d := mut [int] []; d += [1]; (*c, *d)",
    "k := mut 8; k -= 1; k *= 2; k /= 2; k %= 5; k **= 2; k <<= 1; k >>= 1; k &= 7; k |= 8; k ^= 1; *k",
    "(1 + 2 * 3 ** 2 - 4 / 2 % 3 << 1 >> 1 & 7 | 8 ^ 1, 1 < 2, 1 <= 2, 1 > 2, 1 >= 2, 1 == 2, 1 != 2, true && false || true, !true, !5, -5, -5.5)",
    "f := (h: (int) -> int, v: int) -> int { return h(v) }; f((q: int) -> int { return q + 1 }, 1)",
    "iota := (start: int, end: int) -> () -> (bool, int) { i := mut start; return () -> (bool, int) { val := *i; if (val < end) { i += 1; return (true, val); } return (false, val); } }; iota(0, 3) $]",
    "import \"/verif/harness/corpus/lib.ssl\"",
    "lib := import \"/verif/harness/corpus/lib.ssl\"; lib.inc(lib.one)",
    "(0b1_01 + 0o17 + 0xfF + 1_000, 1e3 + 1.5E-3)",
    "// comment\n/* block */ std.io.print(\"x\" /* inline */)",
];

/// imports that must be *rejected* (not panic)
pub const BAD_IMPORTS: &[&str] = &[
    "import \"/verif/harness/corpus/does_not_exist.ssl\"",
    "import \"/verif/harness/corpus\"",
    "import \"/verif/harness/corpus/not_utf8.bin\"",
    "import \"/verif/harness/corpus/unparsable.ssl\"",
    "import \"/verif/harness/corpus/ill_typed.ssl\"",
    "import \"/verif/harness/corpus/fold_error.ssl\"",
    "import \"\"",
    "import \"a\\u{0}b\"",
];

/// programs whose constant subexpressions fail while being folded: must be errors
pub const FOLD_FAILURES: &[&str] = &[
    "1 / 0", "1 % 0", "1 << 64", "1 >> -1", "[1, 2][2]", "[1, 2][-3]", "\"ab\"[5]", "[1; -1]", "2 ** -1",
    "x := 1 / 0; 5", "f := () -> int { return 1 / 0 }; 5", "if true { 1 % 0 } else { 2 }", "[1 / 0, 2]", "(1, 1 << 64)",
    "struct{ a := 1 / 0 }", "y := 0; 1 / y", "y := 64; 1 << y", "y := [1]; y[1]", "g := (q: int) -> int { return q / 0 }; 1",
    "g := (q: int) -> int { return q << 70 }; 1", "g := (q: [int]) -> int { return [1, 2][5] }; 1",
    "while 1 / 0 == 1 { }", "match 1 / 0 { => 1, }", "mut 1 / 0", "[0; 1 / 0]", "[1, 2][1 / 0]", "-(1 / 0)", "!(1 % 0)",
    "true && 1 / 0 == 1", "false || 1 / 0 == 1", "(1 / 0, 2).0", "[1 / 0]~", "for e in [1 / 0]~ { }",
    "std.len([1 / 0])", "[1, 2][0:1 / 0]", "c := mut 1; c += 1 / 0", "c := mut 1; c /= 0", "c := mut 1; c <<= 64",
];

fn read_corpus_files() -> Vec<(String, String)> {
    let mut out = Vec::new();
    for dir in ["/repo/example_scripts"] {
        if let Ok(rd) = std::fs::read_dir(dir) {
            let mut paths: Vec<_> = rd.filter_map(|e| e.ok()).map(|e| e.path()).collect();
            paths.sort();
            for p in paths {
                if let Ok(s) = std::fs::read_to_string(&p) {
                    out.push((p.display().to_string(), s));
                }
            }
        }
    }
    // fenced code blocks of README and docs
    for path in [
        "/repo/README.md",
        "/repo/docs/statements.md",
        "/repo/docs/iterators.md",
        "/repo/docs/operators.md",
        "/repo/docs/stdlib.md",
    ] {
        if let Ok(s) = std::fs::read_to_string(path) {
            let mut in_block = false;
            let mut lang_ok = false;
            let mut cur = String::new();
            let mut k = 0;
            for line in s.lines() {
                if line.trim_start().starts_with("```") {
                    if in_block {
                        if lang_ok && !cur.trim().is_empty() {
                            out.push((format!("{path}#{k}"), cur.clone()));
                            k += 1;
                        }
                        cur.clear();
                        in_block = false;
                    } else {
                        in_block = true;
                        let lang = line.trim_start().trim_start_matches('`').trim();
                        lang_ok = lang.is_empty() || lang.eq_ignore_ascii_case("simplesl");
                    }
                } else if in_block {
                    cur.push_str(line);
                    cur.push('\n');
                }
            }
        }
    }
    out
}

/// every single-token deletion / duplication / substitution / adjacent swap
fn single_edits(tokens: &[String], alphabet: &[&str]) -> Vec<Vec<String>> {
    let mut out = Vec::new();
    for i in 0..tokens.len() {
        let mut d = tokens.to_vec();
        d.remove(i);
        out.push(d);
        let mut dup = tokens.to_vec();
        dup.insert(i, tokens[i].clone());
        out.push(dup);
        if i + 1 < tokens.len() {
            let mut sw = tokens.to_vec();
            sw.swap(i, i + 1);
            out.push(sw);
        }
        for a in alphabet {
            if *a != tokens[i] {
                let mut sub = tokens.to_vec();
                sub[i] = a.to_string();
                out.push(sub);
            }
        }
    }
    out
}

fn corpus_mutations(thorough: bool, total: &mut Stats, samples: &mut Samples) -> (u64, u64, u64) {
    let mut programs: Vec<(String, String)> = read_corpus_files();
    for (i, p) in CONSTRUCT_CORPUS.iter().enumerate() {
        programs.push((format!("construct#{i}"), p.to_string()));
    }
    let tokenised: Vec<(String, Vec<String>)> =
        programs.iter().map(|(n, s)| (n.clone(), lexer::lex(s))).collect();
    // sanity: how many re-joined programs are still accepted (non-vacuity of the corpus)
    let mut accepted_unmutated = 0u64;
    {
        let interp = Interpreter::with_stdlib();
        for (name, toks) in &tokenised {
            let text = lexer::join(toks);
            let mut st = Stats::default();
            probe(&text, &interp, "std", false, &mut st);
            if st.accepted == 1 {
                accepted_unmutated += 1;
            } else if name.starts_with("construct#") && st.violations.is_empty() {
                // a construct program that is rejected is reported in the evidence (not a violation of C03)
                samples.push(|| json!({"rejected_corpus_program": name, "outcome": st.kinds.keys().next()}));
            }
            total.merge(st);
        }
    }
    let mut mutants: Vec<String> = Vec::new();
    for (_, toks) in &tokenised {
        if toks.len() > 400 {
            continue;
        }
        for m in single_edits(toks, FULL_TOKENS) {
            mutants.push(lexer::join(&m));
        }
    }
    if thorough {
        // all pairs of edits (deletion/duplication/swap + substitution by the core alphabet) on the 10 shortest
        let mut short: Vec<&(String, Vec<String>)> = tokenised.iter().filter(|t| t.1.len() >= 4).collect();
        short.sort_by_key(|t| t.1.len());
        for (_, toks) in short.into_iter().take(10) {
            for m1 in single_edits(toks, CORE_TOKENS) {
                for m2 in single_edits(&m1, &[]) {
                    mutants.push(lexer::join(&m2));
                }
            }
        }
    }
    let n = mutants.len();
    samples.push(|| json!({"mutant": mutants[n / 2]}));
    let states = par_fold(
        n,
        || (Stats::default(), Interpreter::with_stdlib()),
        |(st, interp), i| probe(&mutants[i], interp, "std", false, st),
    );
    for (s, _) in states {
        total.merge(s);
    }
    (tokenised.len() as u64, accepted_unmutated, n as u64)
}

/// entries of FOLD_FAILURES whose failing operation is not evaluated when the program runs
const UNREACHED: &[&str] = &[
    "f := () -> int { return 1 / 0 }; 5",
    "g := (q: int) -> int { return q / 0 }; 1",
    "g := (q: int) -> int { return q << 70 }; 1",
    "g := (q: [int]) -> int { return [1, 2][5] }; 1",
];

fn fixed_lists(total: &mut Stats, report: &mut Report) -> u64 {
    let interp = Interpreter::with_stdlib();
    let mut n = 0;
    for text in BAD_IMPORTS.iter().chain(FOLD_FAILURES.iter()) {
        n += 1;
        let before = total.accepted;
        probe(text, &interp, "std", false, total);
        if total.accepted != before && BAD_IMPORTS.contains(text) {
            report.violation(Violation {
                sig: format!("C03|accepted-bad-import|{text}"),
                detail: json!({"kind": "parse", "env": "std", "text": text, "expected": "rejected"}),
            });
        }
    }
    // a failing constant operation must be *reported as an error*: accepted + run must not succeed
    for text in FOLD_FAILURES {
        let out = core::run_text(text, true, core::QUICK_FUEL);
        match out {
            core::Outcome::Value(_) if UNREACHED.contains(text) => {}
            core::Outcome::Value(_) => report.violation(Violation {
                sig: format!("C03|fold-failure-not-reported|{text}"),
                detail: json!({"kind": "program", "stdlib": true, "text": text, "expected": "error at parse or run time"}),
            }),
            core::Outcome::Panic(phase, p) => report.violation(Violation {
                sig: format!("C03|panic|fold:{phase}|{}|{}", p.file(), p.short_msg()),
                detail: json!({"kind": "program", "stdlib": true, "text": text, "panic": p.msg, "at": p.loc}),
            }),
            _ => {}
        }
    }
    n
}

pub fn run(tier: &str) -> i32 {
    let thorough = tier == "thorough";
    let mut report = Report::new("C03", tier);
    let mut total = Stats::default();
    let mut samples = Samples::new(12);
    let mut parts = serde_json::Map::new();

    // (a) token sequences
    let mut n_tok = 0u64;
    let full_max = if thorough { 4 } else { 3 };
    for len in 1..=full_max {
        n_tok += token_sequences(FULL_TOKENS, len, &mut total);
    }
    let core_len = if thorough { 5 } else { 4 };
    n_tok += token_sequences(CORE_TOKENS, core_len, &mut total);
    if thorough {
        n_tok += token_sequences(lexer::MEDIUM_TOKENS, 5, &mut total);
    }
    parts.insert(
        "token_sequences".into(),
        json!({"full_alphabet": FULL_TOKENS.len(), "full_max_len": full_max, "core_alphabet": CORE_TOKENS.len(), "core_len": core_len, "medium_alphabet_len5": if thorough { lexer::MEDIUM_TOKENS.len() } else { 0 }, "count": n_tok}),
    );
    samples.push(|| json!({"token_sequence": seq_text(FULL_TOKENS, 3, 12345)}));
    samples.push(|| json!({"token_sequence": seq_text(CORE_TOKENS, core_len, 777_777)}));

    // (b) short character strings
    let n_chars = char_strings(3, &mut total);
    parts.insert("char_strings".into(), json!({"alphabet": CHARS.len(), "max_len": 3, "count": n_chars}));

    // (b2) string literal bodies x positions
    let n_lit = string_literal_contexts(&mut total);
    parts.insert("string_literal_contexts".into(), json!({"body_alphabet": 14, "max_body_len": 3, "contexts": 9, "count": n_lit}));

    // (b3) integer literal magnitudes x radixes x positions
    let n_int = int_literal_ladder(&mut total);
    parts.insert("int_literal_ladder".into(), json!({"magnitudes": "2^k - 1, 2^k, 2^k + 1 for k = 0..=65", "radixes": 4, "contexts": 9, "count": n_int}));

    // (b4) constants of union static type under every operator
    let n_union = union_typed_constants(&mut total);
    parts.insert("union_typed_constants".into(), json!({"kinds": 6, "ordered_pairs": 30, "second_operand_variants": 3, "binary_operators": 19, "contexts": 6, "other_forms": 16, "count": n_union}));

    // (b5) match type arms against union scrutinees
    let n_match = match_type_arm_grid(&mut total);
    parts.insert("match_type_arm_grid".into(), json!(n_match));

    // (c) corpus mutations
    let (n_prog, n_ok, n_mut) = corpus_mutations(thorough, &mut total, &mut samples);
    parts.insert(
        "corpus".into(),
        json!({"programs": n_prog, "accepted_unmutated_after_retokenising": n_ok, "mutants": n_mut, "double_edits": thorough}),
    );

    // (e) failing constants + bad imports
    let n_fixed = fixed_lists(&mut total, &mut report);
    parts.insert("fold_failures_and_bad_imports".into(), json!(n_fixed));

    // (d) typed-operand grid, check only
    let grid = crate::opgrid::check_only(thorough);
    parts.insert("operand_grid".into(), json!({"programs": grid.programs, "accepted": grid.accepted}));
    total.parses += grid.programs;
    total.accepted += grid.accepted;
    for (k, v) in grid.kinds {
        *total.kinds.entry(k).or_insert(0) += v;
    }
    report.violations(grid.violations);
    for s in grid.samples {
        samples.push(|| s);
    }

    let Stats { parses, accepted, inconclusive, kinds, violations } = total;
    report.violations(violations);
    let distinct_outcomes = kinds.len();
    let coverage = json!({
        "states": parses,
        "transitions": parses,
        "traces_validated_against_impl": parses,
        "evaluations": parses,
        "distinct_nontrivial": accepted,
        "rule": "every input of each enumerated family is fed to the real Code::parse (+ return_type()), token/char families also to Variable::from_str and Type::from_str; non-trivial = accepted by parser and checker (reaches instruction construction, type computation and constant folding)",
        "accepted": accepted,
        "inconclusive": inconclusive,
        "distinct_outcomes": distinct_outcomes,
        "outcome_histogram": kinds,
        "families": parts,
        "samples": samples.items,
        "exhaustive": true,
        "bounds": format!("token sequences: every sequence of 1..={full_max} tokens over the full alphabet and of {core_len} tokens over the core alphabet; every string of <=3 chars; every single-token edit of the corpus{}; every construct x palette type assignment", if thorough {" and every pair of edits on the 10 shortest programs"} else {""}),
    });
    report.finish(
        "model_checking",
        coverage,
        &[
            "nesting depth of inputs is bounded by construction, so stack exhaustion is not a cause of failure",
            "panics are observed through catch_unwind; aborts would kill the checker and be reported as a machinery failure",
        ],
    )
}
