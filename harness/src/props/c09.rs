//! C09 — indexing, slicing and len agree for all sequences and indices
//! (Python-slice reference, both folded and run-time forms).
use crate::core::{self, guard, par_fold, Stop};
use crate::props::c08::int_lit;
use crate::report::{Report, Samples, Violation};
use crate::val::canon;
use serde_json::json;
use simplesl::function::Function;
use simplesl::variable::{ReturnType, Variable};
use simplesl::{Code, Interpreter};
use std::collections::BTreeSet;
use std::sync::Arc;

#[derive(Clone, Debug)]
enum Seq {
    Arr(Vec<&'static str>), // element literals
    Str(&'static str),
}

impl Seq {
    fn len(&self) -> usize {
        match self {
            Seq::Arr(v) => v.len(),
            Seq::Str(s) => s.chars().count(),
        }
    }
    fn lit(&self) -> String {
        match self {
            Seq::Arr(v) => format!("[{}]", v.join(", ")),
            Seq::Str(s) => format!("{s:?}"),
        }
    }
    /// canonical dump of the sequence restricted to the given element positions
    fn select(&self, idx: &[usize]) -> String {
        match self {
            Seq::Arr(v) => format!("[{}]", idx.iter().map(|&i| elem_canon(v[i])).collect::<Vec<_>>().join(", ")),
            Seq::Str(s) => {
                let cs: Vec<char> = s.chars().collect();
                format!("{:?}", idx.iter().map(|&i| cs[i]).collect::<String>())
            }
        }
    }
    fn at(&self, i: usize) -> String {
        match self {
            Seq::Arr(v) => elem_canon(v[i]),
            Seq::Str(s) => format!("{:?}", s.chars().nth(i).unwrap().to_string()),
        }
    }
}

fn elem_canon(lit: &str) -> String {
    // element literals are chosen so that their canonical dump is predictable
    match lit {
        "1.5" => "f1.5".into(),
        "[7]" => "[7]".into(),
        other => other.to_string(),
    }
}

fn sequences(thorough: bool) -> Vec<Seq> {
    let mut v = vec![
        Seq::Arr(vec![]),
        Seq::Arr(vec!["1"]),
        Seq::Arr(vec!["1", "2"]),
        Seq::Arr(vec!["1", "\"b\"", "1.5"]),
        Seq::Arr(vec!["true", "[7]", "()"]),
        Seq::Str(""),
        Seq::Str("a"),
        Seq::Str("ab"),
        Seq::Str("aé😀"),
    ];
    if thorough {
        v.push(Seq::Arr(vec!["1", "2", "3", "4"]));
        v.push(Seq::Arr(vec!["\"x\"", "2", "()", "1.5"]));
        v.push(Seq::Str("日本語x"));
        v.push(Seq::Str("abcde"));
    }
    v
}

fn index_set() -> Vec<i64> {
    let mut s: BTreeSet<i64> = (-6..=6).collect();
    for v in [i64::MIN, i64::MIN + 1, -(1i64 << 32), 1i64 << 32, i64::MAX - 1, i64::MAX] {
        s.insert(v);
    }
    s.into_iter().collect()
}

/// Python's slice.indices + range, in i128; step 0 selects nothing (property statement)
fn py_slice(n: usize, start: Option<i64>, stop: Option<i64>, step: Option<i64>) -> Vec<usize> {
    let n = n as i128;
    let step = step.unwrap_or(1) as i128;
    if step == 0 {
        return vec![];
    }
    let adjust = |v: i128, lower: i128, upper: i128| -> i128 {
        let mut v = v;
        if v < 0 {
            v += n;
            if v < lower {
                v = lower;
            }
        } else if v > upper {
            v = upper;
        }
        v
    };
    let (lower, upper) = if step < 0 { (-1i128, n - 1) } else { (0i128, n) };
    let s = match start {
        None => {
            if step < 0 {
                upper
            } else {
                lower
            }
        }
        Some(v) => adjust(v as i128, lower, upper),
    };
    let e = match stop {
        None => {
            if step < 0 {
                lower
            } else {
                upper
            }
        }
        Some(v) => adjust(v as i128, lower, upper),
    };
    let mut out = Vec::new();
    let mut i = s;
    if step > 0 {
        while i < e {
            out.push(i as usize);
            i += step;
        }
    } else {
        while i > e {
            out.push(i as usize);
            i += step;
        }
    }
    out
}

fn define(interp: &Interpreter, src: &str) -> Arc<Function> {
    match Code::parse(interp, src).map(|c| c.exec()) {
        Ok(Ok(Variable::Function(f))) => f,
        other => {
            eprintln!("MACHINERY ERROR: C09 function not accepted: {src}: {other:?}");
            std::process::exit(2);
        }
    }
}

fn observe(r: Result<Result<Variable, simplesl::ExecError>, Stop>) -> String {
    match r {
        Ok(Ok(v)) => canon(&v),
        Ok(Err(e)) => format!("error:{}", core::exec_error_kind(&e)),
        Err(Stop::Panic(p)) => format!("PANIC {} @{}", p.short_msg(), p.file()),
        Err(Stop::Exhausted) => "EXHAUSTED".into(),
    }
}

fn call(f: &Arc<Function>, args: Vec<Variable>) -> String {
    match f.clone().create_call(args) {
        Ok(code) => observe(guard(|| code.exec())),
        Err(e) => format!("HOST-REJECTED {}", core::error_kind(&e)),
    }
}

/// runs a literal program; returns (outcome, static type text)
fn literal(interp: &Interpreter, text: &str) -> (String, Option<String>) {
    match guard(|| Code::parse(interp, text)) {
        Ok(Ok(code)) => {
            let st = guard(|| code.return_type()).ok().map(|t| crate::ty::Ty::from_impl(&t).print());
            (observe(guard(|| code.exec())), st)
        }
        Ok(Err(e)) if core::is_exec_kind(&e) => (format!("error:{}", core::error_kind(&e)), None),
        Ok(Err(e)) => (format!("REJECTED {}", core::error_kind(&e)), None),
        Err(Stop::Panic(p)) => (format!("PANIC {} @{}", p.short_msg(), p.file()), None),
        Err(Stop::Exhausted) => ("EXHAUSTED".into(), None),
    }
}

const SHAPES: &[(&str, bool, bool, bool)] = &[
    ("[:]", false, false, false),
    ("[a:]", true, false, false),
    ("[:b]", false, true, false),
    ("[::c]", false, false, true),
    ("[a:b]", true, true, false),
    ("[a::c]", true, false, true),
    ("[:b:c]", false, true, true),
    ("[a:b:c]", true, true, true),
];

fn shape_text(subject: &str, a: Option<&str>, b: Option<&str>, c: Option<&str>, shape: &str) -> String {
    match shape {
        "[:]" => format!("{subject}[:]"),
        "[a:]" => format!("{subject}[{}:]", a.unwrap()),
        "[:b]" => format!("{subject}[:{}]", b.unwrap()),
        "[::c]" => format!("{subject}[::{}]", c.unwrap()),
        "[a:b]" => format!("{subject}[{}:{}]", a.unwrap(), b.unwrap()),
        "[a::c]" => format!("{subject}[{}::{}]", a.unwrap(), c.unwrap()),
        "[:b:c]" => format!("{subject}[:{}:{}]", b.unwrap(), c.unwrap()),
        "[a:b:c]" => format!("{subject}[{}:{}:{}]", a.unwrap(), b.unwrap(), c.unwrap()),
        _ => unreachable!(),
    }
}

fn idx_class(v: Option<i64>, n: usize) -> String {
    match v {
        None => "none".into(),
        Some(i64::MIN) => "MIN".into(),
        Some(x) if x < -(n as i64) - 1 => "<<-n".into(),
        Some(x) if x > n as i64 + 1 => ">>n".into(),
        Some(x) if x < 0 => "neg".into(),
        Some(0) => "0".into(),
        Some(_) => "pos".into(),
    }
}

#[derive(Default)]
struct Acc {
    evals: u64,
    states: u64,
    outcomes: BTreeSet<String>,
    violations: Vec<Violation>,
}

struct Fns {
    index: Arc<Function>,
    len: Arc<Function>,
    shapes: Vec<Arc<Function>>,
    slice_len: Arc<Function>,
    slice_at: Arc<Function>,
}

/// Strings of the same size one after the other: a string is indexed, measured and sliced, dropped,
/// and another string of the same byte length (other characters, another number of characters) is
/// made right after it - the allocator hands out the same buffer again (counted: `buffer_reused`) -
/// and indexed at every position. Every ordered pair of strings of equal byte length over a
/// 4-character alphabet with 1..4-byte characters (1..=3 characters, and the same repeated 6 times),
/// on one thread, host route (one function value per operation, the strings as arguments).
/// What an earlier string was must not show in what a later one answers
fn same_size_strings_in_turn() -> (u64, u64, Vec<Violation>) {
    let interp = Interpreter::with_stdlib();
    let index = define(&interp, "f := (s: string, i: int) -> any { return s[i] }");
    let len = define(&interp, "f := (s: string) -> any { return std.len(s) }");
    let rev = define(&interp, "f := (s: string) -> any { return (s[::-1], s[1:], s[-1:]) }");
    let walk = define(&interp, "f := (s: string) -> any { n := std.len(s); acc := mut [string] []; i := mut 0; while *i < n { acc += [s[*i]]; i += 1 }; return *acc }");
    let alphabet = ['a', 'é', '日', '😀'];
    let mut base: Vec<String> = Vec::new();
    for a in alphabet {
        base.push(a.to_string());
        for b in alphabet {
            base.push(format!("{a}{b}"));
            for c in alphabet {
                base.push(format!("{a}{b}{c}"));
            }
        }
    }
    let mut strings: Vec<String> = base.iter().filter(|s| !s.is_ascii()).cloned().collect();
    strings.extend(base.iter().filter(|s| !s.is_ascii() && s.chars().count() == 2).map(|s| s.repeat(6)));
    let mut n = 0u64;
    let mut reused = 0u64;
    let mut out: Vec<Violation> = Vec::new();
    let check = |s: &str, v: &Variable, after: &str, n: &mut u64, out: &mut Vec<Violation>| {
        let cs: Vec<char> = s.chars().collect();
        let k = cs.len() as i64;
        let mut bad: Vec<String> = Vec::new();
        for i in -k - 1..=k {
            let want = if i >= -k && i < k { format!("{:?}", cs[((i + k) % k) as usize].to_string()) } else { "error:IndexOutOfBounds".to_string() };
            let got = call(&index, vec![v.clone(), Variable::Int(i)]);
            *n += 1;
            if got != want {
                bad.push(format!("s[{i}] = {got}, expected {want}"));
            }
        }
        let got = call(&len, vec![v.clone()]);
        if got != k.to_string() {
            bad.push(format!("std.len(s) = {got}, expected {k}"));
        }
        let want = format!("({:?}, {:?}, {:?})", cs.iter().rev().collect::<String>(), cs[1..].iter().collect::<String>(), cs[cs.len() - 1..].iter().collect::<String>());
        let got = call(&rev, vec![v.clone()]);
        if got != want {
            bad.push(format!("(s[::-1], s[1:], s[-1:]) = {got}, expected {want}"));
        }
        let want = format!("[{}]", cs.iter().map(|c| format!("{:?}", c.to_string())).collect::<Vec<_>>().join(", "));
        let got = call(&walk, vec![v.clone()]);
        if got != want {
            bad.push(format!("walk by index = {got}, expected {want}"));
        }
        *n += 3;
        if !bad.is_empty() && out.len() < 200 {
            out.push(Violation {
                sig: format!("C09|string-answers-depend-on-an-earlier-string|bytes={}|chars={}", s.len(), cs.len()),
                detail: json!({"kind": "string_after_string", "string": s, "indexed_just_before_and_dropped": after, "disagreements": bad}),
            });
        }
    };
    for s1 in &strings {
        for s2 in &strings {
            if s1 == s2 || s1.len() != s2.len() {
                continue;
            }
            let v1 = Variable::String(Arc::from(s1.as_str()));
            let p1 = match &v1 { Variable::String(a) => a.as_ptr() as usize, _ => 0 };
            check(s1, &v1, "", &mut n, &mut out);
            // the allocator's free lists for this size are emptied first (buffers of the same size are
            // taken and kept), so that the buffer given back next is the one handed out next
            let hold: Vec<Arc<str>> = (0..2000).map(|_| Arc::from(s1.as_str())).collect();
            drop(v1);
            let v2 = Variable::String(Arc::from(s2.as_str()));
            let p2 = match &v2 { Variable::String(a) => a.as_ptr() as usize, _ => 0 };
            drop(hold);
            if p1 == p2 {
                reused += 1;
            }
            check(s2, &v2, s1, &mut n, &mut out);
        }
    }
    (n, reused, out)
}

pub fn run(tier: &str) -> i32 {
    let thorough = tier == "thorough";
    let mut report = Report::new("C09", tier);
    let seqs = sequences(thorough);
    let idx = index_set();
    let mut opt_idx: Vec<Option<i64>> = vec![None];
    opt_idx.extend(idx.iter().map(|&i| Some(i)));
    let mut samples = Samples::new(8);

    // job = (sequence, start option, stop option); steps looped inside
    let per_seq = opt_idx.len() * opt_idx.len();
    let n_jobs = seqs.len() * per_seq;
    let states = par_fold(
        n_jobs,
        || {
            let interp = Interpreter::with_stdlib();
            let fns = Fns {
                index: define(&interp, "f := (s: [any] | string, i: int) -> any { return s[i] }"),
                len: define(&interp, "f := (s: [any] | string) -> any { return std.len(s) }"),
                shapes: SHAPES
                    .iter()
                    .map(|(sh, ..)| {
                        define(&interp, &format!(
                            "f := (s: [any] | string, a: int, b: int, c: int) -> any {{ return {} }}",
                            shape_text("s", Some("a"), Some("b"), Some("c"), sh)
                        ))
                    })
                    .collect(),
                slice_len: define(&interp, "f := (s: [any] | string, a: int, b: int, c: int) -> any { return std.len(s[a:b:c]) }"),
                slice_at: define(&interp, "f := (s: [any] | string, a: int, b: int, c: int, j: int) -> any { return s[a:b:c][j] }"),
            };
            (interp, fns, Acc::default())
        },
        |(interp, fns, acc), job| {
            let seq = &seqs[job / per_seq];
            let start = opt_idx[(job % per_seq) / opt_idx.len()];
            let stop = opt_idx[job % opt_idx.len()];
            let n = seq.len();
            let subject_lit = seq.lit();
            let subject = literal(interp, &subject_lit);
            let subject_val = match guard(|| Code::parse(interp, &subject_lit).unwrap().exec().unwrap()) {
                Ok(v) => v,
                Err(_) => {
                    acc.violations.push(Violation {
                        sig: format!("C09|subject-literal-fails|{subject_lit}"),
                        detail: json!({"kind": "program", "stdlib": true, "text": subject_lit, "observed": subject.0}),
                    });
                    return;
                }
            };
            // indexing and len: once per sequence (when start = stop = None), all indices
            if start.is_none() && stop.is_none() {
                acc.states += 1;
                let got = call(&fns.len, vec![subject_val.clone()]);
                let (got_lit, _) = literal(interp, &format!("std.len({subject_lit})"));
                acc.evals += 2;
                for (form, g) in [("parameter", &got), ("literal", &got_lit)] {
                    if *g != format!("{n}") {
                        acc.violations.push(Violation {
                            sig: format!("C09|len|form={form}|seq={subject_lit}"),
                            detail: json!({"kind": "seq", "op": "std.len", "seq": subject_lit, "form": form, "expected": n, "observed": g}),
                        });
                    }
                }
                for &i in &idx {
                    acc.states += 1;
                    let ni = n as i128;
                    let expect = if (i as i128) >= -ni && (i as i128) < ni {
                        let k = if i < 0 { (ni + i as i128) as usize } else { i as usize };
                        seq.at(k)
                    } else {
                        "error:IndexOutOfBounds".to_string()
                    };
                    let got = call(&fns.index, vec![subject_val.clone(), i.into()]);
                    let (got_lit, _) = literal(interp, &format!("{subject_lit}[{}]", int_lit(i)));
                    // an array literal whose elements are not constants, indexed by a literal: the
                    // folder may only check the index against the number of elements
                    let got_ins = match seq {
                        Seq::Arr(v) if !v.is_empty() => {
                            let elems: Vec<String> = v.iter().map(|e| format!("idf({e})")).collect();
                            literal(interp, &format!("idf := (q: any) -> any {{ return q }}; [{}][{}]", elems.join(", "), int_lit(i))).0
                        }
                        _ => got_lit.clone(),
                    };
                    // mixed forms: a constant subject (written in place / bound outside and captured)
                    // with a run-time index, and a run-time subject with a literal index
                    let run_fn = |text: &str, arg: Variable| -> String {
                        match guard(|| Code::parse(interp, text).map(|c| c.exec())) {
                            Ok(Ok(Ok(Variable::Function(f)))) => call(&f, vec![arg]),
                            Ok(Err(e)) if core::is_exec_kind(&e) => format!("error:{}", core::error_kind(&e)),
                            Ok(Err(e)) => format!("REJECTED {}", core::error_kind(&e)),
                            Err(Stop::Panic(p)) => format!("PANIC {} @{}", p.short_msg(), p.file()),
                            _ => "DEFINE FAILED".into(),
                        }
                    };
                    let got_const_subject = run_fn(&format!("f := (i: int) -> any {{ return {subject_lit}[i] }}"), i.into());
                    let got_captured_subject = run_fn(&format!("k := {subject_lit}; f := (i: int) -> any {{ return k[i] }}"), i.into());
                    let got_literal_index = run_fn(&format!("f := (s: [any] | string) -> any {{ return s[{}] }}", int_lit(i)), subject_val.clone());
                    acc.evals += 6;
                    for (form, g) in [("parameter", &got), ("literal", &got_lit), ("array-of-calls", &got_ins), ("constant-subject-parameter-index", &got_const_subject), ("captured-subject-parameter-index", &got_captured_subject), ("parameter-subject-literal-index", &got_literal_index)] {
                        acc.outcomes.insert(g.chars().take(20).collect());
                        if *g != expect {
                            acc.violations.push(Violation {
                                sig: format!("C09|index|form={form}|n={n}|i={}|{}", idx_class(Some(i), n), if expect.starts_with("error") { "expected-error" } else { "expected-element" }),
                                detail: json!({"kind": "seq", "op": "index", "seq": subject_lit, "i": i, "form": form, "expected": expect, "observed": g}),
                            });
                        }
                    }
                }
            }
            // slices: all steps for this (start, stop)
            for &step in &opt_idx {
                for (si, (shape, ua, ub, uc)) in SHAPES.iter().enumerate() {
                    // a shape is exercised when exactly its bounds are present
                    if start.is_some() != *ua || stop.is_some() != *ub || step.is_some() != *uc {
                        continue;
                    }
                    acc.states += 1;
                    let sel = py_slice(n, start, stop, step);
                    let expect = seq.select(&sel);
                    let args = vec![
                        subject_val.clone(),
                        start.unwrap_or(0).into(),
                        stop.unwrap_or(0).into(),
                        step.unwrap_or(0).into(),
                    ];
                    let (la, lb, lc) = (start.map(int_lit), stop.map(int_lit), step.map(int_lit));
                    let text = shape_text(&subject_lit, la.as_deref(), lb.as_deref(), lc.as_deref(), shape);
                    // noted for the supervisor: should this case kill the process, it is found again
                    core::journal(|| json!({"kind": "program", "stdlib": true, "text": format!("f := (s: [any] | string, a: int, b: int, c: int) -> any {{ return {} }}; f({subject_lit}, {}, {}, {})", shape_text("s", Some("a"), Some("b"), Some("c"), shape), int_lit(start.unwrap_or(0)), int_lit(stop.unwrap_or(0)), int_lit(step.unwrap_or(0)))}).to_string());
                    let got = call(&fns.shapes[si], args.clone());
                    core::journal(|| json!({"kind": "program", "stdlib": true, "text": text}).to_string());
                    let (got_lit, st) = literal(interp, &text);
                    // run-time subject (static type: the union of both kinds), constant bounds
                    let mixed_text = format!("f := (s: [any] | string) -> any {{ return {} }}", shape_text("s", la.as_deref(), lb.as_deref(), lc.as_deref(), shape));
                    let got_mixed = match guard(|| Code::parse(interp, &mixed_text)) {
                        Ok(Ok(code)) => match guard(|| code.exec()) {
                            Ok(Ok(Variable::Function(g))) => call(&g, vec![subject_val.clone()]),
                            _ => "DEFINE FAILED".to_string(),
                        },
                        Ok(Err(e)) => format!("REJECTED {}", core::error_kind(&e)),
                        Err(Stop::Panic(p)) => format!("PANIC {} @{}", p.short_msg(), p.file()),
                        Err(Stop::Exhausted) => "EXHAUSTED".into(),
                    };
                    // every other split of (subject, the bounds that are present) into literals and
                    // run-time parameters: bit 0 = subject, bits 1..3 = start, stop, step run-time
                    let mut masked: Vec<(String, String)> = Vec::new();
                    let present = [true, start.is_some(), stop.is_some(), step.is_some()];
                    for mask in 1u8..15 {
                        if (0..4).any(|k| mask & (1 << k) != 0 && !present[k]) || mask == 1 {
                            continue; // a run-time bound that is absent; mask 1 is the form above
                        }
                        if (0..4).all(|k| !present[k] || mask & (1 << k) != 0) {
                            continue; // all run-time: the parameter form
                        }
                        let rt = |k: usize| mask & (1 << k) != 0;
                        let mut params = Vec::new();
                        let mut margs = Vec::new();
                        if rt(0) {
                            params.push("s: [any] | string".to_string());
                            margs.push(subject_val.clone());
                        }
                        for (k, (name, v)) in [("a", start), ("b", stop), ("c", step)].into_iter().enumerate() {
                            if rt(k + 1) {
                                params.push(format!("{name}: int"));
                                margs.push(v.unwrap().into());
                            }
                        }
                        let pick = |k: usize, name: &str, lit: &Option<String>| if rt(k) { Some(name.to_string()) } else { lit.clone() };
                        let (ta, tb, tc) = (pick(1, "a", &la), pick(2, "b", &lb), pick(3, "c", &lc));
                        let body = shape_text(if rt(0) { "s" } else { &subject_lit }, ta.as_deref(), tb.as_deref(), tc.as_deref(), shape);
                        let mtext = format!("f := ({}) -> any {{ return {body} }}", params.join(", "));
                        let g = match guard(|| Code::parse(interp, &mtext)) {
                            Ok(Ok(code)) => match guard(|| code.exec()) {
                                Ok(Ok(Variable::Function(g))) => call(&g, margs),
                                _ => "DEFINE FAILED".to_string(),
                            },
                            Ok(Err(e)) => format!("REJECTED {}", core::error_kind(&e)),
                            Err(Stop::Panic(p)) => format!("PANIC {} @{}", p.short_msg(), p.file()),
                            Err(Stop::Exhausted) => "EXHAUSTED".into(),
                        };
                        acc.evals += 1;
                        masked.push((format!("run-time-operands={mask:04b}"), g));
                    }
                    for (form, g) in &masked {
                        if *g != expect && g != "EXHAUSTED" {
                            acc.violations.push(Violation {
                                sig: format!("C09|slice{shape}|form={form}|kind={}|n={n}|step={}|{}", if matches!(seq, Seq::Str(_)) { "string" } else { "array" }, idx_class(step, n), if g.starts_with("PANIC") { "panic" } else { "wrong-selection" }),
                                detail: json!({"kind": "program", "stdlib": true, "text": text, "form": form, "which operands are run-time (bit 0 subject, 1 start, 2 stop, 3 step)": form, "expected": expect, "observed": g}),
                            });
                        }
                    }
                    acc.evals += 3;
                    for (form, g) in [("parameter", &got), ("literal", &got_lit), ("parameter-subject-literal-bounds", &got_mixed)] {
                        acc.outcomes.insert(g.chars().take(20).collect());
                        if *g != expect {
                            acc.violations.push(Violation {
                                sig: format!(
                                    "C09|slice{shape}|form={form}|kind={}|n={n}|start={}|stop={}|step={}|{}",
                                    if matches!(seq, Seq::Str(_)) { "string" } else { "array" },
                                    idx_class(start, n),
                                    idx_class(stop, n),
                                    idx_class(step, n),
                                    if g.starts_with("PANIC") { "panic" } else { "wrong-selection" }
                                ),
                                detail: json!({"kind": "program", "stdlib": true, "text": text, "form": form, "expected": expect, "observed": g}),
                            });
                        }
                    }
                    // same kind as the subject: static type of the literal program
                    if let Some(st) = st {
                        let ok = match seq {
                            Seq::Str(_) => st == "string",
                            Seq::Arr(_) => st.starts_with('['),
                        };
                        if !ok {
                            acc.violations.push(Violation {
                                sig: format!("C09|slice{shape}|static-kind|kind={}|static={}", if matches!(seq, Seq::Str(_)) { "string" } else { "array" }, st.replace('|', "/")),
                                detail: json!({"kind": "program", "stdlib": true, "text": text, "static_type": st}),
                            });
                        }
                    }
                    // mutual consistency: len(s[a:b:c]) and s[a:b:c][j] (full shape only)
                    if *shape == "[a:b:c]" {
                        let got_len = call(&fns.slice_len, args.clone());
                        acc.evals += 1;
                        if got_len != format!("{}", sel.len()) {
                            acc.violations.push(Violation {
                                sig: format!("C09|len-of-slice|n={n}|step={}", idx_class(step, n)),
                                detail: json!({"kind": "seq", "op": "std.len(s[a:b:c])", "seq": subject_lit, "a": start, "b": stop, "c": step, "expected": sel.len(), "observed": got_len}),
                            });
                        }
                        for j in [0i64, -1, sel.len() as i64] {
                            let mut a5 = args.clone();
                            a5.push(j.into());
                            let got_j = call(&fns.slice_at, a5);
                            acc.evals += 1;
                            let m = sel.len() as i64;
                            let expect_j = if j >= -m && j < m {
                                seq.at(sel[if j < 0 { (m + j) as usize } else { j as usize }])
                            } else {
                                "error:IndexOutOfBounds".to_string()
                            };
                            if got_j != expect_j {
                                acc.violations.push(Violation {
                                    sig: format!("C09|index-of-slice|n={n}|j={j}|step={}", idx_class(step, n)),
                                    detail: json!({"kind": "seq", "op": "s[a:b:c][j]", "seq": subject_lit, "a": start, "b": stop, "c": step, "j": j, "expected": expect_j, "observed": got_j}),
                                });
                            }
                        }
                    }
                }
            }
        },
    );
    let mut acc = Acc::default();
    for (_, _, a) in states {
        acc.evals += a.evals;
        acc.states += a.states;
        acc.outcomes.extend(a.outcomes);
        acc.violations.extend(a.violations);
    }
    samples.push(|| json!({"slice": "\"aé😀\"[-1:0:-2]", "expected": "\"😀\""}));
    samples.push(|| json!({"index": "[1, \"b\", 1.5][-3]", "expected": "1"}));
    samples.push(|| json!({"slice": format!("[1, 2][{}::{}]", int_lit(i64::MIN), int_lit(i64::MAX))}));
    let Acc { evals, states: n_states, outcomes, violations } = acc;
    report.violations(violations);
    let turn = core::on_big_stack(same_size_strings_in_turn);
    if turn.1 == 0 {
        eprintln!("NOTE: C09 same-size strings: the allocator never handed a dropped string's buffer to the next string (the family then only checks strings one after the other)");
    }
    report.violations(turn.2);
    let coverage = json!({
        "states": n_states,
        "transitions": evals,
        "traces_validated_against_impl": evals,
        "same_size_strings_in_turn_evaluations": turn.0,
        "same_size_strings_in_turn_pairs_in_which_the_buffer_was_reused": turn.1,
        "sequences": seqs.len(),
        "indices": idx.len(),
        "slice_bound_values_incl_none": opt_idx.len(),
        "distinct_outcomes": outcomes.len(),
        "samples": samples.items,
        "exhaustive": true,
        "rule": "a state is (sequence, index) or (sequence, start, stop, step); every state is executed folded (literal program) and at run time (host call with the values as arguments) and compared with a Python-slice reference computed in i128",
        "bounds": format!("sequences of length 0..={}, indices -6..=6 plus six extreme i64 values, every (start, stop, step) in (None + those)^3", if thorough { 5 } else { 3 }),
    });
    report.finish("model_checking", coverage, &["strings are counted in Unicode scalar values (chars)"])
}
