//! C14 — operator precedence and associativity follow the documented table.
//! The unparenthesised expression must behave exactly like the parenthesisation
//! prescribed by an independent 14-level table (docs/operators.md), for all
//! ordered pairs (thorough: triples) of binary operators, prefix and postfix forms,
//! over every assignment of operand kinds.
use crate::core::{self, guard, par_fold, Stop};
use crate::report::{Report, Samples, Violation};
use crate::val::canon;
use serde_json::json;
use simplesl::variable::Variable;
use simplesl::{verif, Code, Interpreter};
use std::collections::{BTreeMap, BTreeSet};

#[derive(Clone, Debug, PartialEq)]
enum Tok {
    Operand(String),
    Bin(String),
    Prefix(String),
    Postfix(String),
}

/// docs/operators.md: level of a binary operator (1 = tightest) and right-associativity
fn bin_level(op: &str) -> (u8, bool) {
    match op {
        "@" | "?" | "\\" => (3, false),
        o if o.starts_with('$') => (3, false), // `$ init`
        "**" => (4, false),
        "*" | "/" | "%" => (5, false),
        "+" | "-" => (6, false),
        "<<" | ">>" => (7, false),
        "&" => (8, false),
        "^" => (9, false),
        "|" => (10, false),
        "==" | "!=" | "<" | "<=" | ">" | ">=" => (11, false),
        "&&" => (12, false),
        "||" => (13, false),
        "=" | "+=" | "-=" | "*=" | "/=" | "%=" | "**=" | "&=" | "|=" | "^=" | "<<=" | ">>=" => (14, true),
        _ => unreachable!("{op}"),
    }
}

fn postfix_level(op: &str) -> u8 {
    match op {
        "$+" | "$*" | "$&&" | "$||" | "$&" | "$|" | "$]" | "~" => 3,
        _ => 1, // indexing, call, tuple/field access, ? type
    }
}

const PREFIX_LEVEL: u8 = 2;

struct Parser<'a> {
    toks: &'a [Tok],
    i: usize,
}

impl<'a> Parser<'a> {
    /// fully parenthesised text according to the documented table
    fn expr(&mut self, min_bp: u8) -> String {
        let mut lhs = match self.toks[self.i].clone() {
            Tok::Prefix(op) => {
                self.i += 1;
                let rhs = self.expr(15 - PREFIX_LEVEL);
                format!("({op}{rhs})")
            }
            Tok::Operand(s) => {
                self.i += 1;
                s
            }
            t => unreachable!("{t:?}"),
        };
        while self.i < self.toks.len() {
            match self.toks[self.i].clone() {
                Tok::Postfix(op) => {
                    let bp = 15 - postfix_level(&op);
                    if bp < min_bp {
                        break;
                    }
                    self.i += 1;
                    lhs = format!("({lhs}{op})");
                }
                Tok::Bin(op) => {
                    let (level, right) = bin_level(&op);
                    let bp = 15 - level;
                    let (l_bp, r_bp) = if right { (bp, bp) } else { (bp, bp + 1) };
                    if l_bp < min_bp {
                        break;
                    }
                    self.i += 1;
                    let mut rhs = self.expr(r_bp);
                    // `it $ init (f)` would be read as a call of init: the function operand of
                    // a reduction cannot be parenthesised; it only ever carries level-1 postfixes,
                    // which bind tighter than anything, so the parentheses are redundant
                    if op.starts_with('$') && rhs.starts_with('(') && rhs.ends_with(')') {
                        rhs = rhs[1..rhs.len() - 1].to_string();
                    }
                    lhs = format!("({lhs} {op} {rhs})");
                }
                t => unreachable!("{t:?}"),
            }
        }
        lhs
    }
}

// ---- absolute anchor: the value of an int / bool expression grouped by the table, computed
// with the reference operator semantics (C08's), so that a grouping error that affects the
// unparenthesised and the parenthesised text alike is still seen
#[derive(Clone, Debug)]
enum Node {
    Leaf(usize),
    Pre(String, Box<Node>),
    Bin(String, Box<Node>, Box<Node>),
}

#[derive(Clone, Debug, PartialEq)]
enum RV {
    I(i64),
    B(bool),
}

/// Err(Some(kind)) = fails with that documented error; Err(None) = outside the reference
/// (ill-typed or an operator it does not model)
type REval = Result<RV, Option<&'static str>>;

impl<'a> Parser<'a> {
    fn tree(&mut self, min_bp: u8, leaf: &mut usize) -> Option<Node> {
        let mut lhs = match self.toks[self.i].clone() {
            Tok::Prefix(op) => {
                self.i += 1;
                Node::Pre(op, Box::new(self.tree(15 - PREFIX_LEVEL, leaf)?))
            }
            Tok::Operand(_) => {
                self.i += 1;
                *leaf += 1;
                Node::Leaf(*leaf - 1)
            }
            _ => return None,
        };
        while self.i < self.toks.len() {
            match self.toks[self.i].clone() {
                Tok::Postfix(_) => return None,
                Tok::Bin(op) => {
                    let (level, right) = bin_level(&op);
                    let bp = 15 - level;
                    let (l_bp, r_bp) = if right { (bp, bp) } else { (bp, bp + 1) };
                    if l_bp < min_bp {
                        break;
                    }
                    self.i += 1;
                    let rhs = self.tree(r_bp, leaf)?;
                    lhs = Node::Bin(op, Box::new(lhs), Box::new(rhs));
                }
                _ => return None,
            }
        }
        Some(lhs)
    }
}

fn ref_eval(n: &Node, vals: &[RV]) -> REval {
    use crate::props::c08::{ref_int, Ref};
    match n {
        Node::Leaf(i) => Ok(vals[*i].clone()),
        Node::Pre(op, x) => match (op.as_str(), ref_eval(x, vals)?) {
            ("-", RV::I(v)) => Ok(RV::I(v.wrapping_neg())),
            ("!", RV::I(v)) => Ok(RV::I(!v)),
            ("!", RV::B(v)) => Ok(RV::B(!v)),
            _ => Err(None),
        },
        Node::Bin(op, l, r) => {
            let op = op.as_str();
            let lv = ref_eval(l, vals)?;
            // && and || decide on the left operand alone when they can
            if op == "&&" || op == "||" {
                let RV::B(a) = lv else { return Err(None) };
                if (op == "&&" && !a) || (op == "||" && a) {
                    return Ok(RV::B(a));
                }
                return match ref_eval(r, vals)? {
                    RV::B(b) => Ok(RV::B(b)),
                    _ => Err(None),
                };
            }
            let rv = ref_eval(r, vals)?;
            match (lv, rv) {
                (RV::I(a), RV::I(b)) if ["+", "-", "*", "/", "%", "**", "<<", ">>", "&", "|", "^", "==", "!=", "<", "<=", ">", ">="].contains(&op) => match ref_int(op, a, b) {
                    Ref::Val(s) => Ok(match s.as_str() {
                        "true" => RV::B(true),
                        "false" => RV::B(false),
                        v => RV::I(v.parse().unwrap()),
                    }),
                    Ref::Err(kind) => Err(Some(kind)),
                },
                (RV::B(a), RV::B(b)) => match op {
                    "&" => Ok(RV::B(a & b)),
                    "|" => Ok(RV::B(a | b)),
                    "^" => Ok(RV::B(a ^ b)),
                    "==" => Ok(RV::B(a == b)),
                    "!=" => Ok(RV::B(a != b)),
                    _ => Err(None),
                },
                _ => Err(None),
            }
        }
    }
}

/// static type of the tree over int (true) / bool (false) leaves, None when ill-typed
fn ref_type(n: &Node, is_int: &[bool]) -> Option<bool> {
    match n {
        Node::Leaf(i) => Some(is_int[*i]),
        Node::Pre(op, x) => match (op.as_str(), ref_type(x, is_int)?) {
            ("-", true) => Some(true),
            ("!", t) => Some(t),
            _ => None,
        },
        Node::Bin(op, l, r) => {
            let (lt, rt) = (ref_type(l, is_int)?, ref_type(r, is_int)?);
            match (op.as_str(), lt, rt) {
                ("+" | "-" | "*" | "/" | "%" | "**" | "<<" | ">>", true, true) => Some(true),
                ("&" | "|" | "^", a, b) if a == b => Some(a),
                ("<" | "<=" | ">" | ">=", true, true) => Some(false),
                ("==" | "!=", a, b) if a == b => Some(false),
                ("&&" | "||", false, false) => Some(false),
                _ => None,
            }
        }
    }
}

/// expected outcome of `toks` over int / bool operand kinds (primary values), if the reference covers it
fn reference_outcome(toks: &[Tok], ks: &[&OperandKind], alt: usize) -> Option<Sig> {
    let mut vals = Vec::new();
    for (i, k) in ks.iter().enumerate() {
        vals.push(match k.name {
            "int" => RV::I(alt_lit(k, i, alt).parse().ok()?),
            "bool" => RV::B(alt_lit(k, i, alt) == "true"),
            _ => return None,
        });
    }
    let mut p = Parser { toks, i: 0 };
    let mut leaf = 0;
    let tree = p.tree(0, &mut leaf)?;
    if p.i != toks.len() || leaf != ks.len() {
        return None;
    }
    let is_int: Vec<bool> = vals.iter().map(|v| matches!(v, RV::I(_))).collect();
    ref_type(&tree, &is_int)?;
    match ref_eval(&tree, &vals) {
        Ok(RV::I(v)) => Some(Sig::Value(format!("({v}, 0)"))),
        Ok(RV::B(v)) => Some(Sig::Value(format!("({v}, 0)"))),
        Err(Some(kind)) => Some(Sig::Error(kind.to_string())),
        Err(None) => None,
    }
}

fn flat(toks: &[Tok]) -> String {
    let mut s = String::new();
    for t in toks {
        match t {
            Tok::Operand(o) => s.push_str(o),
            Tok::Bin(o) => {
                s.push(' ');
                s.push_str(o);
                s.push(' ');
            }
            Tok::Prefix(o) => s.push_str(o),
            Tok::Postfix(o) => s.push_str(o),
        }
    }
    s
}

fn by_table(toks: &[Tok]) -> String {
    let mut p = Parser { toks, i: 0 };
    let r = p.expr(0);
    assert_eq!(p.i, toks.len());
    r
}

/// the other grouping of `a op1 b op2 c` (for the discrimination statistic)
fn groupings(a: &str, op1: &str, b: &str, op2: &str, c: &str) -> (String, String) {
    (format!("(({a} {op1} {b}) {op2} {c})"), format!("({a} {op1} ({b} {op2} {c}))"))
}

#[derive(Clone)]
struct OperandKind {
    name: &'static str,
    ty: &'static str,
    /// value per position (a, b, c, d) — distinct so that groupings differ
    lits: [&'static str; 4],
    is_cell: bool,
}

fn kinds(thorough: bool) -> Vec<OperandKind> {
    let mut v = vec![
        OperandKind { name: "int", ty: "int", lits: ["7", "3", "2", "5"], is_cell: false },
        OperandKind { name: "bool", ty: "bool", lits: ["true", "false", "true", "false"], is_cell: false },
        OperandKind { name: "mut int", ty: "mut int", lits: ["mut 7", "mut 3", "mut 2", "mut 5"], is_cell: true },
        OperandKind { name: "int iterator", ty: "() -> (bool, int)", lits: ["[7, 3]~", "[3, 1]~", "[2, 4]~", "[5]~"], is_cell: false },
        OperandKind { name: "(int)->int", ty: "(int) -> int", lits: ["(v: int) -> int { return v * 7 }", "(v: int) -> int { return v * 3 }", "(v: int) -> int { return v * 2 }", "(v: int) -> int { return v * 5 }"], is_cell: false },
        OperandKind { name: "(int)->bool", ty: "(int) -> bool", lits: ["(v: int) -> bool { return v > 7 }", "(v: int) -> bool { return v > 3 }", "(v: int) -> bool { return v > 2 }", "(v: int) -> bool { return v > 5 }"], is_cell: false },
        OperandKind { name: "array", ty: "[int]", lits: ["[7, 8]", "[3]", "[2, 2]", "[5]"], is_cell: false },
        // values chosen so that regrouping changes the rounding / overflow of float arithmetic
        OperandKind { name: "float", ty: "float", lits: ["0.1", "0.2", "0.3", "1e308"], is_cell: false },
    ];
    if thorough {
        v.extend([
            OperandKind { name: "mut float", ty: "mut float", lits: ["mut 0.1", "mut 0.2", "mut 0.3", "mut 1e308"], is_cell: true },
            OperandKind { name: "mut bool", ty: "mut bool", lits: ["mut true", "mut false", "mut true", "mut false"], is_cell: true },
            OperandKind { name: "bool iterator", ty: "() -> (bool, bool)", lits: ["[true, false]~", "[false]~", "[true]~", "[]~ ? bool"], is_cell: false },
            OperandKind { name: "(int,int)->int", ty: "(int, int) -> int", lits: ["(x: int, y: int) -> int { return x * 7 + y }", "(x: int, y: int) -> int { return x * 3 + y }", "(x: int, y: int) -> int { return x * 2 + y }", "(x: int, y: int) -> int { return x - y }"], is_cell: false },
            OperandKind { name: "string", ty: "string", lits: ["\"a\"", "\"b\"", "\"c\"", "\"d\""], is_cell: false },
        ]);
    }
    v
}

const BIN_OPS: &[&str] = &[
    "+", "-", "*", "/", "%", "**", "<<", ">>", "&", "|", "^", "==", "!=", "<", "<=", ">", ">=", "&&", "||", "@", "?", "\\",
    "$ 0", "=", "+=", "-=", "*=", "/=", "%=", "**=", "<<=", ">>=", "&=", "|=", "^=",
];

#[derive(Clone, Debug, PartialEq, Eq, PartialOrd, Ord)]
enum Sig {
    Rejected(String),
    Value(String),
    Error(String),
    Other(String),
}

const NAMES: [&str; 4] = ["a", "b", "c", "d"];

/// signature of `expr` over operands of the given kinds (fresh values per run)
fn signature(interp: &Interpreter, expr: &str, ks: &[&OperandKind]) -> Sig {
    signature_alt(interp, expr, ks, 0)
}

/// alternative operand values (alt > 0) are used to separate groupings that coincide on the primary values
/// number of operand value sets
const N_ALTS: usize = 9;

fn alt_lit(k: &OperandKind, pos: usize, alt: usize) -> &'static str {
    // (odd and even values in every position: `-a ** b` groups observably only for even b)
    // the last set has shift amounts that are legal one by one and too large together;
    // the two before it make intermediate results wrap (a regrouping that is exact on small
    // operands is not when `a * b` overflows) with a second operand the third divides
    // the last two put MIN_INT (whose negation wraps to itself) in either of the first two positions
    const INTS: [[&str; 4]; 9] = [["7", "3", "2", "5"], ["12", "4", "3", "2"], ["100", "9", "4", "3"], ["9223372036854775807", "6", "3", "2"], ["4611686018427387904", "4", "2", "3"], ["3", "40", "40", "1"], ["(-9223372036854775807 - 1)", "1", "2", "3"], ["1", "(-9223372036854775807 - 1)", "2", "3"], ["7", "2", "4", "8"]];
    const CELLS: [[&str; 4]; 9] = [["mut 7", "mut 3", "mut 2", "mut 5"], ["mut 12", "mut 4", "mut 3", "mut 2"], ["mut 100", "mut 9", "mut 4", "mut 3"], ["mut 9223372036854775807", "mut 6", "mut 3", "mut 2"], ["mut 4611686018427387904", "mut 4", "mut 2", "mut 3"], ["mut 3", "mut 40", "mut 40", "mut 1"], ["mut (-9223372036854775807 - 1)", "mut 1", "mut 2", "mut 3"], ["mut 1", "mut (-9223372036854775807 - 1)", "mut 2", "mut 3"], ["mut 7", "mut 2", "mut 4", "mut 8"]];
    const BOOLS: [[&str; 4]; 3] = [["true", "false", "true", "false"], ["false", "true", "true", "false"], ["false", "false", "true", "true"]];
    match k.name {
        "int" => INTS[alt % 9][pos],
        "mut int" => CELLS[alt % 9][pos],
        "bool" => BOOLS[alt % 3][pos],
        "float" => [["0.1", "0.2", "0.3", "1e308"], ["1e308", "1e308", "1e308", "0.5"], ["3.0", "2.0", "0.5", "7.0"]][alt % 3][pos],
        _ => k.lits[pos],
    }
}

fn signature_alt(interp: &Interpreter, expr: &str, ks: &[&OperandKind], alt: usize) -> Sig {
    signature_masked(interp, expr, ks, alt, 0)
}

/// operands whose bit is set in `constant` are bound to their literal inside the function
/// (a constant for the checker and the folder) instead of being passed at run time
fn signature_masked(interp: &Interpreter, expr: &str, ks: &[&OperandKind], alt: usize, constant: usize) -> Sig {
    let is_const = |i: usize| constant & (1 << i) != 0;
    let params: Vec<String> = ks.iter().enumerate().filter(|(i, _)| !is_const(*i)).map(|(i, k)| format!("{}: {}", NAMES[i], k.ty)).collect();
    let consts: String = ks.iter().enumerate().filter(|(i, _)| is_const(*i)).map(|(i, k)| format!("{} := {}; ", NAMES[i], alt_lit(k, i, alt))).collect();
    let cells: Vec<String> = ks.iter().enumerate().filter(|(_, k)| k.is_cell).map(|(i, _)| format!("*{}", NAMES[i])).collect();
    let ret = if cells.is_empty() { "(r, 0)".to_string() } else { format!("(r, {})", cells.join(", ")) };
    let text = format!("f := ({}) -> any {{ {consts}r := {expr}; return {ret} }}", params.join(", "));
    verif::set_fuel(Some(core::QUICK_FUEL), Some(core::DEPTH));
    let s = (|| {
        let code = match guard(|| Code::parse(interp, &text)) {
            Ok(Ok(c)) => c,
            // the payload of the error names the operator and operand types that did not fit, which
            // makes the grouping observable even when every grouping is ill-typed
            Ok(Err(e)) => return Sig::Rejected(format!("{}: {e}", core::error_kind(&e)).chars().take(300).collect()),
            Err(Stop::Panic(p)) => return Sig::Other(format!("PANIC parse {} @{}", p.short_msg(), p.file())),
            Err(Stop::Exhausted) => return Sig::Other("exhausted".into()),
        };
        let f = match guard(|| code.exec()) {
            Ok(Ok(Variable::Function(f))) => f,
            _ => return Sig::Other("define failed".into()),
        };
        let mut args = Vec::new();
        for (i, k) in ks.iter().enumerate() {
            if is_const(i) {
                continue;
            }
            match guard(|| Code::parse(interp, alt_lit(k, i, alt)).unwrap().exec().unwrap()) {
                Ok(v) => args.push(v),
                Err(_) => return Sig::Other("operand literal does not evaluate".into()),
            }
        }
        let call = match guard(|| f.clone().create_call(args)) {
            Ok(Ok(c)) => c,
            _ => return Sig::Other("host call rejected".into()),
        };
        match guard(|| call.exec()) {
            Ok(Ok(v)) => Sig::Value(canon(&v)),
            Ok(Err(e)) => Sig::Error(core::exec_error_kind(&e)),
            Err(Stop::Panic(p)) => Sig::Other(format!("PANIC exec {} @{}", p.short_msg(), p.file())),
            Err(Stop::Exhausted) => Sig::Other("exhausted".into()),
        }
    })();
    verif::set_fuel(None, None);
    s
}

#[derive(Default)]
struct Acc {
    programs: u64,
    cases: u64,
    accepted_flat: u64,
    /// cases whose outcome was also compared with the reference evaluation of the table grouping
    anchored: u64,
    discriminated: BTreeSet<String>,
    seen_pairs: BTreeSet<String>,
    sigs: BTreeSet<Sig>,
    violations: Vec<Violation>,
}

fn check(acc: &mut Acc, interp: &Interpreter, family: &str, label: &str, toks: &[Tok], ks: &[&OperandKind]) {
    let flat_text = flat(toks);
    let table_text = by_table(toks);
    let s_flat = signature(interp, &flat_text, ks);
    let s_table = signature(interp, &table_text, ks);
    acc.programs += 2;
    acc.cases += 1;
    if !matches!(s_flat, Sig::Rejected(_)) {
        acc.accepted_flat += 1;
    }
    if acc.sigs.len() < 4096 {
        acc.sigs.insert(s_flat.clone());
    }
    // the grouping must not depend on which operands are constants: the folder regroups nothing.
    // (A constant operation that fails is reported when the program is parsed; same kind required.)
    // Every operand value set (alt): a regrouping may coincide on one set of values.
    let plain = ks.iter().all(|k| ["int", "bool", "float", "string", "array"].contains(&k.name));
    let has_alts = ks.iter().all(|k| ["int", "bool", "float"].contains(&k.name));
    if matches!(s_flat, Sig::Value(_) | Sig::Error(_)) && plain {
        for alt in 0..if has_alts { N_ALTS } else { 1 } {
            let s_run = if alt == 0 { s_flat.clone() } else { signature_alt(interp, &flat_text, ks, alt) };
            if alt > 0 {
                acc.programs += 1;
            }
            for constant in 1..(1usize << ks.len()) {
                let s_mask = signature_masked(interp, &flat_text, ks, alt, constant);
                acc.programs += 1;
                let same = match (&s_mask, &s_run) {
                    // an expression with two failing operations: at run time the first one evaluated
                    // decides, while a failing operation on constants is reported when the program is
                    // parsed whichever comes first - the program fails either way, nothing is regrouped
                    (Sig::Rejected(msg), Sig::Error(kind)) => {
                        msg.starts_with(kind.as_str()) || ["ZeroDivision", "ZeroModulo", "NegativeExponent", "OverflowShift", "IndexOutOfBounds", "NegativeLength"].iter().any(|k| msg.starts_with(k))
                    }
                    (a, b) => a == b,
                };
                if !same {
                    let kn: Vec<&str> = ks.iter().map(|k| k.name).collect();
                    acc.violations.push(Violation {
                        sig: format!("C14|grouping-depends-on-constant-operands|{family}|{label}|constants={constant:b}"),
                        detail: json!({"kind": "precedence", "expression": flat_text, "operand_kinds": kn, "operand_values": ks.iter().enumerate().map(|(i, k)| alt_lit(k, i, alt)).collect::<Vec<_>>(), "constant_operand_mask": format!("{constant:b}"), "all_run_time_outcome": format!("{s_run:?}"), "with_constants_outcome": format!("{s_mask:?}")}),
                    });
                }
            }
            if let Some(want) = reference_outcome(toks, ks, alt) {
                acc.anchored += 1;
                if s_run != want {
                    let kn: Vec<&str> = ks.iter().map(|k| k.name).collect();
                    acc.violations.push(Violation {
                        sig: format!("C14|value-differs-from-the-table-grouping-evaluated-by-reference|{family}|{label}"),
                        detail: json!({"kind": "precedence", "expression": flat_text, "prescribed": table_text, "operand_kinds": kn, "operand_values": ks.iter().enumerate().map(|(i, k)| alt_lit(k, i, alt)).collect::<Vec<_>>(), "observed": format!("{s_run:?}"), "expected": format!("{want:?}")}),
                    });
                }
            }
        }
    } else if let Some(want) = reference_outcome(toks, ks, 0) {
        acc.anchored += 1;
        if s_flat != want {
            let kn: Vec<&str> = ks.iter().map(|k| k.name).collect();
            acc.violations.push(Violation {
                sig: format!("C14|value-differs-from-the-table-grouping-evaluated-by-reference|{family}|{label}"),
                detail: json!({"kind": "precedence", "expression": flat_text, "prescribed": table_text, "operand_kinds": kn, "operand_values": ks.iter().enumerate().map(|(i, k)| alt_lit(k, i, 0)).collect::<Vec<_>>(), "observed": format!("{s_flat:?}"), "expected": format!("{want:?}")}),
            });
        }
    }
    if s_flat != s_table {
        let kn: Vec<&str> = ks.iter().map(|k| k.name).collect();
        acc.violations.push(Violation {
            sig: format!("C14|grouping-differs-from-table|{family}|{label}"),
            detail: json!({"kind": "precedence", "expression": flat_text, "prescribed": table_text, "operand_kinds": kn, "unparenthesised_outcome": format!("{s_flat:?}"), "prescribed_outcome": format!("{s_table:?}")}),
        });
    }
}

pub fn run(tier: &str) -> i32 {
    let thorough = tier == "thorough";
    let mut report = Report::new("C14", tier);
    let mut samples = Samples::new(10);
    let ks = kinds(thorough);
    let nk = ks.len();

    // ---- F1: all ordered pairs of binary operators x operand kinds^3
    let n_ops = BIN_OPS.len();
    let n1 = n_ops * n_ops * nk * nk * nk;
    let accs = par_fold(
        n1,
        || (Acc::default(), Interpreter::with_stdlib()),
        |(acc, interp), idx| {
            let mut i = idx;
            let kc = &ks[i % nk];
            i /= nk;
            let kb = &ks[i % nk];
            i /= nk;
            let ka = &ks[i % nk];
            i /= nk;
            let op2 = BIN_OPS[i % n_ops];
            let op1 = BIN_OPS[i / n_ops];
            let toks = vec![
                Tok::Operand("a".into()),
                Tok::Bin(op1.into()),
                Tok::Operand("b".into()),
                Tok::Bin(op2.into()),
                Tok::Operand("c".into()),
            ];
            let label = format!("{op1} then {op2}");
            let kk = [ka, kb, kc];
            check(acc, interp, "binary-pair", &label, &toks, &kk);
            // discrimination: do the two groupings differ for this operand assignment?
            let (l, r) = groupings("a", op1, "b", op2, "c");
            acc.seen_pairs.insert(label.clone());
            if !acc.discriminated.contains(&label) {
                for alt in 0..3 {
                    let sl = signature_alt(interp, &l, &kk, alt);
                    if matches!(sl, Sig::Rejected(_)) && alt > 0 {
                        break;
                    }
                    let sr = signature_alt(interp, &r, &kk, alt);
                    acc.programs += 2;
                    if sl != sr {
                        acc.discriminated.insert(label);
                        break;
                    }
                }
            }
        },
    );
    let mut acc = Acc::default();
    let merge = |acc: &mut Acc, a: Acc| {
        acc.programs += a.programs;
        acc.cases += a.cases;
        acc.accepted_flat += a.accepted_flat;
        acc.anchored += a.anchored;
        acc.discriminated.extend(a.discriminated);
        acc.seen_pairs.extend(a.seen_pairs);
        acc.sigs.extend(a.sigs);
        acc.violations.extend(a.violations);
    };
    for (a, _) in accs {
        merge(&mut acc, a);
    }

    // ---- F2..F5: prefix / postfix forms (sequential: small)
    let small = core::on_big_stack(|| {
        let mut acc = Acc::default();
        let interp = Interpreter::with_stdlib();
        let extra = [
            OperandKind { name: "tuple", ty: "(int, int)", lits: ["(7, 8)", "(3, 4)", "(2, 1)", "(5, 6)"], is_cell: false },
            OperandKind { name: "struct", ty: "struct{x: int}", lits: ["struct{x := 7}", "struct{x := 3}", "struct{x := 2}", "struct{x := 5}"], is_cell: false },
            OperandKind { name: "array of cells", ty: "[mut int]", lits: ["[mut 7]", "[mut 3]", "[mut 2]", "[mut 5]"], is_cell: false },
            OperandKind { name: "array of fns", ty: "[(int) -> int]", lits: ["[(v: int) -> int { return v * 7 }]", "[(v: int) -> int { return v * 3 }]", "[(v: int) -> int { return v }]", "[(v: int) -> int { return v }]"], is_cell: false },
            OperandKind { name: "mut array", ty: "mut [int]", lits: ["mut [7]", "mut [3]", "mut [2]", "mut [5]"], is_cell: false },
            OperandKind { name: "()->mut int", ty: "() -> mut int", lits: ["() -> mut int { return mut 7 }", "() -> mut int { return mut 3 }", "() -> mut int { return mut 2 }", "() -> mut int { return mut 5 }"], is_cell: false },
            OperandKind { name: "mixed iterator", ty: "() -> (bool, int | string)", lits: ["[7, \"s\"]~", "[3, \"t\"]~", "[2]~", "[5]~"], is_cell: false },
        ];
        let all: Vec<&OperandKind> = ks.iter().chain(extra.iter()).collect();
        let prefixes = ["!", "-", "*"];
        let post1 = ["[0]", "(1)", "()", ".0", ".x", " ? int", "[0:1]"];
        let post3 = ["$+", "$*", "$&&", "$||", "$&", "$|", "$]", "~"];
        // prefix before binary
        for pf in prefixes {
            for op in BIN_OPS {
                for ka in &all {
                    for kb in &all {
                        let toks = vec![Tok::Prefix(pf.into()), Tok::Operand("a".into()), Tok::Bin(op.to_string()), Tok::Operand("b".into())];
                        check(&mut acc, &interp, "prefix-binary", &format!("{pf} then {op}"), &toks, &[ka, kb]);
                    }
                }
            }
        }
        // a prefix operator on the right operand, and on both operands (the operators whose right
        // operand is a function take no prefix there: both spellings are parse errors at
        // different columns, which compares nothing)
        for pf in prefixes {
            for op in BIN_OPS.iter().filter(|o| !["@", "?", "\\", "$ 0"].contains(o)) {
                for ka in &all {
                    for kb in &all {
                        let toks = vec![Tok::Operand("a".into()), Tok::Bin(op.to_string()), Tok::Prefix(pf.into()), Tok::Operand("b".into())];
                        check(&mut acc, &interp, "binary-prefix", &format!("{op} then {pf}"), &toks, &[ka, kb]);
                        for pf2 in prefixes {
                            let toks = vec![Tok::Prefix(pf.into()), Tok::Operand("a".into()), Tok::Bin(op.to_string()), Tok::Prefix(pf2.into()), Tok::Operand("b".into())];
                            check(&mut acc, &interp, "prefix-binary-prefix", &format!("{pf} then {op} then {pf2}"), &toks, &[ka, kb]);
                        }
                    }
                }
            }
        }
        // prefix and postfix on one operand; postfix chains
        for ka in &all {
            for pf in prefixes {
                for po in post1.iter().chain(post3.iter()) {
                    let toks = vec![Tok::Prefix(pf.into()), Tok::Operand("a".into()), Tok::Postfix(po.to_string())];
                    check(&mut acc, &interp, "prefix-postfix", &format!("{pf} with {}", po.trim()), &toks, &[ka]);
                }
            }
            for p3 in post3 {
                for p1 in post1 {
                    let toks = vec![Tok::Operand("a".into()), Tok::Postfix(p3.to_string()), Tok::Postfix(p1.to_string())];
                    check(&mut acc, &interp, "postfix-postfix", &format!("{p3} then {}", p1.trim()), &toks, &[ka]);
                }
            }
        }
        // binary operator followed by a postfix on its right operand
        for op in BIN_OPS {
            for po in post3.iter().chain(post1.iter()) {
                for ka in &all {
                    for kb in &all {
                        let toks = vec![Tok::Operand("a".into()), Tok::Bin(op.to_string()), Tok::Operand("b".into()), Tok::Postfix(po.to_string())];
                        check(&mut acc, &interp, "binary-postfix", &format!("{op} then {}", po.trim()), &toks, &[ka, kb]);
                    }
                }
            }
        }
        acc
    });
    merge(&mut acc, small);

    // ---- F6: triples of the value operators over int / bool / cell operands (thorough)
    if thorough {
        let vops: Vec<&str> = BIN_OPS.iter().copied().filter(|o| !["@", "?", "\\", "$ 0"].contains(o)).collect();
        let tk: Vec<&OperandKind> = ks.iter().filter(|k| ["int", "bool", "mut int"].contains(&k.name)).collect();
        let nv = vops.len();
        let nt = tk.len();
        let n6 = nv * nv * nv * nt.pow(4);
        let accs = par_fold(
            n6,
            || (Acc::default(), Interpreter::with_stdlib()),
            |(acc, interp), idx| {
                let mut i = idx;
                let mut kk = Vec::new();
                for _ in 0..4 {
                    kk.push(tk[i % nt]);
                    i /= nt;
                }
                let o3 = vops[i % nv];
                i /= nv;
                let o2 = vops[i % nv];
                let o1 = vops[i / nv];
                // only operand assignments that can type-check somewhere: cells only on the left of assignments
                let toks = vec![
                    Tok::Operand("a".into()),
                    Tok::Bin(o1.into()),
                    Tok::Operand("b".into()),
                    Tok::Bin(o2.into()),
                    Tok::Operand("c".into()),
                    Tok::Bin(o3.into()),
                    Tok::Operand("d".into()),
                ];
                check(acc, interp, "binary-triple", &format!("{o1} {o2} {o3}"), &toks, &kk);
            },
        );
        for (a, _) in accs {
            merge(&mut acc, a);
        }
    }

    // ---- F7: multi-character operators are never split: no-space spelling == spaced spelling
    let adj = core::on_big_stack(|| {
        let interp = Interpreter::with_stdlib();
        let mut out = Vec::new();
        let mut count = 0u64;
        let all = kinds(true);
        let int = &all[0];
        let boolk = &all[1];
        let cell = &all[2];
        let it = &all[3];
        let bit = all.iter().find(|k| k.name == "bool iterator").unwrap();
        let bcell = all.iter().find(|k| k.name == "mut bool").unwrap();
        // (compact text, spaced text with the intended tokenisation, operand kinds)
        let cases: Vec<(String, String, Vec<&OperandKind>)> = {
            let mut v: Vec<(String, String, Vec<&OperandKind>)> = Vec::new();
            for op in ["+", "-", "*", "/", "%", "**", "<<", ">>", "&", "|", "^", "==", "!=", "<", "<=", ">", ">="] {
                v.push((format!("a{op}b"), format!("a {op} b"), vec![int, int]));
                v.push((format!("a{op}-b"), format!("a {op} (-b)"), vec![int, int]));
                v.push((format!("a{op}!b"), format!("a {op} (!b)"), vec![int, int]));
            }
            for op in ["&&", "||", "&", "|", "^", "==", "!="] {
                v.push((format!("a{op}b"), format!("a {op} b"), vec![boolk, boolk]));
                v.push((format!("a{op}!b"), format!("a {op} (!b)"), vec![boolk, boolk]));
            }
            for op in ["=", "+=", "-=", "*=", "/=", "%=", "**=", "<<=", ">>=", "&=", "|=", "^="] {
                v.push((format!("a{op}b"), format!("a {op} b"), vec![cell, int]));
                v.push((format!("a{op}-b"), format!("a {op} (-b)"), vec![cell, int]));
                v.push((format!("a{op}*b"), format!("a {op} (*b)"), vec![cell, cell]));
            }
            for op in ["=", "&=", "|=", "^="] {
                v.push((format!("a{op}!b"), format!("a {op} (!b)"), vec![bcell, boolk]));
            }
            for po in ["$+", "$*", "$&", "$|", "$]"] {
                v.push((format!("a{po}"), format!("(a) {po}"), vec![it]));
            }
            for po in ["$&&", "$||"] {
                v.push((format!("a{po}"), format!("(a) {po}"), vec![bit]));
            }
            // a postfix reducer directly followed by a binary operator spelled with the same characters
            v.push(("a$++b".into(), "(a $+) + b".into(), vec![it, int]));
            v.push(("a$**b".into(), "(a $*) * b".into(), vec![it, int]));
            v.push(("a$***b".into(), "(a $*) ** b".into(), vec![it, int]));
            v.push(("a$& &b".into(), "(a $&) & b".into(), vec![it, int]));
            v.push(("a$| |b".into(), "(a $|) | b".into(), vec![it, int]));
            v.push(("a$&&&b".into(), "(a $&&) & b".into(), vec![bit, boolk]));
            v.push(("a$&&&&b".into(), "(a $&&) && b".into(), vec![bit, boolk]));
            v.push(("a$|||b".into(), "(a $||) | b".into(), vec![bit, boolk]));
            v.push(("a$||||b".into(), "(a $||) || b".into(), vec![bit, boolk]));
            v.push(("a$||b".into(), "(a $||)\n b".into(), vec![bit, boolk]));
            // tokens written apart stay apart: `$` followed by white space (or a comment) and a prefix
            // operator is `$ init` with the prefixed operand as the initial value, not a reducer
            if let Some(fn2) = all.iter().find(|k| k.name == "(int,int)->int") {
                for (pre, kind) in [("*", cell), ("-", int), ("!", int)] {
                    for gap in [" ", "  ", "\n", "/**/", " /* c */ "] {
                        v.push((format!("a ${gap}{pre}b c"), format!("a $ ({pre}b) c"), vec![it, kind, fn2]));
                        v.push((format!("a${gap}{pre}b c"), format!("a $ ({pre}b) c"), vec![it, kind, fn2]));
                        v.push((format!("1 + a ${gap}{pre}b c"), format!("1 + (a $ ({pre}b) c)"), vec![it, kind, fn2]));
                    }
                }
            }
            v.push(("a<-b".into(), "a < (-b)".into(), vec![int, int]));
            v.push(("a>-b".into(), "a > (-b)".into(), vec![int, int]));
            v.push(("a--b".into(), "a - (-b)".into(), vec![int, int]));
            v.push(("a- -b".into(), "a - (-b)".into(), vec![int, int]));
            v.push(("a**-b".into(), "a ** (-b)".into(), vec![int, int]));
            v.push(("a***b".into(), "a ** (*b)".into(), vec![int, cell]));
            v.push(("a* *b".into(), "a * (*b)".into(), vec![int, cell]));
            v.push(("a=*b".into(), "a = (*b)".into(), vec![cell, cell]));
            v.push(("a==*b".into(), "a == (*b)".into(), vec![int, cell]));
            v.push(("a!=!b".into(), "a != (!b)".into(), vec![boolk, boolk]));
            v.push(("a<=-b".into(), "a <= (-b)".into(), vec![int, int]));
            v.push(("a<<-b".into(), "a << (-b)".into(), vec![int, int]));
            v.push(("a>>=b".into(), "a >>= b".into(), vec![cell, int]));
            v.push(("a>=b".into(), "a >= b".into(), vec![int, int]));
            v.push(("a&&!b".into(), "a && (!b)".into(), vec![boolk, boolk]));
            v.push(("a&!b".into(), "a & (!b)".into(), vec![boolk, boolk]));
            v.push(("a||!b".into(), "a || (!b)".into(), vec![boolk, boolk]));
            v.push(("a|!b".into(), "a | (!b)".into(), vec![boolk, boolk]));
            v
        };
        // every binary operator, spelled with and without spaces, between operands of its documented
        // kinds is accepted (it is one token, and the token is that operator)
        {
            let kind = |name: &str| ks.iter().find(|k| k.name == name).unwrap();
            for op in BIN_OPS {
                let (l, r, third): (&str, &str, Option<&str>) = match *op {
                    "&&" | "||" => ("bool", "bool", None),
                    "@" => ("int iterator", "(int)->int", None),
                    "?" | "\\" => ("int iterator", "(int)->bool", None),
                    "$ 0" => ("int iterator", "(int,int)->int", None),
                    o if o.ends_with('=') && !["==", "!=", "<=", ">="].contains(&o) => ("mut int", "int", None),
                    _ => ("int", "int", None),
                };
                let _ = third;
                if *op == "$ 0" && !ks.iter().any(|k| k.name == "(int,int)->int") {
                    continue;
                }
                let kk = vec![kind(l), kind(r)];
                for text in [format!("a {op} b"), format!("a{op}b")] {
                    if *op == "$ 0" && !text.contains(' ') {
                        continue;
                    }
                    count += 1;
                    if let Sig::Rejected(msg) = signature(&interp, &text, &kk) {
                        out.push(Violation {
                            sig: format!("C14|operator-not-read-as-written|{text}"),
                            detail: json!({"kind": "precedence", "expression": text, "operand_kinds": [l, r], "outcome": msg}),
                        });
                    }
                }
            }
        }
        for (compact, spaced, kk) in &cases {
            count += 2;
            let s1 = signature(&interp, compact, kk);
            let s2 = signature(&interp, spaced, kk);
            // the operands are of kinds the intended reading accepts: a rejection means the
            // operator itself is not read as one token
            if let Sig::Rejected(msg) = &s2 {
                out.push(Violation {
                    sig: format!("C14|operator-not-read-as-written|{spaced}"),
                    detail: json!({"kind": "precedence", "expression": spaced, "outcome": msg}),
                });
            }
            if s1 != s2 {
                out.push(Violation {
                    sig: format!("C14|operator-split|{compact}"),
                    detail: json!({"kind": "precedence", "expression": compact, "prescribed": spaced, "unparenthesised_outcome": format!("{s1:?}"), "prescribed_outcome": format!("{s2:?}")}),
                });
            }
        }
        (out, count)
    });
    acc.programs += adj.1;
    report.violations(adj.0);

    let undiscriminated: Vec<String> = acc.seen_pairs.difference(&acc.discriminated).cloned().collect();
    let mut by_reason: BTreeMap<&str, usize> = BTreeMap::new();
    *by_reason.entry("undiscriminated").or_insert(0) += undiscriminated.len();
    samples.push(|| json!({"expression": "a + b * c", "prescribed": "(a + (b * c))"}));
    samples.push(|| {
        let t = vec![Tok::Prefix("-".into()), Tok::Operand("a".into()), Tok::Postfix("$+".into())];
        json!({"expression": flat(&t), "prescribed": by_table(&t)})
    });
    samples.push(|| {
        let t = vec![Tok::Operand("a".into()), Tok::Bin("=".into()), Tok::Operand("b".into()), Tok::Bin("+=".into()), Tok::Operand("c".into())];
        json!({"expression": flat(&t), "prescribed": by_table(&t)})
    });
    samples.push(|| {
        let t = vec![Tok::Operand("a".into()), Tok::Bin("@".into()), Tok::Operand("b".into()), Tok::Postfix("$]".into())];
        json!({"expression": flat(&t), "prescribed": by_table(&t)})
    });
    let Acc { programs, cases, accepted_flat, anchored, discriminated, seen_pairs, sigs, violations } = acc;
    report.violations(violations);
    let coverage = json!({
        "states": cases,
        "transitions": programs,
        "traces_validated_against_impl": programs,
        "expressions": cases,
        "programs_run": programs,
        "accepted_unparenthesised": accepted_flat,
        "cases_also_compared_with_the_reference_value_of_the_table_grouping": anchored,
        "binary_operators": BIN_OPS.len(),
        "operand_kinds": nk,
        "operator_pairs": seen_pairs.len(),
        "operator_pairs_discriminated": discriminated.len(),
        "operator_pairs_not_discriminated": undiscriminated,
        "distinct_outcomes": sigs.len(),
        "samples": samples.items,
        "exhaustive": true,
        "rule": "an expression is compared (accepted?, error kind, value, final cell contents) with the full parenthesisation prescribed by an independent implementation of the 14-level table; a pair is discriminated when its two groupings differ for some operand assignment",
    });
    report.finish(
        "model_checking",
        coverage,
        &["grouping is observed through acceptance, values and cell contents; pairs whose groupings are never distinguishable are listed, not assumed"],
    )
}
