//! C07 — evaluation order: left to right, exactly once, short-circuit. Every
//! construct with several evaluated positions x every non-empty subset of
//! positions made effectful x remaining positions literal or hidden.
use crate::core::{self, guard, par_fold, Stop};
use crate::report::{Report, Samples, Violation};
use crate::val::canon;
use serde_json::json;
use simplesl::variable::Variable;
use simplesl::{verif, Code, Interpreter};
use std::collections::BTreeSet;

/// operand kinds: literal text, SimpleSL type, logging-identity helper name
struct Kind {
    ty: &'static str,
    helper: &'static str,
}

fn kind(k: &str) -> Kind {
    match k {
        "int" => Kind { ty: "int", helper: "t" },
        "bool" => Kind { ty: "bool", helper: "tb" },
        "str" => Kind { ty: "string", helper: "ts" },
        "arr" => Kind { ty: "[int]", helper: "ta" },
        "cell" => Kind { ty: "mut int", helper: "tc" },
        "bcell" => Kind { ty: "mut bool", helper: "tcb" },
        "fn2" => Kind { ty: "(int, int) -> int", helper: "tf" },
        "fn1" => Kind { ty: "(int) -> int", helper: "tg" },
        "pred" => Kind { ty: "(int) -> bool", helper: "tp" },
        "fn1v" => Kind { ty: "(int) -> ()", helper: "tgv" },
        "fn1a" => Kind { ty: "(int) -> [int]", helper: "tga" },
        "iter" => Kind { ty: "() -> (bool, int)", helper: "ti" },
        _ => unreachable!("{k}"),
    }
}

const HELPERS: &str = "log := mut [int] [];
t := (i: int, v: int) -> int { log += [i]; return v };
tb := (i: int, v: bool) -> bool { log += [i]; return v };
ts := (i: int, v: string) -> string { log += [i]; return v };
ta := (i: int, v: [int]) -> [int] { log += [i]; return v };
tc := (i: int, v: mut int) -> mut int { log += [i]; return v };
tcb := (i: int, v: mut bool) -> mut bool { log += [i]; return v };
tf := (i: int, v: (int, int) -> int) -> (int, int) -> int { log += [i]; return v };
tg := (i: int, v: (int) -> int) -> (int) -> int { log += [i]; return v };
tp := (i: int, v: (int) -> bool) -> (int) -> bool { log += [i]; return v };
tgv := (i: int, v: (int) -> ()) -> (int) -> () { log += [i]; return v };
tga := (i: int, v: (int) -> [int]) -> (int) -> [int] { log += [i]; return v };
ti := (i: int, v: () -> (bool, int)) -> () -> (bool, int) { log += [i]; return v };";

#[derive(Clone)]
struct Pos {
    kind: &'static str,
    /// literal text of the operand value (an expression evaluating to it)
    lit: &'static str,
}

#[derive(Clone)]
struct Case {
    name: String,
    /// template with {0} {1} ... numbered left to right in the text
    template: String,
    pos: Vec<Pos>,
    /// positions (by index) that are evaluated, in order, when all are effectful
    evaluated: Vec<usize>,
}

fn p(kind: &'static str, lit: &'static str) -> Pos {
    Pos { kind, lit }
}

fn all(n: usize) -> Vec<usize> {
    (0..n).collect()
}

fn cases(thorough: bool) -> Vec<Case> {
    let mut v: Vec<Case> = Vec::new();
    let mut add = |name: &str, template: &str, pos: Vec<Pos>, evaluated: Option<Vec<usize>>| {
        let ev = evaluated.unwrap_or_else(|| all(pos.len()));
        v.push(Case { name: name.to_string(), template: template.to_string(), pos, evaluated: ev });
    };
    for op in ["+", "-", "*", "/", "%", "**", "<<", ">>", "&", "|", "^", "==", "!=", "<", "<=", ">", ">="] {
        add(&format!("int {op}"), &format!("{{0}} {op} {{1}}"), vec![p("int", "6"), p("int", "2")], None);
    }
    for op in ["&", "|", "^", "==", "!="] {
        add(&format!("bool {op}"), &format!("{{0}} {op} {{1}}"), vec![p("bool", "true"), p("bool", "false")], None);
    }
    // prefix operators on the operands (a rewriting of `-a + b`, `a + -b`, `!a == b` ... into another
    // operator must keep the operands where they are), around the whole operation, and twice
    for op in ["+", "-", "*", "/", "%", "&", "|", "^", "==", "!=", "<", "<=", ">", ">=", "**", "<<", ">>"] {
        let right_too = !["**", "<<", ">>"].contains(&op);
        for pre in ["-", "!"] {
            add(&format!("int {pre}a {op} b"), &format!("{pre}{{0}} {op} {{1}}"), vec![p("int", "6"), p("int", "2")], None);
            add(&format!("int {pre}{pre}a {op} b"), &format!("{pre}({pre}{{0}}) {op} {{1}}"), vec![p("int", "6"), p("int", "2")], None);
            if pre == "!" || !["==", "!=", "<", "<=", ">", ">="].contains(&op) {
                add(&format!("int {pre}(a {op} b)"), &format!("{pre}({{0}} {op} {{1}})"), vec![p("int", "6"), p("int", "2")], None);
            }
            if right_too {
                add(&format!("int a {op} {pre}b"), &format!("{{0}} {op} {pre}{{1}}"), vec![p("int", "6"), p("int", "2")], None);
                add(&format!("int {pre}a {op} {pre}b"), &format!("{pre}{{0}} {op} {pre}{{1}}"), vec![p("int", "6"), p("int", "2")], None);
            }
        }
        add(&format!("int *a {op} *b"), &format!("*{{0}} {op} *{{1}}"), vec![p("cell", "mut 6"), p("cell", "mut 2")], None);
        add(&format!("int 0 - a {op} b"), &format!("0 - {{0}} {op} {{1}}"), vec![p("int", "6"), p("int", "2")], None);
    }
    for op in ["&", "|", "^", "==", "!="] {
        add(&format!("bool !a {op} b"), &format!("!{{0}} {op} {{1}}"), vec![p("bool", "true"), p("bool", "false")], None);
        add(&format!("bool a {op} !b"), &format!("{{0}} {op} !{{1}}"), vec![p("bool", "true"), p("bool", "false")], None);
        add(&format!("bool !a {op} !b"), &format!("!{{0}} {op} !{{1}}"), vec![p("bool", "true"), p("bool", "false")], None);
        add(&format!("bool !(a {op} b)"), &format!("!({{0}} {op} {{1}})"), vec![p("bool", "true"), p("bool", "false")], None);
    }
    add("bool !a && !b", "!{0} && !{1}", vec![p("bool", "false"), p("bool", "false")], None);
    add("bool !a || !b", "!{0} || !{1}", vec![p("bool", "true"), p("bool", "true")], None);
    add("bool !(a && b)", "!({0} && {1})", vec![p("bool", "true"), p("bool", "true")], None);
    add("bool !(a || b)", "!({0} || {1})", vec![p("bool", "false"), p("bool", "false")], None);
    add("string +", "{0} + {1}", vec![p("str", "\"a\""), p("str", "\"b\"")], None);
    add("array +", "{0} + {1}", vec![p("arr", "[1]"), p("arr", "[2]")], None);
    add("array ==", "{0} == {1}", vec![p("arr", "[1]"), p("arr", "[2]")], None);
    // short circuit: rhs evaluated only when lhs does not decide
    for (lhs, rhs_evaluated) in [("true", true), ("false", false)] {
        add(&format!("&& lhs={lhs}"), "{0} && {1}", vec![p("bool", if lhs == "true" { "true" } else { "false" }), p("bool", "true")], Some(if rhs_evaluated { vec![0, 1] } else { vec![0] }));
        add(&format!("|| lhs={lhs}"), "{0} || {1}", vec![p("bool", if lhs == "true" { "true" } else { "false" }), p("bool", "false")], Some(if rhs_evaluated { vec![0] } else { vec![0, 1] }));
    }
    add("&& chain", "{0} && {1} && {2}", vec![p("bool", "true"), p("bool", "false"), p("bool", "true")], Some(vec![0, 1]));
    add("|| chain", "{0} || {1} || {2}", vec![p("bool", "false"), p("bool", "true"), p("bool", "true")], Some(vec![0, 1]));
    // assignments: target then value
    for op in ["=", "+=", "-=", "*=", "/=", "%=", "**=", "<<=", ">>=", "&=", "|=", "^="] {
        add(&format!("assign {op}"), &format!("{{0}} {op} {{1}}"), vec![p("cell", "mut 6"), p("int", "2")], None);
    }
    for op in ["=", "&=", "|=", "^="] {
        add(&format!("bool assign {op}"), &format!("{{0}} {op} {{1}}"), vec![p("bcell", "mut true"), p("bool", "false")], None);
    }
    // call: callee then arguments
    add("call", "{0}({1}, {2})", vec![p("fn2", "(a: int, b: int) -> int { return a + b }"), p("int", "1"), p("int", "2")], None);
    add("call1", "{0}({1})", vec![p("fn1", "(a: int) -> int { return a }"), p("int", "1")], None);
    // callees that do not use their parameters (a constant body, an empty body, a native
    // function): the arguments are evaluated all the same
    add("call of a constant function", "{0}({1}, {2})", vec![p("fn2", "(a: int, b: int) -> int { return 7 }"), p("int", "1"), p("int", "2")], None);
    add("call1 of a constant function", "{0}({1})", vec![p("fn1", "(a: int) -> int { return 7 }"), p("int", "1")], None);
    add("call1 of a function with an empty body", "{0}({1})", vec![p("fn1v", "(a: int) -> () { }"), p("int", "1")], None);
    add("call1 of a function returning a constant array", "{0}({1})", vec![p("fn1a", "(a: int) -> [int] { return [1, 2] }"), p("int", "1")], None);
    add("constant function in an operand", "{0}({1}) + {2}", vec![p("fn1", "(a: int) -> int { return 7 }"), p("int", "1"), p("int", "2")], None);
    add("constant function as an argument's callee", "{0}({1}({2}), {3})", vec![p("fn2", "(a: int, b: int) -> int { return a + b }"), p("fn1", "(a: int) -> int { return 7 }"), p("int", "1"), p("int", "2")], None);
    add("nested call", "{0}({1}, {2}({3}))", vec![p("fn2", "(a: int, b: int) -> int { return a + b }"), p("int", "1"), p("fn1", "(a: int) -> int { return a }"), p("int", "2")], None);
    // literals
    add("array", "[{0}, {1}, {2}]", vec![p("int", "1"), p("int", "2"), p("int", "3")], None);
    add("repeat", "[{0}; {1}]", vec![p("int", "7"), p("int", "2")], None);
    add("tuple", "({0}, {1}, {2})", vec![p("int", "1"), p("str", "\"s\""), p("bool", "true")], None);
    add("struct", "struct{ a := {0}, b := {1}, c := {2} }", vec![p("int", "1"), p("int", "2"), p("int", "3")], None);
    add("struct, names not in alphabetical order", "struct{ c := {0}, a := {1}, b := {2} }", vec![p("int", "1"), p("int", "2"), p("int", "3")], None);
    add("struct in struct", "struct{ z := struct{ y := {0}, x := {1} }, a := {2} }", vec![p("int", "1"), p("int", "2"), p("int", "3")], None);
    add("tuple of arrays", "([{0}, {1}], [{2}])", vec![p("int", "1"), p("int", "2"), p("int", "3")], None);
    add("nested literals", "[({0}, {1}).0, [{2}, {3}][0]]", vec![p("int", "1"), p("int", "2"), p("int", "3"), p("int", "4")], None);
    // indexing and slicing: subject / start / stop / step
    add("index", "{0}[{1}]", vec![p("arr", "[1, 2, 3]"), p("int", "1")], None);
    add("slice a:b:c", "{0}[{1}:{2}:{3}]", vec![p("arr", "[1, 2, 3]"), p("int", "0"), p("int", "2"), p("int", "1")], None);
    add("slice a:b", "{0}[{1}:{2}]", vec![p("arr", "[1, 2, 3]"), p("int", "0"), p("int", "2")], None);
    add("slice a::c", "{0}[{1}::{2}]", vec![p("arr", "[1, 2, 3]"), p("int", "0"), p("int", "2")], None);
    add("slice :b:c", "{0}[:{1}:{2}]", vec![p("arr", "[1, 2, 3]"), p("int", "2"), p("int", "1")], None);
    add("string slice", "{0}[{1}:{2}]", vec![p("str", "\"abc\""), p("int", "0"), p("int", "2")], None);
    // the same with operand values for which a shortcut is tempting: empty sequences, absorbing and
    // neutral elements, equal operands - every operand is still evaluated, once, in order
    add("slice a:b:c of empty", "{0}[{1}:{2}:{3}]", vec![p("arr", "[0; 0]"), p("int", "0"), p("int", "2"), p("int", "1")], None);
    add("slice a:b of empty", "{0}[{1}:{2}]", vec![p("arr", "[0; 0]"), p("int", "0"), p("int", "2")], None);
    add("slice :b:c of empty", "{0}[:{1}:{2}]", vec![p("arr", "[0; 0]"), p("int", "2"), p("int", "1")], None);
    add("string slice of empty", "{0}[{1}:{2}]", vec![p("str", "\"\""), p("int", "0"), p("int", "2")], None);
    add("slice with empty range", "{0}[{1}:{2}]", vec![p("arr", "[1, 2, 3]"), p("int", "2"), p("int", "1")], None);
    for (name, op, a, b) in [
        ("0 *", "*", "0", "2"), ("* 0", "*", "6", "0"), ("0 &", "&", "0", "2"), ("| -1", "|", "-1", "2"), ("0 **", "**", "0", "2"), ("** 0", "**", "6", "0"),
        ("0 /", "/", "0", "2"), ("0 %", "%", "0", "2"), ("0 <<", "<<", "0", "2"), ("+ 0", "+", "6", "0"), ("1 *", "*", "1", "2"), ("equal ==", "==", "6", "6"), ("equal !=", "!=", "6", "6"),
        ("equal -", "-", "6", "6"), ("equal ^", "^", "6", "6"), ("equal <", "<", "6", "6"),
    ] {
        add(&format!("int {name}"), &format!("{{0}} {op} {{1}}"), vec![p("int", a), p("int", b)], None);
    }
    add("bool false &", "{0} & {1}", vec![p("bool", "false"), p("bool", "true")], None);
    add("bool true |", "{0} | {1}", vec![p("bool", "true"), p("bool", "false")], None);
    add("array [] +", "{0} + {1}", vec![p("arr", "[0; 0]"), p("arr", "[2]")], None);
    add("array + []", "{0} + {1}", vec![p("arr", "[1]"), p("arr", "[0; 0]")], None);
    add("string \"\" +", "{0} + {1}", vec![p("str", "\"\""), p("str", "\"b\"")], None);
    add("array == same", "{0} == {1}", vec![p("arr", "[1]"), p("arr", "[1]")], None);
    add("repeat zero times", "[{0}; {1}]", vec![p("int", "7"), p("int", "0")], None);
    for (name, op, b) in [("+= 0", "+=", "0"), ("*= 1", "*=", "1"), ("*= 0", "*=", "0"), ("&= 0", "&=", "0"), ("|= -1", "|=", "-1"), ("= same", "=", "6"), ("**= 0", "**=", "0")] {
        add(&format!("assign {name}"), &format!("{{0}} {op} {{1}}"), vec![p("cell", "mut 6"), p("int", b)], None);
    }
    add("reduce over nothing", "{0} ${1} {2}", vec![p("iter", "[0; 0]~"), p("int", "0"), p("fn2", "(a: int, b: int) -> int { return a + b }")], None);
    add("map over nothing", "{0} @ {1}", vec![p("iter", "[0; 0]~"), p("fn1", "(a: int) -> int { return a }")], None);
    add("filter over nothing", "{0} ? {1}", vec![p("iter", "[0; 0]~"), p("pred", "(a: int) -> bool { return true }")], None);
    add("partition over nothing", "{0} \\ {1}", vec![p("iter", "[0; 0]~"), p("pred", "(a: int) -> bool { return true }")], None);
    add("empty tuple element", "({0}, {1})", vec![p("arr", "[0; 0]"), p("str", "\"\"")], None);
    add("match value equal arms", "match {0} { ({1}) => {2}, ({3}) => {4}, => {5}, }", vec![p("int", "5"), p("int", "5"), p("int", "1"), p("int", "5"), p("int", "2"), p("int", "3")], Some(vec![0, 1, 2]));
    // iterator operators
    add("reduce", "{0} ${1} {2}", vec![p("iter", "[1, 2]~"), p("int", "0"), p("fn2", "(a: int, b: int) -> int { return a + b }")], None);
    add("map", "{0} @ {1}", vec![p("iter", "[1, 2]~"), p("fn1", "(a: int) -> int { return a }")], None);
    add("filter", "{0} ? {1}", vec![p("iter", "[1, 2]~"), p("pred", "(a: int) -> bool { return true }")], None);
    add("partition", "{0} \\ {1}", vec![p("iter", "[1, 2]~"), p("pred", "(a: int) -> bool { return true }")], None);
    // precedence-mixed expression: operands still left to right
    add("mixed arithmetic", "{0} + {1} * {2} - {3}", vec![p("int", "1"), p("int", "2"), p("int", "3"), p("int", "4")], None);
    add("comparison of sums", "{0} + {1} < {2} + {3}", vec![p("int", "1"), p("int", "2"), p("int", "3"), p("int", "4")], None);
    // branches: only the chosen one
    add("if true", "if {0} { {1} } else { {2} }", vec![p("bool", "true"), p("int", "1"), p("int", "2")], Some(vec![0, 1]));
    add("if false", "if {0} { {1} } else { {2} }", vec![p("bool", "false"), p("int", "1"), p("int", "2")], Some(vec![0, 2]));
    add("if-set match", "if x: int = {0} { {1} } else { {2} }", vec![p("int", "5"), p("int", "1"), p("int", "2")], Some(vec![0, 1]));
    add("match value 1st", "match {0} { ({1}) => {2}, ({3}) => {4}, => {5}, }", vec![p("int", "5"), p("int", "5"), p("int", "1"), p("int", "6"), p("int", "2"), p("int", "3")], Some(vec![0, 1, 2]));
    add("match value 2nd", "match {0} { ({1}) => {2}, ({3}) => {4}, => {5}, }", vec![p("int", "6"), p("int", "5"), p("int", "1"), p("int", "6"), p("int", "2"), p("int", "3")], Some(vec![0, 1, 3, 4]));
    add("match value none", "match {0} { ({1}) => {2}, ({3}) => {4}, => {5}, }", vec![p("int", "9"), p("int", "5"), p("int", "1"), p("int", "6"), p("int", "2"), p("int", "3")], Some(vec![0, 1, 3, 5]));
    add("match multi-candidate hit 2nd", "match {0} { {1}, {2}, {3} => {4}, => {5}, }", vec![p("int", "6"), p("int", "5"), p("int", "6"), p("int", "7"), p("int", "1"), p("int", "2")], Some(vec![0, 1, 2, 4]));
    add("match multi-candidate miss", "match {0} { {1}, {2}, {3} => {4}, => {5}, }", vec![p("int", "9"), p("int", "5"), p("int", "6"), p("int", "7"), p("int", "1"), p("int", "2")], Some(vec![0, 1, 2, 3, 5]));
    add("match type arm", "match {0} { x: string => {1}, y: int => {2}, => {3}, }", vec![p("int", "5"), p("int", "1"), p("int", "2"), p("int", "3")], Some(vec![0, 2]));
    if thorough {
        add("struct 4", "struct{ d := {0}, c := {1}, b := {2}, a := {3} }", vec![p("int", "1"), p("int", "2"), p("int", "3"), p("int", "4")], None);
        add("array 4", "[{0}, {1}, {2}, {3}]", vec![p("int", "1"), p("int", "2"), p("int", "3"), p("int", "4")], None);
        add("call in index in call", "{0}({1}[{2}], {3})", vec![p("fn2", "(a: int, b: int) -> int { return a + b }"), p("arr", "[1, 2]"), p("int", "0"), p("int", "3")], None);
        add("assign value is assignment", "{0} = {1} += {2}", vec![p("cell", "mut 0"), p("cell", "mut 1"), p("int", "2")], None);
    }
    v
}

/// mode per position: 0 = effectful (hidden + logging), 1 = literal, 2 = hidden parameter
fn render(case: &Case, modes: &[u8]) -> (String, Vec<usize>, Vec<i64>) {
    let mut text = case.template.clone();
    let mut params = Vec::new();
    let mut expected = Vec::new();
    let mut captured = String::new();
    for (i, (pos, m)) in case.pos.iter().zip(modes).enumerate() {
        let k = kind(pos.kind);
        let tag = (i + 1) as i64;
        let operand = match m {
            0 => {
                params.push(i);
                format!("{}({tag}, q{i})", k.helper)
            }
            1 if ["fn1", "fn2", "pred", "fn1v", "fn1a"].contains(&pos.kind) => pos.lit.to_string(),
            1 => format!("({})", pos.lit),
            // a name bound outside the function: a constant the folder substitutes when the
            // function value is created (cells and iterators stay run-time parameters)
            3 if !["cell", "bcell", "iter"].contains(&pos.kind) => {
                captured.push_str(&format!("k{i} := {};\n", pos.lit));
                format!("k{i}")
            }
            _ => {
                params.push(i);
                format!("q{i}")
            }
        };
        text = text.replace(&format!("{{{i}}}"), &operand);
    }
    for &i in &case.evaluated {
        if modes[i] == 0 {
            expected.push((i + 1) as i64);
        }
    }
    let plist: Vec<String> = params.iter().map(|&i| format!("q{i}: {}", kind(case.pos[i].kind).ty)).collect();
    (
        format!("{captured}f := ({}) -> any {{ {HELPERS} r := {text}; return *log }}", plist.join(", ")),
        params,
        expected,
    )
}

/// Operands that *fail*, next to operands with effects: in every n-ary construct the operands are
/// evaluated left to right until the first one that fails - the effects of those before it have
/// happened, those after it have not, and the error is that operand's - also when the failing
/// operand is a constant operation on values captured by a function value made at run time (the
/// folder knows it cannot succeed when the function value is created). Every assignment of
/// {effectful, division by a zero, index out of range} to three positions with at least one failing.
fn failing_operands_among_effects() -> (u64, Vec<Violation>) {
    use simplesl::variable::{Mut, Type};
    use std::sync::Arc;
    const CONSTRUCTS: &[(&str, &str)] = &[
        ("tuple", "({0}, {1}, {2})"),
        ("array", "[{0}, {1}, {2}]"),
        ("call arguments", "g3({0}, {1}, {2})"),
        ("struct", "struct{ a := {0}, b := {1}, c := {2} }"),
        ("sum", "{0} + {1} + {2}"),
        ("nested tuple", "(({0}, {1}), {2})"),
        ("tuple then selection", "({0}, {1}, {2}).0"),
        ("array then index", "[{0}, {1}, {2}][0]"),
        ("array repeat in a tuple", "([{0}; 1], {1}, {2})"),
        ("argument list of a call in a tuple", "(g3({0}, {1}, 0), {2})"),
    ];
    const CONTEXTS: &[(&str, &str)] = &[
        ("captured by a function value made at run time", "mk := (d: int, e: int) -> () -> any { return () -> any { return EXPR } }; g := mk(0, 5); g()"),
        ("captured, bound to a name first", "mk := (d: int, e: int) -> () -> any { return () -> any { r := EXPR; return r } }; g := mk(0, 5); g()"),
        ("parameters of the function itself", "h := (d: int, e: int) -> any { return EXPR }; h(0, 5)"),
        ("captured two levels up", "mk := (d: int, e: int) -> () -> any { return () -> any { inner := () -> any { return EXPR }; return inner() } }; g := mk(0, 5); g()"),
    ];
    let mut out = Vec::new();
    let mut n = 0u64;
    for (cname, ctext) in CONSTRUCTS {
        for (xname, xtext) in CONTEXTS {
            for mask in 0..27usize {
                let kinds: Vec<usize> = (0..3).map(|i| (mask / 3usize.pow(i as u32)) % 3).collect();
                if !kinds.iter().any(|k| *k != 0) {
                    continue;
                }
                let mut expr = ctext.to_string();
                let mut want_log: Vec<String> = Vec::new();
                let mut want_err = "";
                for (i, k) in kinds.iter().enumerate() {
                    let operand = match k {
                        0 => format!("t({}, 1)", i + 1),
                        1 => "1 / d".to_string(),
                        _ => "[1][e]".to_string(),
                    };
                    expr = expr.replace(&format!("{{{i}}}"), &operand);
                    if want_err.is_empty() {
                        match k {
                            0 => want_log.push((i + 1).to_string()),
                            1 => want_err = "ZeroDivision",
                            _ => want_err = "IndexOutOfBounds",
                        }
                    }
                }
                let text = format!("t := (i: int, v: int) -> int {{ log += [i]; return v }}; g3 := (a: int, b: int, c: int) -> int {{ return 0 }}; {}", xtext.replace("EXPR", &expr));
                let log = Arc::new(Mut { var_type: "mut [int]".parse::<Type>().unwrap().mut_element_type().unwrap(), variable: Variable::from(Vec::<Variable>::new()).into() });
                let mut interp = Interpreter::with_stdlib();
                interp.insert("log".into(), Variable::Mut(log.clone()));
                n += 1;
                let res = match guard(|| Code::parse(&interp, &text).map(|c| c.exec())) {
                    Ok(Ok(Ok(v))) => format!("value {}", canon(&v)),
                    Ok(Ok(Err(e))) => format!("error:{}", core::exec_error_kind(&e)),
                    Ok(Err(e)) => format!("rejected:{}", core::error_kind(&e)),
                    Err(Stop::Panic(pn)) => format!("PANIC {} @{}", pn.short_msg(), pn.file()),
                    Err(Stop::Exhausted) => continue,
                };
                let logged = log.variable.read().map(|g| canon(&g)).unwrap_or_else(|_| "<poisoned>".into());
                let (want_res, want_logged) = (format!("error:{want_err}"), format!("[{}]", want_log.join(", ")));
                if res != want_res || logged != want_logged {
                    let shape: String = kinds.iter().map(|k| ['E', 'z', 'i'][*k]).collect();
                    out.push(Violation {
                        sig: format!("C07|failing-operand-among-effects|{cname}|{xname}|operands={shape}"),
                        detail: json!({"kind": "program", "stdlib": true, "text": text, "note": "`log` is a cell the host put into the interpreter before the run", "expected": {"result": want_res, "log": want_logged}, "observed": {"result": res, "log": logged}}),
                    });
                }
            }
        }
    }
    (n, out)
}

#[derive(Default)]
struct Acc {
    programs: u64,
    rejected: u64,
    logs: BTreeSet<String>,
    violations: Vec<Violation>,
}

pub fn run(tier: &str) -> i32 {
    let thorough = tier == "thorough";
    let mut report = Report::new("C07", tier);
    let mut samples = Samples::new(8);
    let cs = cases(thorough);
    let mut jobs: Vec<(usize, Vec<u8>)> = Vec::new();
    for (ci, c) in cs.iter().enumerate() {
        let k = c.pos.len();
        for mask in 0..4usize.pow(k as u32) {
            let mut m = mask;
            let modes: Vec<u8> = (0..k)
                .map(|_| {
                    let d = (m % 4) as u8;
                    m /= 4;
                    d
                })
                .collect();
            // mode 3 (captured constant) does not apply to stateful operands: same as mode 2 there
            if modes.iter().zip(&c.pos).any(|(d, p)| *d == 3 && ["cell", "bcell", "iter"].contains(&p.kind)) {
                continue;
            }
            if !modes.contains(&0) {
                continue;
            }
            jobs.push((ci, modes));
        }
    }
    let accs = par_fold(
        jobs.len(),
        || (Acc::default(), Interpreter::with_stdlib()),
        |(acc, interp), j| {
            let (ci, modes) = &jobs[j];
            let case = &cs[*ci];
            let (text, params, expected) = render(case, modes);
            acc.programs += 1;
            verif::set_fuel(Some(core::QUICK_FUEL), Some(core::DEPTH));
            let outcome: Result<String, String> = (|| {
                let code = match guard(|| Code::parse(interp, &text)) {
                    Ok(Ok(c)) => c,
                    Ok(Err(e)) => return Err(format!("rejected:{}", core::error_kind(&e))),
                    Err(Stop::Panic(pn)) => return Err(format!("PANIC parse {} @{}", pn.short_msg(), pn.file())),
                    Err(Stop::Exhausted) => return Err("exhausted".into()),
                };
                let f = match guard(|| code.exec()) {
                    Ok(Ok(Variable::Function(f))) => f,
                    other => return Err(format!("define failed: {:?}", other.map(|r| r.map(|v| canon(&v))))),
                };
                // fresh argument values for every run (cells and iterators carry state)
                let mut args = Vec::new();
                for &i in &params {
                    match guard(|| Code::parse(interp, case.pos[i].lit).unwrap().exec().unwrap()) {
                        Ok(v) => args.push(v),
                        Err(_) => return Err("operand literal does not evaluate".into()),
                    }
                }
                let call = match guard(|| f.clone().create_call(args)) {
                    Ok(Ok(c)) => c,
                    Ok(Err(e)) => return Err(format!("host-rejected:{}", core::error_kind(&e))),
                    Err(_) => return Err("create_call panicked".into()),
                };
                match guard(|| call.exec()) {
                    Ok(Ok(v)) => Ok(canon(&v)),
                    Ok(Err(e)) => Err(format!("error:{}", core::exec_error_kind(&e))),
                    Err(Stop::Panic(pn)) => Err(format!("PANIC exec {} @{}", pn.short_msg(), pn.file())),
                    Err(Stop::Exhausted) => Err("exhausted".into()),
                }
            })();
            verif::set_fuel(None, None);
            let want = format!("[{}]", expected.iter().map(|i| i.to_string()).collect::<Vec<_>>().join(", "));
            let mode_s: String = modes.iter().map(|m| ['E', 'L', 'h', 'k'][*m as usize]).collect();
            match outcome {
                Ok(log) => {
                    acc.logs.insert(log.clone());
                    if log != want {
                        acc.violations.push(Violation {
                            sig: format!("C07|wrong-order-or-count|{}|modes={mode_s}", case.name),
                            detail: json!({"kind": "host_call", "program": text, "args": params.iter().map(|&i| case.pos[i].lit).collect::<Vec<_>>(), "expected_log": want, "observed_log": log}),
                        });
                    }
                }
                Err(e) if e.starts_with("rejected") || e.starts_with("host-rejected") => {
                    acc.rejected += 1;
                    acc.violations.push(Violation {
                        sig: format!("C07|generated-program-rejected|{}|modes={mode_s}|{e}", case.name),
                        detail: json!({"kind": "host_call", "program": text, "outcome": e}),
                    });
                }
                Err(e) => acc.violations.push(Violation {
                    sig: format!("C07|run-failed|{}|modes={mode_s}|{}", case.name, e.chars().take(60).collect::<String>()),
                    detail: json!({"kind": "host_call", "program": text, "outcome": e}),
                }),
            }
        },
    );
    let mut acc = Acc::default();
    for (a, _) in accs {
        acc.programs += a.programs;
        acc.rejected += a.rejected;
        acc.logs.extend(a.logs);
        acc.violations.extend(a.violations);
    }
    samples.push(|| json!({"program": render(&cs[0], &[0, 0]).0, "expected_log": "[1, 2]"}));
    samples.push(|| {
        let c = cs.iter().find(|c| c.name == "match value 2nd").unwrap();
        let (text, _, e) = render(c, &[0, 0, 0, 0, 0, 0]);
        json!({"program": text, "expected_log": e})
    });
    let Acc { programs, rejected, logs, violations } = acc;
    report.violations(violations);
    // an operation in a branch that is not chosen, or in a function that is not called, is not
    // evaluated - not even by the folder when the function value capturing its operands is created
    let unreached = crate::core::on_big_stack(|| crate::props::c12::unreached_failures("C07"));
    let failing_operands = crate::core::on_big_stack(failing_operands_among_effects);
    report.violations(failing_operands.1);
    // which branch is the chosen one: if-set, match type arms and `? T` choose by the run-time type
    // of the value, whatever the checker knows about the tested expression (shared with C10)
    let membership = crate::props::c10::language_membership();
    report.violations(membership.1.into_iter().map(|v| Violation { sig: v.sig.replacen("C10|language-membership", "C07|branch-chosen-by-run-time-type", 1), detail: v.detail }));
    report.violations(unreached.1);
    let coverage = json!({
        "unreached_failure_cases": unreached.0,
        "failing_operands_among_effects (10 constructs x 4 contexts x 26 assignments of {effect, /0, index} to three operands)": failing_operands.0,
        "branch_choice_cases (if-set / match type arm / ? T on value x tested type x static type; shared with C10)": membership.0,
        "states": programs,
        "transitions": programs,
        "traces_validated_against_impl": programs,
        "constructs": cs.len(),
        "programs": programs,
        "rejected": rejected,
        "distinct_outcomes": logs.len(),
        "distinct_logs": logs.len(),
        "samples": samples.items,
        "exhaustive": true,
        "rule": "every construct x every assignment of {effectful, literal, hidden} to its evaluated positions with at least one effectful position; the log appended by the effectful operands must be the positions in textual order, each once, skipped operands absent",
    });
    report.finish("model_checking", coverage, &["effects are observed through logging identity functions, one per operand type, so static types are unchanged"])
}
