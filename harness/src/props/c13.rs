//! C13 — mutable cells: shared identity, typed content, atomic update value.
//! Explicit-state BFS (stateright) over assignment / read histories on a fixed
//! aliasing graph; every transition executes the real interpreter and is compared
//! with a reference heap. Plus the static side: which assignments are admitted.
use crate::core::{self, guard, Stop};
use crate::props::c08::{int_lit, ref_int, Ref};
use crate::report::{Report, Samples, Violation};
use crate::ty::{belongs, Ty};
use crate::val::canon;
use serde_json::json;
use simplesl::variable::{Mut, Type, Variable};
use simplesl::{verif, Code, Interpreter};
use stateright::{Checker, Model, Property};
use std::hash::{Hash, Hasher};
use std::sync::atomic::{AtomicU64, Ordering};
use std::sync::{Arc, Mutex};

#[derive(Clone, Debug, PartialEq, Eq, Hash)]
enum V2 {
    I(i64),
    S(String),
}

impl V2 {
    fn canon(&self) -> String {
        match self {
            V2::I(i) => i.to_string(),
            V2::S(s) => format!("{s:?}"),
        }
    }
}

#[derive(Clone, Debug)]
enum Src {
    Lit(i64),
    /// g(): adds 10 to c1, evaluates to 1
    G,
}

#[derive(Clone, Debug)]
enum Eff {
    /// `p = v` on a path to c1
    Set1(Src),
    /// `p op= v` on a path to c1
    Comp1(&'static str, Src),
    Read1,
    Set2(V2),
    Read2,
    /// the checker must reject this statement
    Rejected,
    /// a fresh cell is created and compared with c1: result false, heap unchanged
    Fresh,
}

#[derive(Clone, Debug)]
struct ActionDef {
    text: String,
    eff: Eff,
}

const SETUP: &str = "a := c1; arr := [c1, c2]; s := struct{ f := c1 }; g := () -> int { c1 += 10; return 1 }; cc := mut c1; only1 := [c1];";
const OBSERVE: &str = "(*c1, *a, *(only1[0]), *(s.f), *(*cc), *c2, *(arr[1]))";

fn actions() -> Vec<ActionDef> {
    let mut v = Vec::new();
    let paths1 = ["c1", "a", "only1[0]", "s.f", "*cc"];
    let srcs: Vec<(String, Src)> = vec![
        ("0".into(), Src::Lit(0)),
        ("1".into(), Src::Lit(1)),
        (int_lit(-1), Src::Lit(-1)),
        ("3".into(), Src::Lit(3)),
        ("64".into(), Src::Lit(64)),
        (int_lit(i64::MAX), Src::Lit(i64::MAX)),
        ("g()".into(), Src::G),
    ];
    for p in paths1 {
        v.push(ActionDef { text: format!("*({p})"), eff: Eff::Read1 });
        for (txt, src) in &srcs {
            v.push(ActionDef { text: format!("{p} = {txt}"), eff: Eff::Set1(src.clone()) });
        }
    }
    // every compound operator through the plain name, a subset through each alias
    for op in ["+", "-", "*", "/", "%", "**", "<<", ">>", "&", "|", "^"] {
        for (txt, src) in &srcs {
            v.push(ActionDef { text: format!("c1 {op}= {txt}"), eff: Eff::Comp1(op, src.clone()) });
        }
        for p in ["a", "only1[0]", "s.f", "*cc"] {
            v.push(ActionDef { text: format!("{p} {op}= 3"), eff: Eff::Comp1(op, Src::Lit(3)) });
        }
    }
    v.push(ActionDef { text: "s.f += g()".into(), eff: Eff::Comp1("+", Src::G) });
    v.push(ActionDef { text: "*cc *= g()".into(), eff: Eff::Comp1("*", Src::G) });
    // the union-typed cell
    for p in ["c2", "arr[1]"] {
        v.push(ActionDef { text: format!("*({p})"), eff: Eff::Read2 });
    }
    v.push(ActionDef { text: "c2 = \"s\"".into(), eff: Eff::Set2(V2::S("s".into())) });
    v.push(ActionDef { text: "c2 = 5".into(), eff: Eff::Set2(V2::I(5)) });
    v.push(ActionDef { text: "c2 = \"\"".into(), eff: Eff::Set2(V2::S("".into())) });
    // statements the checker must reject (content type would be violated / operator undefined)
    for t in [
        "c1 = \"s\"", "c1 = 1.5", "c1 += \"s\"", "c1 += 1.5", "c2 += 1", "c2 += \"s\"", "c2 = 1.5", "arr[0] = \"s\"", "arr[1] = \"s\"",
        "arr[0] += 1", "c1 = c2", "c1 = *c2", "cc = c2", "cc = mut 1.5", "*cc = \"s\"", "c1 &&= true", "s.f = ()", "c1 = [1]",
    ] {
        v.push(ActionDef { text: t.into(), eff: Eff::Rejected });
    }
    v.push(ActionDef { text: "(mut 0) == c1".into(), eff: Eff::Fresh });
    v.push(ActionDef { text: "(mut *c1) == c1".into(), eff: Eff::Fresh });
    v
}

#[derive(Clone, Debug)]
struct St {
    c1: i64,
    c2: V2,
    ok: bool,
    history: Vec<u16>,
}

impl PartialEq for St {
    fn eq(&self, o: &Self) -> bool {
        self.c1 == o.c1 && self.c2 == o.c2 && self.ok == o.ok
    }
}
impl Eq for St {}
impl Hash for St {
    fn hash<H: Hasher>(&self, h: &mut H) {
        self.c1.hash(h);
        self.c2.hash(h);
        self.ok.hash(h);
    }
}

struct Shared {
    violations: Mutex<Vec<Violation>>,
    transitions: AtomicU64,
    rejected_as_expected: AtomicU64,
    errors_as_expected: AtomicU64,
    outcomes: Mutex<std::collections::BTreeSet<String>>,
}

struct CellModel {
    acts: Vec<ActionDef>,
    max_depth: usize,
    shared: Arc<Shared>,
}

/// reference effect of an action on (c1, c2): Ok((new c1, new c2, result dump)) or Err(error kind)
fn reference(eff: &Eff, c1: i64, c2: &V2) -> Result<(i64, V2, String), &'static str> {
    match eff {
        Eff::Read1 => Ok((c1, c2.clone(), c1.to_string())),
        Eff::Read2 => Ok((c1, c2.clone(), c2.canon())),
        Eff::Set1(src) => {
            let v = match src {
                Src::Lit(v) => *v,
                Src::G => 1,
            };
            Ok((v, c2.clone(), v.to_string()))
        }
        Eff::Comp1(op, src) => {
            // the content is read at the moment of the update, after the value was evaluated
            let (cur, v) = match src {
                Src::Lit(v) => (c1, *v),
                Src::G => (c1.wrapping_add(10), 1),
            };
            match ref_int(op, cur, v) {
                Ref::Val(s) => {
                    let n: i64 = s.parse().unwrap();
                    Ok((n, c2.clone(), n.to_string()))
                }
                // a failing update leaves the cell as it was (g's own effect stays)
                Ref::Err(kind) => Err(kind),
            }
        }
        Eff::Set2(v) => Ok((c1, v.clone(), v.canon())),
        Eff::Fresh => Ok((c1, c2.clone(), "false".into())),
        Eff::Rejected => unreachable!(),
    }
}

enum ImplOut {
    Rejected(String),
    /// (result of the last action or error kind, observation tuple)
    Ran(Result<String, String>, String, String),
    Panic(String),
    Exhausted,
}

fn run_impl(acts: &[ActionDef], history: &[u16]) -> ImplOut {
    let mut body = String::from(SETUP);
    for (k, &a) in history.iter().enumerate() {
        body.push_str(&format!(" r{k} := {};", acts[a as usize].text));
    }
    let last = history.len() - 1;
    let text = format!(
        "run := (c1: mut int, c2: mut (int | string)) -> any {{ {body} return (r{last}, {OBSERVE}) }}"
    );
    verif::set_fuel(Some(core::QUICK_FUEL), Some(core::DEPTH));
    let interp = Interpreter::with_stdlib();
    let out = (|| {
        let code = match guard(|| Code::parse(&interp, &text)) {
            Ok(Ok(c)) => c,
            Ok(Err(e)) => return ImplOut::Rejected(core::error_kind(&e)),
            Err(Stop::Panic(p)) => return ImplOut::Panic(format!("parse {} @{}", p.short_msg(), p.file())),
            Err(Stop::Exhausted) => return ImplOut::Exhausted,
        };
        let f = match guard(|| code.exec()) {
            Ok(Ok(Variable::Function(f))) => f,
            _ => return ImplOut::Panic("define failed".into()),
        };
        let c1 = Arc::new(Mut { var_type: Type::Int, variable: Variable::Int(0).into() });
        let c2 = Arc::new(Mut { var_type: "int|string".parse().unwrap(), variable: Variable::Int(0).into() });
        let call = match guard(|| f.clone().create_call(vec![Variable::Mut(c1.clone()), Variable::Mut(c2.clone())])) {
            Ok(Ok(c)) => c,
            _ => return ImplOut::Panic("create_call failed".into()),
        };
        let r = guard(|| call.exec());
        let heap = |m: &Arc<Mut>| m.variable.read().map(|g| g.clone()).ok();
        let (h1, h2) = (heap(&c1), heap(&c2));
        let typed_ok = h1.as_ref().is_some_and(|v| belongs(v, &Ty::Int))
            && h2.as_ref().is_some_and(|v| belongs(v, &Ty::union([Ty::Int, Ty::Str])));
        let heap_s = format!(
            "c1={} c2={}{}",
            h1.map(|v| canon(&v)).unwrap_or_else(|| "<poisoned>".into()),
            h2.map(|v| canon(&v)).unwrap_or_else(|| "<poisoned>".into()),
            if typed_ok { "" } else { " CONTENT-NOT-IN-DECLARED-TYPE" }
        );
        match r {
            Ok(Ok(v)) => {
                // (r_last, (observations...))
                let (res, obs) = match &v {
                    Variable::Tuple(t) if t.len() == 2 => (canon(&t[0]), canon(&t[1])),
                    other => (canon(other), String::new()),
                };
                ImplOut::Ran(Ok(res), obs, heap_s)
            }
            Ok(Err(e)) => ImplOut::Ran(Err(core::exec_error_kind(&e)), String::new(), heap_s),
            Err(Stop::Panic(p)) => ImplOut::Panic(format!("exec {} @{}", p.short_msg(), p.file())),
            Err(Stop::Exhausted) => ImplOut::Exhausted,
        }
    })();
    verif::set_fuel(None, None);
    out
}

impl Model for CellModel {
    type State = St;
    type Action = u16;

    fn init_states(&self) -> Vec<St> {
        vec![St { c1: 0, c2: V2::I(0), ok: true, history: vec![] }]
    }

    fn actions(&self, s: &St, out: &mut Vec<u16>) {
        if s.ok && s.history.len() < self.max_depth {
            out.extend(0..self.acts.len() as u16);
        }
    }

    fn next_state(&self, s: &St, a: u16) -> Option<St> {
        let act = &self.acts[a as usize];
        let mut history = s.history.clone();
        history.push(a);
        self.shared.transitions.fetch_add(1, Ordering::Relaxed);
        let got = run_impl(&self.acts, &history);
        let hist_text: Vec<&str> = history.iter().map(|&i| self.acts[i as usize].text.as_str()).collect();
        let mut fail = |what: &str, expected: String, observed: String| {
            self.shared.violations.lock().unwrap().push(Violation {
                sig: format!("C13|{what}|action={}", act.text.replace('|', "/")),
                detail: json!({"kind": "cell_history", "setup": SETUP, "history": hist_text, "expected": expected, "observed": observed}),
            });
        };
        if let Eff::Rejected = act.eff {
            match got {
                ImplOut::Rejected(_) => {
                    self.shared.rejected_as_expected.fetch_add(1, Ordering::Relaxed);
                }
                ImplOut::Ran(r, _, heap) => fail("ill-typed-assignment-accepted", "rejected by the checker".into(), format!("ran: {r:?}; heap {heap}")),
                ImplOut::Panic(p) => fail("panic", "rejected by the checker".into(), p),
                ImplOut::Exhausted => {}
            }
            return None;
        }
        let expect = reference(&act.eff, s.c1, &s.c2);
        // g's effect on c1 persists even when the update itself fails
        let (e1, e2) = match (&expect, &act.eff) {
            (Ok((n1, n2, _)), _) => (*n1, n2.clone()),
            (Err(_), Eff::Comp1(_, Src::G)) => (s.c1.wrapping_add(10), s.c2.clone()),
            (Err(_), _) => (s.c1, s.c2.clone()),
        };
        let want_heap = format!("c1={} c2={}", e1, e2.canon());
        let want_obs = format!("({e1}, {e1}, {e1}, {e1}, {e1}, {}, {})", e2.canon(), e2.canon());
        let mut ok = true;
        match got {
            ImplOut::Rejected(k) => {
                fail("well-typed-action-rejected", format!("{expect:?}"), format!("rejected:{k}"));
                return None;
            }
            ImplOut::Panic(p) => {
                fail("panic", format!("{expect:?}"), p);
                ok = false;
            }
            ImplOut::Exhausted => return None,
            ImplOut::Ran(res, obs, heap) => {
                self.shared.outcomes.lock().unwrap().insert(format!("{res:?}").chars().take(30).collect());
                match (&expect, &res) {
                    (Ok((_, _, want)), Ok(r)) => {
                        if r != want {
                            fail("wrong-result-of-step", want.clone(), r.clone());
                            ok = false;
                        }
                        if obs != want_obs {
                            fail("aliases-disagree-or-wrong-content", want_obs.clone(), obs);
                            ok = false;
                        }
                    }
                    (Err(kind), Err(k)) => {
                        if k != kind {
                            fail("wrong-error-kind", kind.to_string(), k.clone());
                            ok = false;
                        } else {
                            self.shared.errors_as_expected.fetch_add(1, Ordering::Relaxed);
                        }
                    }
                    (e, r) => {
                        fail("error-vs-value", format!("{e:?}"), format!("{r:?}"));
                        ok = false;
                    }
                }
                if heap != want_heap {
                    fail("heap-differs-from-reference", want_heap.clone(), heap);
                    ok = false;
                }
            }
        }
        if expect.is_err() {
            // a failed update is a terminal observation of this history; the heap was compared above
            return None;
        }
        Some(St { c1: e1, c2: e2, ok, history })
    }

    fn properties(&self) -> Vec<Property<Self>> {
        // divergences are collected (all of them, with details) by next_state; the
        // search keeps going after one, so the invariant is reported through `ok` states
        // only in the evidence, never used to stop early
        vec![Property::always("search-keeps-going", |_, _| true)]
    }
}

// ------------------------------------------------------------------- static side

/// reference rule: `c op= v` with c: mut T is admitted iff `t op v` is defined for T and its
/// result type is T again; `c = v` iff v's type matches T
fn static_side(report: &mut Report) -> (u64, u64) {
    let cells: &[(&str, &[&str])] = &[
        ("int", &["int"]),
        ("float", &["float"]),
        ("string", &["string"]),
        ("bool", &["bool"]),
        ("[int]", &["[int]"]),
        ("[any]", &["[any]"]),
        ("int | float", &["int", "float"]),
        ("int | string", &["int", "string"]),
        ("any", &["any"]),
    ];
    let rhs: &[&str] = &["int", "float", "string", "bool", "[int]", "[string]", "[]", "int | float", "any", "()"];
    let ops = ["=", "+=", "-=", "*=", "/=", "%=", "**=", "<<=", ">>=", "&=", "|=", "^="];
    // result type of `t op v` for single (non-union) t and v, or None if undefined
    fn op_result(op: &str, t: &str, v: &str) -> Option<String> {
        let num = |x: &str| x == "int" || x == "float";
        let arr = |x: &str| x.starts_with('[');
        match op {
            "+" => {
                if t == v && (num(t) || t == "string") {
                    Some(t.into())
                } else if arr(t) && arr(v) {
                    // [T] + [S] = [T|S]: stays within [T] only if S <= T
                    let et = &t[1..t.len() - 1];
                    let ev = &v[1..v.len() - 1];
                    if ev.is_empty() || et == "any" || et == ev {
                        Some(t.into())
                    } else {
                        Some(format!("[{et}|{ev}]"))
                    }
                } else {
                    None
                }
            }
            "-" | "*" | "/" | "**" => (t == v && num(t)).then(|| t.to_string()),
            "%" | "<<" | ">>" => (t == "int" && v == "int").then(|| "int".to_string()),
            "&" | "|" | "^" => (t == v && (t == "int" || t == "bool")).then(|| t.to_string()),
            _ => None,
        }
    }
    let interp = Interpreter::with_stdlib();
    let (mut n, mut accepted) = (0u64, 0u64);
    for (cell, members) in cells {
        for v in rhs {
            for op in ops {
                n += 1;
                let cell_ty = if cell.contains('|') { format!("mut ({cell})") } else { format!("mut {cell}") };
                let text = format!("f := (c: {cell_ty}, v: {v}) -> any {{ return c {op} v }}");
                let got = match guard(|| Code::parse(&interp, &text)) {
                    Ok(Ok(_)) => true,
                    Ok(Err(_)) => false,
                    Err(_) => {
                        report.violation(Violation {
                            sig: format!("C13|static|panic|cell={}|op={op}|rhs={}", cell.replace('|', "/"), v.replace('|', "/")),
                            detail: json!({"kind": "program", "stdlib": true, "text": text}),
                        });
                        continue;
                    }
                };
                let v_members: Vec<&str> = if *v == "int | float" { vec!["int", "float"] } else { vec![v] };
                let want = if op == "=" {
                    // every possible value of v must fit the content type
                    *cell == "any" || v_members.iter().all(|vm| members.contains(vm) || (cell.starts_with('[') && (*vm == "[]" || (*cell == "[any]" && vm.starts_with('[')))))
                } else if *cell == "any" || *v == "any" {
                    false
                } else {
                    let bare = op.trim_end_matches('=');
                    members.iter().all(|t| {
                        v_members.iter().all(|vm| match op_result(bare, t, vm) {
                            Some(r) => members.contains(&r.as_str()) || r == *cell,
                            None => false,
                        })
                    })
                };
                if got {
                    accepted += 1;
                }
                if got != want {
                    report.violation(Violation {
                        sig: format!("C13|static|{}|cell={}|op={op}|rhs={}", if got { "accepted-but-reference-rejects" } else { "rejected-but-reference-accepts" }, cell.replace('|', "/"), v.replace('|', "/")),
                        detail: json!({"kind": "program", "stdlib": true, "text": text, "accepted": got, "reference_accepts": want}),
                    });
                }
            }
        }
    }
    // mut T arguments are invariant
    for (param, arg, want) in [
        ("mut int", "mut int 1", true),
        ("mut (int | float)", "mut int 1", false),
        ("mut int", "mut int | float 1", false),
        ("mut (int | float)", "mut float | int 1", true),
        ("mut any", "mut int 1", false),
        ("mut [int]", "mut [int] []", true),
        ("mut [int]", "mut []", false),
        ("mut [any]", "mut [int] []", false),
        ("any", "mut int 1", true),
        ("mut int | mut float", "mut float 1.5", true),
    ] {
        n += 1;
        let text = format!("f := (p: {param}) -> any {{ return p }}; f({arg})");
        let got = matches!(guard(|| Code::parse(&interp, &text)), Ok(Ok(_)));
        if got {
            accepted += 1;
        }
        if got != want {
            report.violation(Violation {
                sig: format!("C13|static|mut-invariance|param={}|arg={}", param.replace('|', "/"), arg.replace('|', "/")),
                detail: json!({"kind": "program", "stdlib": true, "text": text, "accepted": got, "reference_accepts": want}),
            });
        }
    }
    (n, accepted)
}

/// aliasing scenarios with closed-form expectations: cells created in loops and functions,
/// repeated, passed as arguments, captured, stored in cells, structs, arrays and tuples
const SCENARIOS: &[(&str, &str)] = &[
    ("fresh := () -> mut int { return mut 0 }; a := fresh(); b := fresh(); a += 1; (*a, *b, a == b, a == a)", "(1, 0, false, true)"),
    ("cells := mut [any] []; k := mut 0; while *k < 3 { k += 1; cells += [mut *k] }; arr := *cells; first := arr[0]; (first == arr[1], arr[0] == first)", "(false, true)"),
    ("rep := [mut 7; 2]; x := rep[0]; x += 1; y := rep[1]; (*y, x == y)", "(8, true)"),
    ("bump := (p: mut int) -> int { p += 1; return *p }; c := mut 5; r := (bump(c), bump(c)); (r, *c)", "((6, 7), 7)"),
    ("set := (p: mut (int | string), v: int | string) -> any { return p = v }; c := mut int | string 1; r := (set(c, \"s\"), *c, set(c, 4), *c); r", "(\"s\", \"s\", 4, 4)"),
    ("c := mut 1; t := (c, [c], struct{ f := c }); q := t.0; q += 1; w := t.1[0]; w *= 10; z := t.2.f; z -= 1; (*c, *q, *w, *z)", "(19, 19, 19, 19)"),
    ("c := mut 1; cc := mut c; inner := *cc; inner += 1; d := mut 50; cc = d; other := *cc; other += 1; (*c, *d, *cc == d, *cc == c)", "(2, 51, true, false)"),
    ("mk := () -> () -> int { c := mut 0; return () -> int { c += 1; return *c } }; f := mk(); g := mk(); (f(), f(), g(), f())", "(1, 2, 1, 3)"),
    ("c := mut 0; incs := [() -> int { c += 1; return *c }, () -> int { c += 10; return *c }]; (incs[0](), incs[1](), incs[0](), *c)", "(1, 11, 12, 12)"),
    ("c := mut [int] []; c += [1]; snapshot := *c; c += [2]; (snapshot, *c)", "([1], [1, 2])"),
    ("c := mut 3; r := c *= c += 1; (r, *c)", "(16, 16)"),
    ("c := mut 3; g := () -> int { c = 100; return 1 }; r := c += g(); (r, *c)", "(101, 101)"),
    ("c := mut 3; g := () -> int { c = 100; return 0 }; r := c /= g(); r", "error:ZeroDivision"),
    ("c := mut 3; r := (c <<= 64); r", "error:OverflowShift"),
    ("c := mut 3; x := *c; c += 1; (x, *c)", "(3, 4)"),
    ("f := (p: mut int) -> mut int { return p }; c := mut 1; d := f(c); d += 1; (*c, c == d)", "(2, true)"),
    ("c := mut (int, int) (1, 2); c = ((*c).1, (*c).0); *c", "(2, 1)"),
    ("c := mut () ->  int () -> int { return 1 }; before := (*c)(); c = () -> int { return 2 }; (before, (*c)())", "(1, 2)"),
];

/// `mut` written where it is evaluated once per run of the program: at top level, in a block, in a
/// branch, in the condition of a loop, typed and untyped, over a literal, a bound constant and a
/// computed value. The parsed program is run three times: every run starts from fresh cells.
const FRESH_PER_RUN: &[(&str, &str)] = &[
    ("c := mut 0; c += 1; *c", "1"),
    ("c := mut int 5; c += 1; *c", "6"),
    ("k := 7; c := mut k; c += 1; *c", "8"),
    ("c := mut int | float 1; c = 2.5; *c", "f2.5"),
    ("c := mut [int] []; c += [1]; *c", "[1]"),
    ("c := mut [1]; c += [2]; *c", "[1, 2]"),
    ("c := mut \"a\"; c += \"b\"; *c", "\"ab\""),
    ("c := { mut 0 }; c += 1; *c", "1"),
    ("c := if true { mut 0 } else { mut 10 }; c += 1; *c", "1"),
    ("t := (mut 0, mut 0); x := t.0; x += 1; y := t.1; (*x, *y)", "(1, 0)"),
    ("a := [mut 0]; x := a[0]; x += 1; *x", "1"),
    ("s := struct{ f := mut 0 }; x := s.f; x += 1; *x", "1"),
    ("c := mut mut 0; i := *c; i += 1; *(*c)", "1"),
    ("n := mut 0; while *(mut 0) == 0 && *n < 2 { n += 1 }; *n", "2"),
    ("get := () -> int { return *(mut 3) }; c := mut 0; c += get(); *c", "3"),
    ("c := mut 0; bump := () -> int { c += 1; return *c }; (bump(), bump())", "(1, 2)"),
    ("c := mut std.len([1, 2]); c += 1; *c", "3"),
];

fn scenarios(report: &mut Report) -> u64 {
    for (text, want) in SCENARIOS {
        let o = core::run_text(text, true, core::QUICK_FUEL);
        let got = match &o {
            core::Outcome::Value(v) => canon(v),
            other => other.tag(),
        };
        if got != *want {
            report.violation(Violation {
                sig: format!("C13|scenario|{}", text.chars().take(60).collect::<String>().replace('|', "/")),
                detail: json!({"kind": "program", "stdlib": true, "text": text, "expected": want, "observed": got}),
            });
        }
    }
    // one parsed program, several runs (also of the scenarios above): fresh cells every time, and
    // a cell yielded by one run is not the cell yielded by another
    let interp = Interpreter::with_stdlib();
    let mut n = 0u64;
    for (text, want) in FRESH_PER_RUN.iter().chain(SCENARIOS.iter()) {
        let Ok(Ok(code)) = guard(|| Code::parse(&interp, text)) else {
            report.violation(Violation { sig: format!("C13|fresh-per-run|not-accepted|{}", text.chars().take(50).collect::<String>().replace('|', "/")), detail: json!({"kind": "program", "stdlib": true, "text": text}) });
            continue;
        };
        let mut seen = Vec::new();
        for _ in 0..3 {
            n += 1;
            seen.push(match guard(|| code.exec()) {
                Ok(Ok(v)) => canon(&v),
                Ok(Err(e)) => format!("error:{}", core::exec_error_kind(&e)),
                Err(_) => "panic".into(),
            });
        }
        if seen.iter().any(|g| g != want) {
            report.violation(Violation {
                sig: format!("C13|fresh-per-run|{}", text.chars().take(60).collect::<String>().replace('|', "/")),
                detail: json!({"kind": "program", "stdlib": true, "text": text, "note": "one Code::parse, three Code::exec", "expected_every_run": want, "observed_runs": seen}),
            });
        }
    }
    for text in ["mut 0", "c := mut int 5; c", "k := 1; mut k", "[mut 0]", "(mut 0, 1)", "{ mut 0 }"] {
        let Ok(Ok(code)) = guard(|| Code::parse(&interp, text)) else { continue };
        n += 2;
        if let (Ok(Ok(a)), Ok(Ok(b))) = (guard(|| code.exec()), guard(|| code.exec())) {
            let mut cells = (Vec::new(), Vec::new());
            collect_cells(&a, &mut cells.0);
            collect_cells(&b, &mut cells.1);
            if cells.0.iter().any(|x| cells.1.contains(x)) || cells.0.is_empty() {
                report.violation(Violation {
                    sig: format!("C13|fresh-per-run|two-runs-yield-one-cell|{text}"),
                    detail: json!({"kind": "program", "stdlib": true, "text": text, "note": "one Code::parse, two Code::exec: the cells in the two results must be different cells"}),
                });
            }
        }
    }
    SCENARIOS.len() as u64 + n
}

/// addresses of the cells reachable from a value (through arrays, tuples, structs)
fn collect_cells(v: &Variable, out: &mut Vec<usize>) {
    match v {
        Variable::Mut(m) => out.push(Arc::as_ptr(m) as usize),
        Variable::Array(a) => a.iter().for_each(|x| collect_cells(x, out)),
        Variable::Tuple(t) => t.iter().for_each(|x| collect_cells(x, out)),
        Variable::Struct(s) => s.values().for_each(|x| collect_cells(x, out)),
        _ => {}
    }
}

/// Cells created from values that reach the `mut` through a parameter or a capture: whatever
/// the route (function body, closure made at run time, closure returned to the host, typed
/// creation, cell inside an array), the cell's run-time type is the static type `mut T` -
/// not a narrower one taken from the value that happened to be captured - and after an
/// assignment of any other T it holds that value.
fn closure_made_cells(report: &mut Report) -> u64 {
    use crate::ty::normal;
    // (type, is a union at top level, values)
    let types: &[(&str, bool, &[&str])] = &[
        ("int | float", true, &["1", "2.5"]),
        ("int | string", true, &["1", "\"s\""]),
        ("any", false, &["1", "\"s\"", "[1]", "()"]),
        ("[int] | string", true, &["[1]", "\"s\"", "[]"]),
        ("[int | float]", false, &["[1]", "[2.5]", "[]"]),
        ("(int | float, int)", false, &["(1, 1)", "(2.5, 2)"]),
        ("int", false, &["1", "2"]),
    ];
    let forms: &[(&str, &str, bool)] = &[
        ("function body", "f := (x: T, w: T) -> any { c := mut x; c = w; return c }", false),
        ("closure called inside", "f := (x: T, w: T) -> any { g := () -> any { c := mut x; c = w; return c }; return g() }", false),
        ("closure returned", "f := (x: T) -> (T) -> any { return (w: T) -> any { c := mut x; c = w; return c } }", true),
        ("typed creation in a closure", "f := (x: T) -> (T) -> any { return (w: T) -> any { c := mut T x; c = w; return c } }", true),
        ("cell in an array in a closure", "f := (x: T) -> (T) -> any { return (w: T) -> any { cs := [mut x]; cs[0] = w; return cs[0] } }", true),
        ("nested closure", "f := (x: T) -> (T) -> any { return (w: T) -> any { h := () -> any { c := mut x; c = w; return c }; return h() } }", true),
    ];
    let interp = Interpreter::with_stdlib();
    let mut n = 0u64;
    for (t, is_union, vals) in types {
        let paren = if *is_union { format!("({t})") } else { t.to_string() };
        let want_ty = normal(&Ty::from_impl(&format!("mut {paren}").parse::<Type>().expect("C13 cell type parses")));
        for (fname, ftext, curried) in forms {
            let text = ftext.replace("T", t);
            let f = match guard(|| Code::parse(&interp, &text).map(|c| c.exec())) {
                Ok(Ok(Ok(Variable::Function(f)))) => f,
                other => {
                    report.violation(Violation {
                        sig: format!("C13|cell-made-from-captured-value|program-fails|{fname}|T={}", t.replace('|', "/")),
                        detail: json!({"kind": "program", "stdlib": true, "text": text, "observed": format!("{:?}", other.map(|r| r.map(|x| x.map(|v| canon(&v)))))}),
                    });
                    continue;
                }
            };
            for v in vals.iter() {
                for w in vals.iter() {
                    n += 1;
                    let mk = |src: &str| Code::parse(&interp, src).unwrap().exec().unwrap();
                    let run = || -> Result<Variable, String> {
                        let call = |f: &Arc<simplesl::function::Function>, args: Vec<Variable>| match guard(|| f.clone().create_call(args).map(|c| c.exec())) {
                            Ok(Ok(Ok(r))) => Ok(r),
                            other => Err(format!("{:?}", other.map(|r| r.map(|x| x.map(|v| canon(&v)))))),
                        };
                        if *curried {
                            match call(&f, vec![mk(v)])? {
                                Variable::Function(g) => call(&g, vec![mk(w)]),
                                other => Err(format!("not a function: {}", canon(&other))),
                            }
                        } else {
                            call(&f, vec![mk(v), mk(w)])
                        }
                    };
                    let (ok, observed) = match run() {
                        Ok(Variable::Mut(cell)) => {
                            let tag = normal(&Ty::mutc(Ty::from_impl(&cell.var_type)));
                            let content = cell.variable.read().map(|g| canon(&g)).unwrap_or_else(|_| "<poisoned>".into());
                            let want_content = canon(&mk(w));
                            (tag == want_ty && content == want_content, format!("cell of type {} holding {content}", tag.print()))
                        }
                        Ok(other) => (false, format!("not a cell: {}", canon(&other))),
                        Err(e) => (false, e),
                    };
                    if !ok {
                        report.violation(Violation {
                            sig: format!("C13|cell-made-from-captured-value|{fname}|T={}|first={v}|then={w}", t.replace('|', "/")),
                            detail: json!({"kind": "host_call", "program": text, "args": if *curried { vec![format!("f({v})({w})")] } else { vec![v.to_string(), w.to_string()] }, "expected": format!("cell of type {} holding {}", want_ty.print(), canon(&mk(w))), "observed": observed}),
                        });
                    }
                }
            }
        }
    }
    n
}

/// Content stays in the declared type, by whatever typed route the cell reaches a store: a cell
/// declared `A` is handed to code that stores through a position declared `B` (wider content
/// type, or the same as a control) - as a parameter, through a callee whose static type is a
/// union of function types (made by if / match / a declared result / an array / a parameter),
/// inside an array, struct, tuple or cell, through a declared result type, a typed declaration,
/// a type arm, an if-set, `? B`, callbacks of @ and $ and a returned closure. Every program the
/// checker accepts and that runs leaves the cell holding a member of `A`; with `B` = `A` every
/// route is accepted and the stored value arrives.
fn typed_routes_grid(report: &mut Report) -> (u64, u64, u64) {
    // (cell, its type A, slot type B, value stored through the slot, is the control pair)
    const PAIRS: &[(&str, &str, &str, &str, bool)] = &[
        ("mut 1", "mut int", "mut int", "5", true),
        ("mut int | float 1", "mut (int | float)", "mut (int | float)", "2.5", true),
        ("mut [int] [1]", "mut [int]", "mut [int]", "[5]", true),
        ("mut 1", "mut int", "mut (int | float)", "2.5", false),
        ("mut 1", "mut int", "mut any", "\"s\"", false),
        ("mut 1", "mut int", "mut (int | string)", "\"s\"", false),
        ("mut int | float 1", "mut (int | float)", "mut any", "\"s\"", false),
        ("mut int | float 1", "mut (int | float)", "mut (int | float | string)", "\"s\"", false),
        ("mut int | float 1", "mut (int | float)", "mut int", "5", false),
        ("mut [int] [1]", "mut [int]", "mut [any]", "[\"s\"]", false),
        ("mut [int] [1]", "mut [int]", "mut [int | float]", "[2.5]", false),
    ];
    const FNS: &str = "wide := (p: B) -> () { p = W }; narrow := (p: A) -> () { }; flag := mut true; c := CELL;";
    const ROUTES: &[(&str, &str)] = &[
        ("parameter", "w := (p: B) -> () { p = W }; c := CELL; w(c); c"),
        ("callee chosen by if between function types", "FNS h := if *flag wide else narrow; h(c); c"),
        ("callee chosen by if, other order", "FNS h := if !(*flag) narrow else wide; h(c); c"),
        ("callee chosen by match", "FNS h := match *flag { true => wide, => narrow, }; h(c); c"),
        ("callee from a function with a union result", "FNS pick := (first: bool) -> (B) -> () | (A) -> () { if first { return wide }; return narrow }; pick(true)(c); c"),
        ("callee from an array of both", "FNS hs := [narrow, wide]; i := std.len([0]); hs[i](c); c"),
        ("callee passed as a union-typed parameter", "FNS app := (h: (B) -> () | (A) -> (), x: A) -> () { h(x) }; app(wide, c); c"),
        ("callee read from a cell of union function type", "FNS hc := mut (B) -> () | (A) -> () narrow; hc = wide; (*hc)(c); c"),
        ("callee from a struct field chosen at run time", "FNS s := if *flag struct{ h := wide } else struct{ h := narrow }; s.h(c); c"),
        ("array element", "w := (ps: [B]) -> () { q := ps[0]; q = W }; c := CELL; w([c]); c"),
        ("struct field", "w := (s: struct{f: B}) -> () { q := s.f; q = W }; c := CELL; w(struct{ f := c }); c"),
        ("tuple component", "w := (t: (B, int)) -> () { q := t.0; q = W }; c := CELL; w((c, 1)); c"),
        ("cell in a cell", "w := (cc: mut B) -> () { q := *cc; q = W }; c := CELL; w(mut c); c"),
        ("declared result type", "g := (p: A) -> B { return p }; c := CELL; q := g(c); q = W; c"),
        ("typed declaration of an outer cell", "c := CELL; cc := mut B c; q := *cc; q = W; c"),
        ("type arm", "c := CELL; x := [c, 1][0]; match x { q: B => { q = W }, => { }, }; c"),
        ("if-set", "c := CELL; x := [c, 1][0]; if q: B = x { q = W }; c"),
        ("type filter", "c := CELL; for q in [c, 1]~ ? B { q = W }; c"),
        ("map callback", "c := CELL; r := [c]~ @ (p: B) -> int { p = W; return 0 } $]; c"),
        ("reduce callback", "c := CELL; r := [c]~ $ 0 (acc: any, p: B) -> int { p = W; return 0 }; c"),
        ("returned closure", "mk := () -> (B) -> () { return (p: B) -> () { p = W } }; c := CELL; mk()(c); c"),
        ("function stored in a typed cell", "c := CELL; fc := mut (A) -> () (p: B) -> () { p = W }; (*fc)(c); c"),
        ("array of cells declared wider", "c := CELL; cs := mut [B] [c]; q := (*cs)[0]; q = W; c"),
    ];
    let (mut n, mut ran, mut rejected) = (0u64, 0u64, 0u64);
    for (cell, a, b, w, control) in PAIRS {
        for (rname, rtext) in ROUTES {
            n += 1;
            let text = rtext.replace("FNS", FNS).replace("CELL", cell).replace('A', a).replace('B', b).replace('W', w);
            let o = core::run_text(&text, true, core::QUICK_FUEL);
            let label = format!("{rname}|cell={}|slot={}", a.replace(" | ", "/"), b.replace(" | ", "/"));
            match &o {
                core::Outcome::Value(Variable::Mut(m)) => {
                    ran += 1;
                    let content = m.variable.read().map(|g| g.clone()).ok();
                    let declared = Ty::from_impl(&m.var_type);
                    let in_type = content.as_ref().is_some_and(|v| belongs(v, &declared));
                    let shown = content.as_ref().map(canon).unwrap_or_else(|| "<poisoned>".into());
                    if !in_type {
                        report.violation(Violation {
                            sig: format!("C13|typed-route|content-outside-declared-type|{label}"),
                            detail: json!({"kind": "program", "stdlib": true, "text": text, "cell_declared": declared.print(), "content_afterwards": shown, "expected": "rejected by the checker, or the content still a member of the declared type"}),
                        });
                    } else if *control && shown != canon(&Code::parse(&Interpreter::with_stdlib(), w).unwrap().exec().unwrap()) {
                        report.violation(Violation {
                            sig: format!("C13|typed-route|store-through-the-route-lost|{label}"),
                            detail: json!({"kind": "program", "stdlib": true, "text": text, "expected_content": w, "content_afterwards": shown}),
                        });
                    }
                }
                core::Outcome::Rejected(..) if !*control => rejected += 1,
                other => {
                    if *control || !matches!(other, core::Outcome::Rejected(..)) {
                        report.violation(Violation {
                            sig: format!("C13|typed-route|{}|{label}", if *control { "control-not-run" } else { "unexpected-outcome" }),
                            detail: json!({"kind": "program", "stdlib": true, "text": text, "observed": other.tag(), "expected": if *control { "accepted; the cell afterwards holds the stored value" } else { "rejected, or run to the end" }}),
                        });
                    }
                }
            }
        }
    }
    (n, ran, rejected)
}

/// An assignment is an expression: what `c = v` / `c op= v` yields is typed, and that type holds
/// the value yielded (the stored content) - for cells whose declared content type is wider than
/// the operand's. Every (cell type, content, operator, operand) x every use of the assignment's
/// value where its static type matters: as the program's value, stored into a cell declared with
/// the operand's type, given to `mut`, returned from a function declared with the operand's type,
/// passed as an argument. Accepted and run => the value is in the program's static type and every
/// cell reachable from it holds a member of its declared type.
fn assignment_value_grid(report: &mut Report) -> (u64, u64) {
    use crate::ty::cells_well_typed;
    use simplesl::variable::ReturnType;
    // (cell content type, initial content, [(operator, operand, operand's own type)])
    const CASES: &[(&str, &str, &[(&str, &str, &str)])] = &[
        ("[int|float]", "[2.5]", &[("+=", "[1]", "[int]"), ("+=", "[]", "[int]"), ("=", "[1]", "[int]"), ("+=", "[1][1:]", "[int]")]),
        ("[any]", "[\"s\"]", &[("+=", "[1]", "[int]"), ("=", "[1]", "[int]"), ("+=", "[]", "[string]")]),
        ("int|float", "2.5", &[("=", "1", "int"), ("=", "2.5", "float")]),
        ("any", "\"s\"", &[("=", "1", "int"), ("=", "[1]", "[int]")]),
        ("[int]|string", "\"s\"", &[("=", "[1]", "[int]"), ("=", "\"t\"", "string")]),
        ("[int]", "[1]", &[("+=", "[2]", "[int]"), ("+=", "[]", "[int]"), ("=", "[]", "[int]")]),
        ("string", "\"a\"", &[("+=", "\"b\"", "string")]),
        ("int", "5", &[("+=", "1", "int"), ("<<=", "1", "int"), ("%=", "3", "int"), ("/=", "2", "int")]),
        ("float", "1.5", &[("*=", "2.0", "float"), ("/=", "0.0", "float")]),
    ];
    const USES: &[(&str, &str)] = &[
        ("program value", "c := mut CT INIT; c OP RHS"),
        ("bound then yielded", "c := mut CT INIT; r := (c OP RHS); r"),
        ("stored into a cell of the operand's type", "c := mut CT INIT; e := mut RT RHS; e = (c OP RHS); e"),
        ("given to mut", "c := mut CT INIT; m := mut (c OP RHS); m"),
        ("returned from a function of the operand's type", "f := () -> RT { c := mut CT INIT; return c OP RHS }; f()"),
        ("passed for a parameter of the operand's type", "g := (p: RT) -> RT { return p }; c := mut CT INIT; g(c OP RHS)"),
        ("element of an array stored in a cell", "c := mut CT INIT; e := mut [RT] [RHS]; e = [c OP RHS]; e"),
        ("through a parameter cell", "f := (c: mut PCT) -> any { e := mut RT RHS; e = (c OP RHS); return e }; f(mut CT INIT)"),
    ];
    let interp = Interpreter::with_stdlib();
    let (mut n, mut ran) = (0u64, 0u64);
    for (ct, init, ops) in CASES {
        for (op, rhs, rt) in ops.iter() {
            for (uname, utext) in USES {
                n += 1;
                let pct = if ct.contains('|') && !ct.starts_with('[') { format!("({ct})") } else { ct.to_string() };
                let text = utext.replace("PCT", &pct).replace("CT", ct).replace("INIT", init).replace("OP", op).replace("RHS", rhs).replace("RT", rt);
                let code = match guard(|| Code::parse(&interp, &text)) {
                    Ok(Ok(c)) => c,
                    Ok(Err(_)) => continue,
                    Err(_) => {
                        report.violation(Violation { sig: format!("C13|assignment-value|parse-panics|{uname}"), detail: json!({"kind": "program", "stdlib": true, "text": text}) });
                        continue;
                    }
                };
                let Ok(sty) = guard(|| code.return_type()) else { continue };
                let v = match guard(|| code.exec()) {
                    Ok(Ok(v)) => v,
                    Ok(Err(_)) => continue,
                    Err(_) => {
                        report.violation(Violation { sig: format!("C13|assignment-value|run-panics|{uname}|cell={}|{op}", ct.replace('|', "/")), detail: json!({"kind": "program", "stdlib": true, "text": text}) });
                        continue;
                    }
                };
                ran += 1;
                let in_static = belongs(&v, &Ty::from_impl(&sty));
                let cells_ok = cells_well_typed(&v);
                if !in_static || !cells_ok {
                    report.violation(Violation {
                        sig: format!("C13|assignment-value|{}|{uname}|cell={}|{op} {}", if cells_ok { "value-outside-static-type" } else { "cell-content-outside-declared-type" }, ct.replace('|', "/"), rt.replace('|', "/")),
                        detail: json!({"kind": "program", "stdlib": true, "text": text, "static_type": Ty::from_impl(&sty).print(), "value": crate::val::canon_typed(&v), "expected": "the value of an assignment is in its static type; every cell holds a member of its declared type"}),
                    });
                }
            }
        }
    }
    (n, ran)
}

/// runs the loom harnesses that share a cell (`loomcheck C13 <tier>`) and turns their verdicts into C13 violations
fn concurrent_updates(tier: &str, report: &mut Report) -> Result<(u64, u64), String> {
    let bin = crate::report::verif_root().join("loomcheck/target/release/loomcheck");
    if !bin.exists() {
        eprintln!("MACHINERY ERROR: {} is missing (run ./setup.sh or ./check C13)", bin.display());
        std::process::exit(2);
    }
    let out = std::process::Command::new(&bin).arg("C13").arg(tier).output().expect("start loomcheck");
    let stdout = String::from_utf8_lossy(&out.stdout);
    let Some(line) = stdout.lines().find_map(|l| l.strip_prefix("SUMMARY ")) else {
        // the loom harnesses did not run to a verdict (a harness whose own oracle statements the
        // implementation rejects, for instance): not a verdict of this part - the other parts of
        // the check still report what they found; without any finding the run is a machinery failure
        return Err(format!("loomcheck C13 gave no summary (exit {:?}): {}", out.status.code(), String::from_utf8_lossy(&out.stderr).lines().take(5).collect::<Vec<_>>().join(" / ")));
    };
    let v: serde_json::Value = serde_json::from_str(line).expect("loomcheck summary is JSON");
    for viol in v["violations"].as_array().cloned().unwrap_or_default() {
        report.violation(Violation {
            sig: format!("C13|concurrent-update-not-atomic|{}", viol["name"].as_str().unwrap_or("?")),
            detail: json!({"kind": "loom", "case_index": viol["case_index"], "name": viol["name"], "cells": viol["cells"], "setup": viol["setup"], "threads": viol["threads"], "observed": viol["observed"], "replay": "./check C16 --replay <this file> re-runs the harness"}),
        });
    }
    Ok((v["harnesses"].as_u64().unwrap_or(0), v["schedules"].as_u64().unwrap_or(0)))
}

/// `c = v` stores v and yields v - v itself, not a value that merely compares equal to it: for
/// every content type, every ordered pair (u, v) of values of that type (among them pairs that
/// `==` cannot tell apart: 0.0 / -0.0, empty arrays of different element types, containers of
/// them), a cell holding u is assigned v, with v written as a literal and passed at run time;
/// the value the assignment yields and the content read back are compared with v by contents,
/// float sign and run-time type tag.
fn store_grid(report: &mut Report) -> u64 {
    use crate::ty::Ty;
    use simplesl::variable::Typed;
    const CELLS: &[(&str, &[&str])] = &[
        ("float", &["0.0", "(-0.0)", "1.5", "(0.0 / 0.0)", "(1.0 / 0.0)"]),
        ("int|float", &["0", "0.0", "(-0.0)", "1"]),
        ("[int]|[float]", &["[0; 0]", "[0.0; 0]", "[1]", "[1.0]"]),
        ("[int|float]", &["[0; 0]", "[0.0; 0]", "[1][0:0]", "[1, 2.5][0:0]", "[1, 2.5]"]),
        ("(float, int)", &["(0.0, 1)", "((-0.0), 1)", "(1.5, 1)"]),
        ("struct{a: float}", &["struct{ a := 0.0 }", "struct{ a := (-0.0) }"]),
        ("[float]", &["[0.0]", "[(-0.0)]", "[0.0; 0]"]),
        ("string", &["\"\"", "\"a\""]),
        ("any", &["0", "0.0", "(-0.0)", "[0; 0]", "[0.0; 0]", "[\"\"; 0]", "()", "\"\"", "false", "([0; 0], 0.0)", "([0.0; 0], (-0.0))"]),
    ];
    let interp = Interpreter::with_stdlib();
    let strict = |v: &Variable| format!("{} :: {}", canon(v), Ty::from_impl(&v.as_type()).print());
    let mut n = 0u64;
    for (cell, vals) in CELLS {
        let cell_ty = if cell.contains('|') && !cell.starts_with('[') || cell.contains("]|[") { format!("({cell})") } else { cell.to_string() };
        let f_text = format!("f := (c: mut {cell_ty}, v: {cell}) -> any {{ r := (c = v); return (r, *c) }}");
        let f = match guard(|| Code::parse(&interp, &f_text).map(|c| c.exec())) {
            Ok(Ok(Ok(Variable::Function(f)))) => Some(f),
            _ => {
                report.violation(Violation { sig: format!("C13|store|program-fails|cell={}", cell.replace('|', "/")), detail: json!({"kind": "program", "stdlib": true, "text": f_text}) });
                None
            }
        };
        for u in vals.iter() {
            for v in vals.iter() {
                let Ok(Ok(Ok(want_v))) = guard(|| Code::parse(&interp, v).map(|c| c.exec())) else { continue };
                let want = format!("({}, {})", strict(&want_v), strict(&want_v));
                let lit_text = format!("c := mut {cell} {u}; r := (c = {v}); (r, *c)");
                let rt_text = format!("{f_text}; f(mut {cell} {u}, {v})");
                let mut forms = vec![("literal", lit_text.clone(), guard(|| Code::parse(&interp, &lit_text).map(|c| c.exec()))), ("parameter", rt_text.clone(), guard(|| Code::parse(&interp, &rt_text).map(|c| c.exec())))];
                if let Some(f) = &f {
                    let cell_text = format!("mut {cell} {u}");
                    if let (Ok(Ok(Ok(cv))), Ok(Ok(Ok(vv)))) = (guard(|| Code::parse(&interp, &cell_text).map(|c| c.exec())), guard(|| Code::parse(&interp, v).map(|c| c.exec()))) {
                        forms.push(("host-call", format!("{f_text} with ({cell_text}, {v})"), guard(|| f.clone().create_call(vec![cv, vv]).map(|c| c.exec()))));
                    }
                }
                for (form, text, got) in forms {
                    n += 1;
                    let got = match got {
                        Ok(Ok(Ok(Variable::Tuple(t)))) if t.len() == 2 => format!("({}, {})", strict(&t[0]), strict(&t[1])),
                        Ok(Ok(Ok(o))) => format!("unexpected value {}", canon(&o)),
                        Ok(Ok(Err(e))) => format!("error:{}", core::exec_error_kind(&e)),
                        Ok(Err(e)) => format!("rejected:{}", core::error_kind(&e)),
                        Err(Stop::Panic(p)) => format!("PANIC {} @{}", p.short_msg(), p.file()),
                        Err(Stop::Exhausted) => continue,
                    };
                    if got != want {
                        report.violation(Violation {
                            sig: format!("C13|store|{form}|cell={}|old={u}|new={v}", cell.replace('|', "/")),
                            detail: json!({"kind": "program", "stdlib": true, "text": text, "expected (yielded, content)": want, "observed": got}),
                        });
                    }
                }
            }
        }
    }
    n
}

/// `c op= v` stores and yields exactly `*c op v` (the binary operator's own result: same value,
/// float sign, type tag, same failure, and on failure the cell keeps its content), for every
/// compound operator over typed value alphabets with the awkward members (0.0 / -0.0, infinities,
/// NaN, extreme ints, empty arrays of two element types, empty strings).
fn compound_grid(report: &mut Report) -> u64 {
    use crate::ty::Ty;
    use simplesl::variable::Typed;
    const CELLS: &[(&str, &[&str], &[&str])] = &[
        ("float", &["0.0", "(-0.0)", "1.5", "(-2.0)", "(0.0 / 0.0)", "(1.0 / 0.0)", "(-1.0 / 0.0)", "0.5"], &["+", "-", "*", "/", "**"]),
        ("int", &["0", "1", "(-1)", "2", "63", "64", "9223372036854775807", "(-9223372036854775807 - 1)"], &["+", "-", "*", "/", "%", "**", "<<", ">>", "&", "|", "^"]),
        ("bool", &["true", "false"], &["&", "|", "^"]),
        ("string", &["\"\"", "\"a\"", "\"é\""], &["+"]),
        ("[int]", &["[0; 0]", "[1]", "[1, 2]"], &["+"]),
        ("[int|float]", &["[0; 0]", "[0.0; 0]", "[1]", "[2.5]", "[1, 2.5]"], &["+"]),
    ];
    let interp = Interpreter::with_stdlib();
    let strict = |v: &Variable| format!("{} :: {}", canon(v), Ty::from_impl(&v.as_type()).print());
    let run = |text: &str| -> Result<String, String> {
        match guard(|| Code::parse(&interp, text).map(|c| c.exec())) {
            Ok(Ok(Ok(Variable::Tuple(t)))) => Ok(t.iter().map(|x| strict(x)).collect::<Vec<_>>().join(" ; ")),
            Ok(Ok(Ok(o))) => Ok(strict(&o)),
            Ok(Ok(Err(e))) => Err(format!("error:{}", core::exec_error_kind(&e))),
            // a constant operation that fails is reported when the program is parsed, with the same kind
            Ok(Err(e)) => Err(format!("error:{}", core::error_kind(&e))),
            Err(Stop::Panic(p)) => Err(format!("PANIC {} @{}", p.short_msg(), p.file())),
            Err(Stop::Exhausted) => Err("exhausted".into()),
        }
    };
    let mut n = 0u64;
    for (cell, vals, ops) in CELLS {
        for op in ops.iter() {
            for u in vals.iter() {
                for v in vals.iter() {
                    n += 1;
                    // the operator's own answer, on run-time operands (nothing for the folder to do)
                    let want = run(&format!("f := (a: {cell}, b: {cell}) -> any {{ return a {op} b }}; x := f({u}, {v}); (x, x)"));
                    let forms = [
                        ("literal", format!("c := mut {cell} {u}; r := (c {op}= {v}); (r, *c)")),
                        ("parameter", format!("f := (c: mut {cell_ty}, v: {cell}) -> any {{ r := (c {op}= v); return (r, *c) }}; f(mut {cell} {u}, {v})", cell_ty = if cell.contains('|') && !cell.starts_with('[') { format!("({cell})") } else { cell.to_string() })),
                    ];
                    for (form, text) in forms {
                        let got = run(&text);
                        if matches!(&got, Err(e) if e == "exhausted") || matches!(&want, Err(e) if e == "exhausted") {
                            continue;
                        }
                        if got != want {
                            report.violation(Violation {
                                sig: format!("C13|compound-store|{form}|cell={}|op={op}=|old={u}|operand={v}", cell.replace('|', "/")),
                                detail: json!({"kind": "program", "stdlib": true, "text": text, "expected (yielded ; content) = the binary operator's answer": format!("{want:?}"), "observed": format!("{got:?}")}),
                            });
                        }
                    }
                    // the right-hand side is evaluated exactly once, before the content is read: a
                    // value that counts its evaluations, and one that assigns the cell itself first
                    if let Ok(w) = &want {
                        let first = w.split(" ; ").next().unwrap_or("").to_string();
                        let self_want = run(&format!("f := (a: {cell}, b: {cell}) -> any {{ return a {op} b }}; x := f({v}, {v}); (x, x)"));
                        let effectful = [
                            (
                                "counting-value",
                                format!("n := mut 0; c := mut {cell} {u}; b := (x: {cell}) -> {cell_r} {{ n += 1; return x }}; r := (c {op}= b({v})); (r, *c, *n)", cell_r = if cell.contains('|') && !cell.starts_with('[') { format!("({cell})") } else { cell.to_string() }),
                                Ok(format!("{first} ; {first} ; 1 :: int")),
                            ),
                            (
                                "value-assigns-the-cell-first",
                                format!("c := mut {cell} {u}; s := (x: {cell}) -> {cell_r} {{ c = x; return x }}; r := (c {op}= s({v})); (r, *c)", cell_r = if cell.contains('|') && !cell.starts_with('[') { format!("({cell})") } else { cell.to_string() }),
                                self_want.clone(),
                            ),
                        ];
                        for (form, text, want2) in effectful {
                            if want2.is_err() {
                                continue;
                            }
                            let got = run(&text);
                            if matches!(&got, Err(e) if e == "exhausted") {
                                continue;
                            }
                            n += 1;
                            if got != want2 {
                                report.violation(Violation {
                                    sig: format!("C13|compound-store|{form}|cell={}|op={op}=|old={u}|operand={v}", cell.replace('|', "/")),
                                    detail: json!({"kind": "program", "stdlib": true, "text": text, "expected": format!("{want2:?}"), "observed": format!("{got:?}")}),
                                });
                            }
                        }
                    }
                    // a failing update leaves the content as it was
                    if want.is_err() {
                        let text = format!("f := (c: mut {cell}, v: {cell}) -> any {{ return (c {op}= v) }}; c := mut {cell} {u}; g := () -> any {{ return *c }}; (g, f, c)");
                        if let Ok(Ok(Ok(Variable::Tuple(t)))) = guard(|| Code::parse(&interp, &text).map(|c| c.exec())) {
                            if let (Variable::Function(f), Ok(Ok(Ok(arg)))) = (&t[1], guard(|| Code::parse(&interp, v).map(|c| c.exec()))) {
                                let _ = guard(|| f.clone().create_call(vec![t[2].clone(), arg]).map(|c| c.exec()));
                                let after = match &t[2] {
                                    Variable::Mut(m) => m.variable.read().map(|g| strict(&g)).unwrap_or_else(|_| "poisoned".into()),
                                    _ => "not a cell".into(),
                                };
                                let before = run(&format!("x := {u}; x")).unwrap_or_default();
                                if after != before {
                                    report.violation(Violation {
                                        sig: format!("C13|compound-store|failed-update-changed-the-cell|cell={cell}|op={op}=|old={u}|operand={v}"),
                                        detail: json!({"kind": "host_call", "program": format!("(c: mut {cell}, v: {cell}) -> any {{ return (c {op}= v) }}"), "args": [format!("mut {cell} {u}"), v], "expected_content": before, "observed_content": after}),
                                    });
                                }
                            }
                        }
                    }
                }
            }
        }
    }
    n
}

/// Which cell an assignment writes when its target is an expression: the cell the target denotes
/// when the assignment is reached (the target is evaluated, then the value, then the cell found
/// first is updated from its content at that moment) - also when evaluating the value changes what
/// the target expression would denote afterwards (an index, a cell holding the cell, a selector
/// function, a tuple / struct in a cell, a condition). Every target form x every assignment
/// operator, two cells a = 6 and b = 20, value 2 through a function that re-points the target.
fn target_expression_grid(report: &mut Report) -> (u64, u64) {
    const FORMS: &[(&str, &str, &str)] = &[
        ("index moved by the value", "arr := [a, b]; i := mut 0; v := () -> int { i += 1; return 2 };", "arr[*i]"),
        ("cell holding the cell, re-pointed by the value", "p := mut a; v := () -> int { p = b; return 2 };", "*p"),
        ("selector function", "n := mut 0; cells := [a, b]; pick := () -> mut int { return cells[*n] }; v := () -> int { n += 1; return 2 };", "pick()"),
        ("tuple in a cell, replaced by the value", "tc := mut (a, b); v := () -> int { tc = (b, a); return 2 };", "(*tc).0"),
        ("struct in a cell, replaced by the value", "sc := mut struct{ f := a }; v := () -> int { sc = struct{ f := b }; return 2 };", "(*sc).f"),
        ("condition flipped by the value", "flag := mut true; v := () -> int { flag = false; return 2 };", "(if *flag { a } else { b })"),
        ("match scrutinee moved by the value", "n := mut 0; v := () -> int { n += 1; return 2 };", "(match *n { 0 => a, => b, })"),
        ("array in a cell, replaced by the value", "ac := mut [a, b]; v := () -> int { ac = [b, a]; return 2 };", "(*ac)[0]"),
        ("plain name, re-declared by nothing (control)", "v := () -> int { b += 0; return 2 };", "a"),
    ];
    const OPS: &[(&str, i64)] = &[("=", 2), ("+=", 8), ("-=", 4), ("*=", 12), ("/=", 3), ("%=", 0), ("**=", 36), ("<<=", 24), (">>=", 1), ("&=", 2), ("|=", 6), ("^=", 4)];
    let mut n = 0u64;
    let mut accepted = 0u64;
    for (fname, pre, target) in FORMS {
        let mut form_accepted = 0;
        for (op, want_a) in OPS {
            for (wname, wrap) in [("statement", "r := TARGET OP v(); (r, *a, *b)"), ("in a function", "h := () -> int { return TARGET OP v() }; r := h(); (r, *a, *b)"), ("value is the program's", "x := (TARGET OP v()); (x, *a, *b)")] {
                let text = format!("a := mut 6; b := mut 20; {pre} {}", wrap.replace("TARGET", target).replace("OP", op));
                n += 1;
                let o = core::run_text(&text, true, core::QUICK_FUEL);
                let got = match &o {
                    core::Outcome::Value(v) => canon(v),
                    core::Outcome::Rejected(..) => continue,
                    other => other.tag(),
                };
                accepted += 1;
                form_accepted += 1;
                let want = format!("({want_a}, {want_a}, 20)");
                if got != want {
                    report.violation(Violation {
                        sig: format!("C13|assignment-writes-another-cell|{fname}|{op}|{wname}"),
                        detail: json!({"kind": "program", "stdlib": true, "text": text, "expected": want, "observed": got}),
                    });
                }
            }
        }
        if form_accepted == 0 && !fname.contains("condition") && !fname.contains("match") {
            report.violation(Violation {
                sig: format!("C13|assignment-writes-another-cell|form-never-accepted|{fname}"),
                detail: json!({"kind": "program", "stdlib": true, "text": format!("a := mut 6; b := mut 20; {pre} {target} += v()")}),
            });
        }
    }
    (n, accepted)
}

pub fn run(tier: &str) -> i32 {
    let thorough = tier == "thorough";
    let mut report = Report::new("C13", tier);
    let mut samples = Samples::new(8);
    crate::warm::warm();
    core::install_panic_hook();
    let acts = actions();
    let n_actions = acts.len();
    let shared = Arc::new(Shared {
        violations: Mutex::new(Vec::new()),
        transitions: AtomicU64::new(0),
        rejected_as_expected: AtomicU64::new(0),
        errors_as_expected: AtomicU64::new(0),
        outcomes: Mutex::new(Default::default()),
    });
    let depth = if thorough { 4 } else { 3 };
    samples.push(|| json!({"setup": SETUP, "history": [acts[9].text, acts[60].text, acts[0].text], "observation": OBSERVE}));
    let model = CellModel { acts, max_depth: depth, shared: shared.clone() };
    let checker = model.checker().threads(core::n_workers()).spawn_bfs().join();
    let unique = checker.unique_state_count();
    let generated = checker.state_count();
    let max_depth = checker.max_depth();
    let v = std::mem::take(&mut *shared.violations.lock().unwrap());
    report.violations(v);
    let (static_n, static_accepted) = core::on_big_stack(|| static_side(&mut report));
    let n_scenarios = core::on_big_stack(|| scenarios(&mut report));
    let typed_routes = core::on_big_stack(|| typed_routes_grid(&mut report));
    let assignment_values = core::on_big_stack(|| assignment_value_grid(&mut report));
    // second model: the aliasing graph changes (re-binding, fresh copies, tuples, destructuring, capture)
    let (dynamic, dyn_violations) = crate::props::c13dyn::explore(if thorough { 6 } else { 4 });
    report.violations(dyn_violations);
    // "computed from the content at the moment of the update": with several threads updating one
    // cell this is atomicity of the update; decided by the loom harnesses over shared cells
    // (the C16 machinery, run here for its shared-cell cases) - exhaustive over their schedules
    let (concurrent, loom_failure) = match concurrent_updates(tier, &mut report) {
        Ok(c) => (c, None),
        Err(e) => ((0, 0), Some(e)),
    };
    let n_closure_cells = core::on_big_stack(|| closure_made_cells(&mut report));
    let n_store = core::on_big_stack(|| store_grid(&mut report));
    let n_compound = core::on_big_stack(|| compound_grid(&mut report));
    let target_forms = core::on_big_stack(|| target_expression_grid(&mut report));
    let transitions = shared.transitions.load(Ordering::Relaxed);
    let outcomes = shared.outcomes.lock().unwrap().len();
    let coverage = json!({
        "assignment_target_expression_programs (9 target forms x 12 operators x 3 positions; the value re-points the target)": target_forms.0,
        "assignment_target_expression_programs_accepted": target_forms.1,
        "states": unique,
        "states_generated_incl_repeats": generated,
        "transitions": transitions,
        "traces_validated_against_impl": transitions,
        "actions": n_actions,
        "depth_bound": depth,
        "max_depth_reached": max_depth,
        "ill_typed_actions_rejected_as_expected": shared.rejected_as_expected.load(Ordering::Relaxed),
        "failing_updates_with_expected_error_and_unchanged_cell": shared.errors_as_expected.load(Ordering::Relaxed),
        "aliasing_scenarios": n_scenarios,
        "assignment_value_grid (cell type x content x operator x operand x use of the assignment's value)": {"programs": assignment_values.0, "accepted_and_ran": assignment_values.1},
        "typed_routes (23 routes by which a cell reaches a store position x 11 (cell type, position type) pairs)": {"programs": typed_routes.0, "ran_to_the_end": typed_routes.1, "rejected_by_the_checker": typed_routes.2},
        "cells_made_from_parameters_and_captures": n_closure_cells,
        "compound_store_cases (c op= v against the binary operator's own answer, by contents, float sign and type tag; failing updates leave the cell)": n_compound,
        "store_identity_cases (old content x new value incl. ==-indistinguishable pairs, literal / parameter / host call)": n_store,
        "concurrent_update_harnesses_loom": {"harnesses": concurrent.0, "schedules": concurrent.1},
        "dynamic_aliasing_model": {"states": dynamic.states, "transitions": dynamic.transitions, "depth_bound": dynamic.depth, "actions": dynamic.actions, "distinct_observations": dynamic.distinct_observations, "max_live_cells": dynamic.max_cells,
            "rule": "hand-written BFS; a state is (cell contents, cell held by x, y, p.0, p.1, the closure h), canonicalised by renumbering reachable cells; every transition runs the whole history on the real interpreter twice - as the body of one function called by the host with a host-made cell, and as a REPL session (one input per action, each parsed against the interpreter holding the cells of the earlier inputs) - and compares step result, contents through every path and identity relations (== on cells)"},
        "static_admissibility_cases": static_n,
        "static_admitted": static_accepted,
        "distinct_outcomes": outcomes,
        "samples": samples.items,
        "exhaustive": true,
        "rule": "stateright BFS; a state is the reference heap (content of c1, content of c2), deduplicated; every transition replays the whole history on the real interpreter (cells created by the host, passed as arguments, read back afterwards) and compares step result, all alias reads, heap and content-in-declared-type with the reference",
    });
    let code = report.finish(
        "model_checking",
        coverage,
        &[
            "merging histories with equal cell contents is sound: the closure g and the aliasing graph are fixed, so futures depend only on the contents",
            "stateright's search and fingerprinting",
        ],
    );
    match loom_failure {
        Some(e) if code == 0 => {
            eprintln!("MACHINERY ERROR: {e}");
            2
        }
        Some(e) => {
            eprintln!("note: {e}");
            code
        }
        None => code,
    }
}
