//! C20 — literal values survive printing and re-parsing (both the value-literal
//! route `Variable::from_str` and the program route `Code::parse(..).exec()`),
//! and every integer literal form denotes its mathematical value or is rejected.
use crate::core::{self, guard, par_fold, Stop};
use crate::report::{Report, Samples, Violation};
use crate::ty::{normal, Ty};
use crate::val::canon;
use serde_json::json;
use simplesl::variable::{Typed, Variable};
use simplesl::{Code, Interpreter};
use std::collections::BTreeSet;
use std::str::FromStr;

fn scalars() -> Vec<Variable> {
    let mut v: Vec<Variable> = vec![
        true.into(),
        false.into(),
        Variable::Void,
        0i64.into(),
        (-1i64).into(),
        7i64.into(),
        i64::MAX.into(),
        i64::MIN.into(),
        0.0f64.into(),
        (-0.0f64).into(),
        1.5f64.into(),
        (-2.25f64).into(),
        1e308f64.into(),
        5e-324f64.into(),
        1e-7f64.into(),
        123456789012345680000.0f64.into(),
        1e21f64.into(),
        f64::MAX.into(),
        f64::MIN_POSITIVE.into(),
    ];
    for s in ["", "a", "\"", "\\", "a\"b\\c", "\n", "\t\r", "\u{0}", "\u{0}1", "\u{7}", "\u{1b}[0m", "é", "😀", "日本", "\u{7f}", "\u{85}", "\u{200b}", "'", "{}", "a b", "\\n", "\\\"", "\u{feff}"] {
        v.push(Variable::from(s));
    }
    v
}

fn arr(xs: Vec<Variable>) -> Variable {
    Variable::from(xs)
}

fn tup(xs: Vec<Variable>) -> Variable {
    Variable::Tuple(xs.into())
}

fn kind_of(v: &Variable) -> &'static str {
    match v {
        Variable::Bool(_) => "bool",
        Variable::Int(i) if *i == i64::MIN => "MIN_INT",
        Variable::Int(i) if *i < 0 => "negative-int",
        Variable::Int(_) => "int",
        Variable::Float(f) if f.is_sign_negative() => "negative-float",
        Variable::Float(_) => "float",
        Variable::String(_) => "string",
        Variable::Void => "void",
        Variable::Array(_) => "array",
        Variable::Tuple(_) => "tuple",
        _ => "other",
    }
}

/// shape signature of a value: nesting of kinds (strings/ints abstracted)
fn shape(v: &Variable) -> String {
    match v {
        Variable::Array(a) => format!("[{}]", a.iter().map(shape).collect::<Vec<_>>().join(",")),
        Variable::Tuple(t) => format!("({})", t.iter().map(shape).collect::<Vec<_>>().join(",")),
        Variable::String(s) => {
            let s: &str = s;
            if s.contains('\u{0}') {
                "string-with-NUL".into()
            } else if s.chars().any(|c| c.is_control()) {
                "string-with-control".into()
            } else if s.contains('"') || s.contains('\\') {
                "string-with-quote-or-backslash".into()
            } else {
                "string".into()
            }
        }
        other => kind_of(other).into(),
    }
}

fn contains_min(v: &Variable) -> bool {
    match v {
        Variable::Int(i) => *i == i64::MIN,
        Variable::Array(a) => a.iter().any(contains_min),
        Variable::Tuple(t) => t.iter().any(contains_min),
        _ => false,
    }
}

fn depth(v: &Variable) -> usize {
    match v {
        Variable::Array(a) => 1 + a.iter().map(depth).max().unwrap_or(0),
        Variable::Tuple(t) => 1 + t.iter().map(depth).max().unwrap_or(0),
        _ => 0,
    }
}

fn check_float_text(v: &Variable, text: &str) -> bool {
    // floats keep a decimal point (or an exponent) so that they re-read as floats
    match v {
        Variable::Float(_) => text.contains('.') || text.contains('e') || text.contains('E'),
        _ => true,
    }
}

#[derive(Default)]
struct Acc {
    values: u64,
    round_trips: u64,
    shapes: BTreeSet<String>,
    violations: Vec<Violation>,
}

fn same(a: &Variable, b: &Variable) -> bool {
    canon(a) == canon(b) && normal(&Ty::from_impl(&a.as_type())) == normal(&Ty::from_impl(&b.as_type()))
}

fn check_value(v: &Variable, interp: &Interpreter, acc: &mut Acc) {
    acc.values += 1;
    acc.shapes.insert(shape(v));
    let text = match guard(|| format!("{v:?}")) {
        Ok(t) => t,
        Err(Stop::Panic(p)) => {
            acc.violations.push(Violation {
                sig: format!("C20|panic|debug|{}|{}", p.file(), p.short_msg()),
                detail: json!({"kind": "literal", "value": canon(v), "panic": p.msg}),
            });
            return;
        }
        Err(Stop::Exhausted) => return,
    };
    if !check_float_text(v, &text) {
        acc.violations.push(Violation {
            sig: format!("C20|float-without-decimal-point|{}", shape(v)),
            detail: json!({"kind": "literal", "value": canon(v), "text": text}),
        });
    }
    // route 1: value literal
    acc.round_trips += 1;
    match guard(|| Variable::from_str(&text)) {
        Ok(Ok(back)) => {
            if !same(v, &back) {
                acc.violations.push(Violation {
                    sig: format!("C20|from_str-differs|{}", shape(v)),
                    detail: json!({"kind": "literal", "route": "Variable::from_str", "value": canon(v), "text": text, "reparsed": canon(&back), "type": Ty::from_impl(&v.as_type()).print(), "reparsed_type": Ty::from_impl(&back.as_type()).print()}),
                });
            }
        }
        Ok(Err(e)) => acc.violations.push(Violation {
            sig: format!("C20|from_str-rejects|{}|{}", core::error_kind(&e), shape(v)),
            detail: json!({"kind": "literal", "route": "Variable::from_str", "value": canon(v), "text": text, "error": format!("{e:?}").chars().take(200).collect::<String>()}),
        }),
        Err(Stop::Panic(p)) => acc.violations.push(Violation {
            sig: format!("C20|panic|from_str|{}|{}", p.file(), p.short_msg()),
            detail: json!({"kind": "literal", "route": "Variable::from_str", "text": text, "panic": p.msg}),
        }),
        Err(Stop::Exhausted) => {}
    }
    // route 2: the text used as a program (MIN_INT exempt: its magnitude is not an int)
    if contains_min(v) {
        return;
    }
    acc.round_trips += 1;
    match guard(|| Code::parse(interp, &text).map(|c| c.exec())) {
        Ok(Ok(Ok(back))) => {
            if !same(v, &back) {
                acc.violations.push(Violation {
                    sig: format!("C20|program-differs|{}", shape(v)),
                    detail: json!({"kind": "literal", "route": "Code::parse.exec", "value": canon(v), "text": text, "reparsed": canon(&back), "type": Ty::from_impl(&v.as_type()).print(), "reparsed_type": Ty::from_impl(&back.as_type()).print()}),
                });
            }
        }
        Ok(Ok(Err(e))) => acc.violations.push(Violation {
            sig: format!("C20|program-fails|{}|{}", core::exec_error_kind(&e), shape(v)),
            detail: json!({"kind": "literal", "route": "Code::parse.exec", "text": text}),
        }),
        Ok(Err(e)) => acc.violations.push(Violation {
            sig: format!("C20|program-rejects|{}|{}", core::error_kind(&e), shape(v)),
            detail: json!({"kind": "literal", "route": "Code::parse.exec", "value": canon(v), "text": text, "error": format!("{e:?}").chars().take(200).collect::<String>()}),
        }),
        Err(Stop::Panic(p)) => acc.violations.push(Violation {
            sig: format!("C20|panic|program|{}|{}", p.file(), p.short_msg()),
            detail: json!({"kind": "literal", "route": "Code::parse.exec", "text": text, "panic": p.msg}),
        }),
        Err(Stop::Exhausted) => {}
    }
}

/// integer literal forms: (text, mathematical value)
/// Character ladder: the code points where the printed form of a character changes - the first
/// and last code point of every escape length (16^k - 1, 16^k for k = 1..5, U+10FFFF), the
/// neighbours of the surrogate gap, and one member of each general category that Debug treats
/// specially (control, format, combining, private use, unassigned, separators, noncharacters) -
/// alone, between letters, before a hex digit and a brace, doubled; top level and nested
fn character_ladder() -> Vec<Variable> {
    let mut cps: Vec<u32> = vec![0x10FFFF, 0x10FFFE, 0x10FFFD, 0xD7FF, 0xE000, 0xF8FF, 0xFFFD, 0xFFFE, 0xFFFF, 0x1FFFE, 0xFFFFF, 0x100000, 0xE0001, 0xE0100, 0xF0000];
    for k in 1..=5u32 {
        let b = 16u32.pow(k);
        cps.extend([b - 1, b, b + 1]);
    }
    cps.extend([0x0, 0x7, 0x1F, 0x20, 0x22, 0x27, 0x5C, 0x7E, 0x7F, 0x80, 0x85, 0x9F, 0xA0, 0xAD, 0x300, 0x301, 0x378, 0x600, 0x200B, 0x200E, 0x2028, 0x2029, 0x202E, 0x2060, 0x3000, 0xFEFF, 0xFE0F, 0x1F600, 0x1D173, 0x110BD]);
    cps.sort();
    cps.dedup();
    let mut out = Vec::new();
    for cp in cps {
        let Some(c) = char::from_u32(cp) else { continue };
        let strings = [format!("{c}"), format!("a{c}b"), format!("{c}1"), format!("{c}}}"), format!("{c}{c}"), format!("\\{c}"), format!("{c}\\"), format!("\"{c}")];
        for s in strings {
            out.push(Variable::from(s.as_str()));
        }
        out.push(arr(vec![Variable::from(format!("{c}").as_str()), 1i64.into()]));
        out.push(tup(vec![1i64.into(), Variable::from(format!("x{c}").as_str())]));
    }
    // every ordered pair and triple of the characters that have an escape of their own (a reader
    // or printer that treats a *sequence* specially - CR LF, a backslash before a quote - shows here)
    let esc = ['\r', '\n', '\t', '\0', '\\', '"', '\'', 'a'];
    for a in esc {
        for b in esc {
            out.push(Variable::from(format!("{a}{b}").as_str()));
            out.push(arr(vec![Variable::from(format!("x{a}{b}y").as_str())]));
            for c in esc {
                out.push(Variable::from(format!("{a}{b}{c}").as_str()));
            }
        }
    }
    out
}

fn int_forms() -> Vec<(String, u128)> {
    let mut out: Vec<(String, u128)> = Vec::new();
    let mags: Vec<u128> = vec![
        0, 1, 7, 8, 9, 10, 15, 16, 255, 1000, (1u128 << 63) - 1, 1u128 << 63, (1u128 << 63) + 1, (1u128 << 64) - 1,
        1u128 << 64, (1u128 << 64) + 1, 10u128.pow(19), 10u128.pow(20),
    ];
    let to_radix = |mut m: u128, r: u32, upper: bool| -> String {
        if m == 0 {
            return "0".into();
        }
        let mut d = Vec::new();
        while m > 0 {
            let c = std::char::from_digit((m % r as u128) as u32, r).unwrap();
            d.push(if upper { c.to_ascii_uppercase() } else { c });
            m /= r as u128;
        }
        d.iter().rev().collect()
    };
    for &m in &mags {
        for (prefix, r) in [("", 10u32), ("0b", 2), ("0o", 8), ("0x", 16)] {
            for upper in [false, true] {
                if upper && r != 16 {
                    continue;
                }
                let digits = to_radix(m, r, upper);
                out.push((format!("{prefix}{digits}"), m));
                // underscores in every position (a decimal literal must start with a digit)
                let cs: Vec<char> = digits.chars().collect();
                let first = if prefix.is_empty() { 1 } else { 0 };
                if cs.len() <= 20 {
                    for pos in first..=cs.len() {
                        let mut s: String = cs[..pos].iter().collect();
                        s.push('_');
                        s.extend(cs[pos..].iter());
                        out.push((format!("{prefix}{s}"), m));
                        let mut s2: String = cs[..pos].iter().collect();
                        s2.push_str("__");
                        s2.extend(cs[pos..].iter());
                        out.push((format!("{prefix}{s2}"), m));
                    }
                }
            }
        }
    }
    out
}

pub fn run(tier: &str) -> i32 {
    let thorough = tier == "thorough";
    let mut report = Report::new("C20", tier);
    let mut samples = Samples::new(8);
    let s = scalars();
    // depth 1
    let mut d1: Vec<Variable> = vec![arr(vec![])];
    for x in &s {
        d1.push(arr(vec![x.clone()]));
        for y in &s {
            d1.push(arr(vec![x.clone(), y.clone()]));
            d1.push(tup(vec![x.clone(), y.clone()]));
        }
    }
    for x in s.iter().step_by(3) {
        d1.push(tup(vec![x.clone(), s[3].clone(), x.clone()]));
    }
    // depth 2 over a spread of depth-1 values (thorough: denser) plus the scalars
    let step = if thorough { 17 } else { 97 };
    let mut m1: Vec<Variable> = d1.iter().step_by(step).cloned().collect();
    m1.push(arr(vec![]));
    m1.extend(s.iter().step_by(4).cloned());
    let mut d2: Vec<Variable> = Vec::new();
    for x in &m1 {
        if depth(x) == 0 {
            continue;
        }
        d2.push(arr(vec![x.clone()]));
        for y in &m1 {
            d2.push(arr(vec![x.clone(), y.clone()]));
            d2.push(tup(vec![x.clone(), y.clone()]));
            d2.push(tup(vec![y.clone(), x.clone()]));
        }
    }
    // single-spine chains to depth 6 (thorough: also depth 3 over a spread of depth-2 values)
    let mut chains: Vec<Variable> = Vec::new();
    for leaf in [s[3].clone(), s[7].clone(), s[9].clone(), Variable::from("a\"b\\c"), arr(vec![])] {
        let mut cur = leaf;
        for level in 0..6 {
            cur = if level % 2 == 0 { arr(vec![cur]) } else { tup(vec![cur, 1i64.into()]) };
            chains.push(cur.clone());
        }
    }
    if thorough {
        for x in d2.iter().step_by(211) {
            chains.push(arr(vec![x.clone()]));
            chains.push(tup(vec![x.clone(), arr(vec![])]));
        }
    }
    let mut all: Vec<Variable> = s.clone();
    all.extend(d1);
    all.extend(d2);
    all.extend(chains);
    let ladder = character_ladder();
    let n_ladder = ladder.len();
    all.extend(ladder);
    let n = all.len();
    let accs = par_fold(
        n,
        || (Acc::default(), Interpreter::without_stdlib()),
        |(acc, interp), i| check_value(&all[i], interp, acc),
    );
    let mut acc = Acc::default();
    for (a, _) in accs {
        acc.values += a.values;
        acc.round_trips += a.round_trips;
        acc.shapes.extend(a.shapes);
        acc.violations.extend(a.violations);
    }
    samples.push(|| json!({"value": canon(&all[n / 2]), "text": format!("{:?}", all[n / 2])}));
    samples.push(|| json!({"value": canon(&all[n - 3]), "text": format!("{:?}", all[n - 3])}));

    // integer literal forms
    let forms = int_forms();
    let interp = Interpreter::without_stdlib();
    let mut n_forms = 0u64;
    for (text, value) in &forms {
        for (route, negative) in [("from_str", false), ("from_str", true), ("program", false)] {
            n_forms += 1;
            let t = if negative { format!("-{text}") } else { text.clone() };
            let expected: Option<i64> = if negative {
                (*value <= 1u128 << 63).then(|| (-(*value as i128)) as i64)
            } else {
                (*value <= i64::MAX as u128).then_some(*value as i64)
            };
            let got: Result<Option<i64>, String> = match route {
                "from_str" => match guard(|| Variable::from_str(&t)) {
                    Ok(Ok(Variable::Int(i))) => Ok(Some(i)),
                    Ok(Ok(other)) => Err(format!("non-int value {}", canon(&other))),
                    Ok(Err(_)) => Ok(None),
                    Err(Stop::Panic(p)) => Err(format!("PANIC {} @{}", p.short_msg(), p.file())),
                    Err(Stop::Exhausted) => continue,
                },
                _ => match guard(|| Code::parse(&interp, &t).map(|c| c.exec())) {
                    Ok(Ok(Ok(Variable::Int(i)))) => Ok(Some(i)),
                    Ok(Ok(Ok(other))) => Err(format!("non-int value {}", canon(&other))),
                    Ok(Ok(Err(e))) => Err(format!("runtime error {e}")),
                    Ok(Err(_)) => Ok(None),
                    Err(Stop::Panic(p)) => Err(format!("PANIC {} @{}", p.short_msg(), p.file())),
                    Err(Stop::Exhausted) => continue,
                },
            };
            if got != Ok(expected) {
                let class = if *value > i64::MAX as u128 { if *value == 1u128 << 63 { "2^63" } else { "too-big" } } else { "in-range" };
                let radix = if text.starts_with("0b") { "bin" } else if text.starts_with("0o") { "oct" } else if text.starts_with("0x") { "hex" } else { "dec" };
                report.violation(Violation {
                    sig: format!("C20|int-literal|route={route}|{}|{radix}|{class}|underscore={}", if negative { "negative" } else { "positive" }, text.contains('_')),
                    detail: json!({"kind": "int_literal", "route": route, "text": t, "expected": format!("{expected:?}"), "observed": format!("{got:?}")}),
                });
            }
        }
    }
    samples.push(|| json!({"int_literal": forms[forms.len() / 2].0}));

    let Acc { values, round_trips, shapes, violations } = acc;
    report.violations(violations);
    let coverage = json!({
        "states": values + forms.len() as u64,
        "transitions": round_trips + n_forms,
        "traces_validated_against_impl": round_trips + n_forms,
        "values": values,
        "of_which_character_ladder_strings (first / last code point of every escape length, surrogate-gap neighbours, one member of each specially printed category; 10 placements each)": n_ladder,
        "scalars": s.len(),
        "integer_literal_forms": forms.len(),
        "distinct_outcomes": shapes.len(),
        "distinct_value_shapes": shapes.len(),
        "samples": samples.items,
        "exhaustive": true,
        "rule": "every value of the enumerated set is rendered with the implementation's Debug, re-read through Variable::from_str and (MIN_INT-free values) as a program; equal = same canonical dump and same run-time type; every integer literal form is compared with its exact big-integer reading",
        "bounds": format!("all arrays/tuples of <=2 elements over {} boundary scalars, depth-2 containers over a spread of those, single-spine chains to depth 6", s.len()),
    });
    report.finish("model_checking", coverage, &["values nested deeper than the REPL's print depth are outside the enumerated set (see known findings)"])
}
