//! C18 — standard library functions honour their declared signatures; pure helpers
//! return what docs/stdlib.md states; file-system functions are checked as a
//! model-checked state machine (see c18fs.rs); cgetline in subprocesses.
use crate::core::{self, guard, par_fold, Stop};
use crate::palette::{Values, RECIPES};
use crate::report::{Report, Samples, Violation};
use crate::ty::{belongs, Ty};
use crate::val::{canon, canon_typed, float_canon};
use serde_json::json;
use simplesl::function::Function;
use simplesl::variable::{Type, Typed, Variable};
use simplesl::{verif, Interpreter};
use std::collections::{BTreeMap, BTreeSet};
use std::sync::Arc;

/// walks the `std` struct: (dotted path, value)
pub fn exports() -> Vec<(String, Variable)> {
    fn walk(prefix: &str, v: &Variable, out: &mut Vec<(String, Variable)>) {
        match v {
            Variable::Struct(vm) => {
                let mut keys: Vec<_> = vm.keys().cloned().collect();
                keys.sort();
                for k in keys {
                    walk(&format!("{prefix}.{k}"), &vm[&k], out);
                }
            }
            other => out.push((prefix.to_string(), other.clone())),
        }
    }
    let interp = Interpreter::with_stdlib();
    let std_v = interp.get_variable("std").expect("std is bound").clone();
    let mut out = Vec::new();
    walk("std", &std_v, &mut out);
    out
}

pub(crate) fn call(f: &Arc<Function>, args: Vec<Variable>) -> Result<Variable, String> {
    verif::set_fuel(Some(core::QUICK_FUEL), Some(core::DEPTH));
    let r = match guard(|| f.clone().create_call(args)) {
        Ok(Ok(code)) => match guard(|| code.exec()) {
            Ok(Ok(v)) => Ok(v),
            Ok(Err(e)) => Err(format!("error:{}", core::exec_error_kind(&e))),
            Err(Stop::Panic(p)) => Err(format!("PANIC {} @{}", p.short_msg(), p.file())),
            Err(Stop::Exhausted) => Err("exhausted".into()),
        },
        Ok(Err(e)) => Err(format!("host-rejected:{}", core::error_kind(&e))),
        Err(Stop::Panic(p)) => Err(format!("PANIC create_call {} @{}", p.short_msg(), p.file())),
        Err(Stop::Exhausted) => Err("exhausted".into()),
    };
    verif::set_fuel(None, None);
    r
}

// ---------------------------------------------------------------- references

fn count_bits(i: i64, one: bool) -> i64 {
    (0..64).filter(|k| ((i >> k) & 1 == 1) == one).count() as i64
}
fn leading(i: i64, one: bool) -> i64 {
    let mut n = 0;
    for k in (0..64).rev() {
        if ((i >> k) & 1 == 1) == one {
            n += 1
        } else {
            break;
        }
    }
    n
}
fn trailing(i: i64, one: bool) -> i64 {
    let mut n = 0;
    for k in 0..64 {
        if ((i >> k) & 1 == 1) == one {
            n += 1
        } else {
            break;
        }
    }
    n
}
fn ilog_ref(num: i64, base: i64) -> Option<i64> {
    if num <= 0 || base < 2 {
        return None;
    }
    let (mut n, mut k) = (num as i128, 0i64);
    while n >= base as i128 {
        n /= base as i128;
        k += 1;
    }
    Some(k)
}
fn to_int_ref(f: f64) -> i64 {
    if f.is_nan() {
        0
    } else if f >= 9.223372036854775807e18 {
        i64::MAX
    } else if f <= -9.223372036854775808e18 {
        i64::MIN
    } else {
        f.trunc() as i64
    }
}
fn opt_int(o: Option<i64>) -> String {
    o.map(|v| v.to_string()).unwrap_or_else(|| "()".into())
}
fn is_ascii_plain(s: &str) -> bool {
    s.chars().all(|c| c.is_ascii() && !c.is_ascii_control())
}

/// expected canonical result of a pure helper, or None when docs do not pin it down
fn reference(name: &str, args: &[Variable]) -> Option<String> {
    let int = |i: usize| if let Variable::Int(v) = &args[i] { Some(*v) } else { None };
    let flt = |i: usize| if let Variable::Float(v) = &args[i] { Some(*v) } else { None };
    let st = |i: usize| if let Variable::String(v) = &args[i] { Some(v.to_string()) } else { None };
    Some(match name {
        "std.len" => match &args[0] {
            Variable::Array(a) => a.len().to_string(),
            Variable::String(s) => s.chars().count().to_string(),
            _ => return None,
        },
        "std.math.count_ones" => count_bits(int(0)?, true).to_string(),
        "std.math.count_zeros" => count_bits(int(0)?, false).to_string(),
        "std.math.leading_zeroes" => leading(int(0)?, false).to_string(),
        "std.math.trailing_zeroes" => trailing(int(0)?, false).to_string(),
        "std.math.leading_ones" => leading(int(0)?, true).to_string(),
        "std.math.trailing_ones" => trailing(int(0)?, true).to_string(),
        "std.math.swap_bytes" => {
            let v = int(0)? as u64;
            let mut r: u64 = 0;
            for k in 0..8 {
                r |= ((v >> (8 * k)) & 0xff) << (8 * (7 - k));
            }
            (r as i64).to_string()
        }
        "std.math.reverse_bits" => {
            let v = int(0)? as u64;
            let mut r: u64 = 0;
            for k in 0..64 {
                r |= ((v >> k) & 1) << (63 - k);
            }
            (r as i64).to_string()
        }
        "std.math.ilog" => opt_int(ilog_ref(int(0)?, int(1)?)),
        "std.math.ilog2" => opt_int(ilog_ref(int(0)?, 2)),
        "std.math.ilog10" => opt_int(ilog_ref(int(0)?, 10)),
        "std.math.is_nan" => (flt(0)? != flt(0)?).to_string(),
        "std.math.is_infinite" => (flt(0)?.abs() == f64::INFINITY).to_string(),
        "std.math.is_finite" => {
            let f = flt(0)?;
            (f == f && f.abs() != f64::INFINITY).to_string()
        }
        "std.math.is_sign_negative" => ((flt(0)?.to_bits() >> 63) == 1).to_string(),
        "std.math.is_sign_positive" => ((flt(0)?.to_bits() >> 63) == 0).to_string(),
        "std.math.is_subnormal" => {
            let b = flt(0)?.to_bits();
            (((b >> 52) & 0x7ff) == 0 && (b & ((1u64 << 52) - 1)) != 0).to_string()
        }
        "std.math.is_normal" => {
            let e = (flt(0)?.to_bits() >> 52) & 0x7ff;
            (e != 0 && e != 0x7ff).to_string()
        }
        "std.math.to_bits" => (flt(0)?.to_bits() as i64).to_string(),
        "std.math.from_bits" => float_canon(f64::from_bits(int(0)? as u64)),
        "std.math.floor" | "std.math.ceil" | "std.math.trunc" | "std.math.round" | "std.math.round_ties_even" | "std.math.fract" => {
            let f = flt(0)?;
            if !f.is_finite() || f.abs() >= 4503599627370496.0 {
                return None;
            }
            let t = (f as i64) as f64; // exact for |f| < 2^52
            let frac = f - t;
            let r = match name {
                "std.math.trunc" => t,
                "std.math.floor" => if frac < 0.0 { t - 1.0 } else { t },
                "std.math.ceil" => if frac > 0.0 { t + 1.0 } else { t },
                "std.math.fract" => frac,
                "std.math.round" => {
                    if frac.abs() >= 0.5 { t + frac.signum() } else { t }
                }
                _ => {
                    // ties to even
                    if frac.abs() > 0.5 {
                        t + frac.signum()
                    } else if frac.abs() == 0.5 {
                        if (t as i64) % 2 == 0 { t } else { t + frac.signum() }
                    } else {
                        t
                    }
                }
            };
            // the sign of a zero result follows the sign of the argument
            let r = if r == 0.0 && name != "std.math.fract" { if f.is_sign_negative() { -0.0 } else { 0.0 } } else { r };
            if r == 0.0 && name == "std.math.fract" {
                return None; // sign of a zero fraction is not pinned down by the docs
            }
            float_canon(r)
        }
        "std.convert.to_float" => match &args[0] {
            Variable::Int(i) => float_canon(*i as f64),
            Variable::Float(f) => float_canon(*f),
            _ => return None,
        },
        "std.convert.to_int" => match &args[0] {
            Variable::Int(i) => i.to_string(),
            Variable::Float(f) => to_int_ref(*f).to_string(),
            _ => return None,
        },
        "std.convert.parse_int" => {
            let s = st(0)?;
            let digits = s.strip_prefix('-').unwrap_or(&s);
            if !digits.is_empty() && digits.chars().all(|c| c.is_ascii_digit()) && digits.len() <= 18 {
                let mut v: i64 = 0;
                for c in digits.chars() {
                    v = v * 10 + c.to_digit(10).unwrap() as i64;
                }
                (if s.starts_with('-') { -v } else { v }).to_string()
            } else if s.is_empty() || s.chars().any(|c| !(c.is_ascii_digit() || c == '-' || c == '+')) {
                "()".into()
            } else {
                return None;
            }
        }
        "std.convert.parse_float" => {
            let s = st(0)?;
            if s.is_empty() || s.chars().any(|c| c.is_alphabetic() && !"eEinfatyINFATY".contains(c)) || s.contains(' ') {
                "()".into()
            } else {
                return None;
            }
        }
        "std.string.contains" | "std.string.starts_with" | "std.string.ends_with" => {
            let (s, p): (Vec<char>, Vec<char>) = (st(0)?.chars().collect(), st(1)?.chars().collect());
            let at = |k: usize| k + p.len() <= s.len() && s[k..k + p.len()] == p[..];
            match name {
                "std.string.contains" => (0..=s.len()).any(at),
                "std.string.starts_with" => at(0),
                _ => p.len() <= s.len() && at(s.len() - p.len()),
            }
            .to_string()
        }
        "std.string.chars" => format!("[{}]", st(0)?.chars().map(|c| format!("{:?}", c.to_string())).collect::<Vec<_>>().join(", ")),
        "std.string.bytes" => format!("[{}]", st(0)?.as_bytes().iter().map(|b| b.to_string()).collect::<Vec<_>>().join(", ")),
        "std.string.split" => {
            let (s, p) = (st(0)?, st(1)?);
            if p.is_empty() {
                return None;
            }
            // scan left to right for non-overlapping occurrences
            let (sc, pc): (Vec<char>, Vec<char>) = (s.chars().collect(), p.chars().collect());
            let mut parts = Vec::new();
            let mut cur = String::new();
            let mut k = 0;
            while k < sc.len() {
                if k + pc.len() <= sc.len() && sc[k..k + pc.len()] == pc[..] {
                    parts.push(std::mem::take(&mut cur));
                    k += pc.len();
                } else {
                    cur.push(sc[k]);
                    k += 1;
                }
            }
            parts.push(cur);
            format!("[{}]", parts.iter().map(|x| format!("{x:?}")).collect::<Vec<_>>().join(", "))
        }
        "std.string.replace" => {
            let (s, from, to) = (st(0)?, st(1)?, st(2)?);
            if from.is_empty() {
                return None;
            }
            let (sc, fc): (Vec<char>, Vec<char>) = (s.chars().collect(), from.chars().collect());
            let mut out = String::new();
            let mut k = 0;
            while k < sc.len() {
                if k + fc.len() <= sc.len() && sc[k..k + fc.len()] == fc[..] {
                    out.push_str(&to);
                    k += fc.len();
                } else {
                    out.push(sc[k]);
                    k += 1;
                }
            }
            format!("{out:?}")
        }
        "std.string.to_lowercase" | "std.string.to_uppercase" => {
            let s = st(0)?;
            if !is_ascii_plain(&s) {
                // beyond ASCII "the uppercase / lowercase equivalent" is Unicode's default case
                // conversion of the string (full mappings: one letter may become several, a final
                // sigma differs from a medial one)
                let r = if name.ends_with("lowercase") { s.to_lowercase() } else { s.to_uppercase() };
                return Some(format!("{r:?}"));
            }
            let r: String = s
                .chars()
                .map(|c| {
                    if name.ends_with("lowercase") && c.is_ascii_uppercase() {
                        (c as u8 + 32) as char
                    } else if name.ends_with("uppercase") && c.is_ascii_lowercase() {
                        (c as u8 - 32) as char
                    } else {
                        c
                    }
                })
                .collect();
            format!("{r:?}")
        }
        "std.string.trim" | "std.string.trim_start" | "std.string.trim_end" => {
            let s = st(0)?;
            // whitespace = the Unicode White_Space property (what the documentation's "whitespace"
            // means for a language whose strings are Unicode), which includes VT and FF
            let ws = |c: char| c.is_whitespace();
            let cs: Vec<char> = s.chars().collect();
            let mut a = 0;
            let mut b = cs.len();
            if name != "std.string.trim_end" {
                while a < b && ws(cs[a]) {
                    a += 1;
                }
            }
            if name != "std.string.trim_start" {
                while b > a && ws(cs[b - 1]) {
                    b -= 1;
                }
            }
            format!("{:?}", cs[a..b].iter().collect::<String>())
        }
        "std.string.str_from_utf8" | "std.string.str_from_utf8_lossy" => {
            // only byte arrays that are the encoding of a known string are pinned down
            let Variable::Array(a) = &args[0] else { return None };
            let bytes: Option<Vec<u8>> = a.iter().map(|v| if let Variable::Int(i) = v { u8::try_from(*i).ok() } else { None }).collect();
            let bytes = bytes?;
            match String::from_utf8(bytes) {
                Ok(s) => format!("{s:?}"),
                Err(_) if name == "std.string.str_from_utf8" => "()".into(),
                Err(_) => return None,
            }
        }
        _ => return None,
    })
}

// extra argument values for the string / byte-array helpers
const EXTRA_ARGS: &[&str] = &[
    "\" a b \"", "\"aXbXc\"", "\"X\"", "\"ab\"", "\"b\"", "\"ABC def\"", "\"\\t x \\n\"", "\"12\"", "\"-7\"", "\"+5\"", "\"1.5\"", "\"1e3\"", "\"nan\"", "\"x1\"",
    "\"9223372036854775808\"", "\"日本語\"", "[104, 105]", "[195, 169]", "[255]", "[195]", "[256, 65]", "[(0 - 1)]", "[240, 159, 152, 128]", "10", "100", "1000",
    // letters whose case mapping is several characters, or depends on the position in the word
    "\"straße\"", "\"ﬁn\"", "\"İstanbul\"", "\"ΟΔΥΣΣΕΥΣ\"", "\"ŉ ǰ ΐ\"", "\"Σ ΑΣ σ ς\"", "\"ǅ ǆ Ǆ\"",
    "\"\\u{a0}x\\u{a0}\"", "\"\\u{b}x\\u{b}\"", "\"\\u{2003}x y\\u{3000}\"", "\"\\u{85}\\u{2028}\"", "\"\\u{c} x\\u{1f}\"", "\"\\u{200b}x\\u{feff}\"",
    "(0 - 8)", "8", "1024", "0.5", "2.5", "(-2.5)", "(-0.5)", "3.5", "1.0", "(-1.0)", "2.0", "4503599627370497.0", "1e300", "(-1e300)",
];

#[derive(Default)]
pub(crate) struct Acc {
    pub calls: u64,
    pub ladder_calls: u64,
    pub with_reference: u64,
    pub outcomes: BTreeSet<String>,
    pub violations: Vec<Violation>,
    pub per_fn: BTreeMap<String, u64>,
}


pub fn int_ladder() -> Vec<i64> {
    let mut out = std::collections::BTreeSet::new();
    for k in 0..64u32 {
        let b = 1i64.wrapping_shl(k);
        for v in [b.wrapping_sub(1), b, b.wrapping_add(1)] {
            out.insert(v);
            out.insert(v.wrapping_neg());
        }
    }
    out.into_iter().collect()
}

/// +-2^k, the neighbouring representable values and the half-way points for k = -3..64, zeros,
/// infinities, NaN, the smallest subnormal and the largest finite value
pub fn float_ladder() -> Vec<f64> {
    let mut out: Vec<f64> = vec![0.0, -0.0, f64::INFINITY, f64::NEG_INFINITY, f64::NAN, f64::MIN_POSITIVE, 5e-324, f64::MAX, f64::MIN];
    for k in -3..=64 {
        let b = 2f64.powi(k);
        for v in [b, f64::from_bits(b.to_bits() - 1), f64::from_bits(b.to_bits() + 1), b + 0.5, b - 0.5, b * 1.5] {
            out.push(v);
            out.push(-v);
        }
    }
    out
}

fn judge_call(acc: &mut Acc, path: &str, f: &Arc<Function>, rt: &Type, rty: &Ty, args: Vec<Variable>, label: String) {
    acc.calls += 1;
    *acc.per_fn.entry(path.to_string()).or_insert(0) += 1;
    let got = call(f, args.clone());
    match &got {
        Ok(v) => {
            if !belongs(v, rty) || !v.as_type().matches(&*rt) {
                acc.violations.push(Violation {
                    sig: format!("C18|result-not-in-declared-type|{path}"),
                    detail: json!({"kind": "stdlib", "call": label, "declared_result": rty.print(), "observed": canon_typed(v)}),
                });
            }
            acc.outcomes.insert(canon(v).chars().take(12).collect());
            if let Some(want) = reference(path, &args) {
                acc.with_reference += 1;
                if canon(v) != want {
                    acc.violations.push(Violation {
                        sig: format!("C18|wrong-result|{path}"),
                        detail: json!({"kind": "stdlib", "call": label, "expected": want, "observed": canon(v)}),
                    });
                }
            }
        }
        Err(e) if e == "exhausted" => {}
        Err(e) => acc.violations.push(Violation {
            sig: format!("C18|call-failed|{path}|{}", e.chars().take(60).collect::<String>()),
            detail: json!({"kind": "stdlib", "call": label, "observed": e}),
        }),
    }
}

const SKIP_SWEEP: &[&str] = &["std.fs.", "std.io.cgetline"];

/// every exported function (except the fs / console ones) over the palette values its parameter
/// types admit and the int ladder; used by C18 (results) and C01 (results inhabit the declared type)
pub(crate) fn sweep(ex: &[(String, Variable)], thorough: bool) -> (Acc, usize) {
    let fns: Vec<(String, Arc<Function>)> = ex
        .iter()
        .filter_map(|(p, v)| if let Variable::Function(f) = v { Some((p.clone(), f.clone())) } else { None })
        .filter(|(p, _)| !SKIP_SWEEP.iter().any(|s| p.starts_with(s)))
        .collect();
    let n_fns = fns.len();
    let max_rank = if thorough { 2 } else { 1 };
    let accs = par_fold(
        fns.len(),
        || (Acc::default(), Values::new(), Vec::<Variable>::new()),
        |(acc, values, extra), i| {
            if extra.is_empty() {
                for e in EXTRA_ARGS {
                    if let Ok(v) = values.eval(e) {
                        extra.push(v);
                    }
                }
            }
            let (path, f) = &fns[i];
            let Type::Function(ft) = f.as_type() else { return };
            let ptys: Vec<Ty> = ft.params.iter().map(Ty::from_impl).collect();
            let rty = Ty::from_impl(&ft.return_type);
            // candidate (description, recipe index or extra index) per parameter
            let mut cands: Vec<Vec<(String, i64)>> = Vec::new();
            for t in &ptys {
                let mut c: Vec<(String, i64)> = values.admitted(t, max_rank).into_iter().map(|ri| (RECIPES[ri].src.to_string(), ri as i64)).collect();
                for (k, v) in extra.iter().enumerate() {
                    if belongs(v, t) && !c.iter().any(|x| x.0 == EXTRA_ARGS[k]) {
                        c.push((EXTRA_ARGS[k].to_string(), -(k as i64) - 1));
                    }
                }
                if *t == Ty::Any && !thorough {
                    c.truncate(24);
                }
                cands.push(c);
            }
            if cands.iter().any(|c| c.is_empty()) {
                acc.violations.push(Violation {
                    sig: format!("C18|no-admitted-argument|{path}"),
                    detail: json!({"kind": "machinery", "export": path, "params": ptys.iter().map(|t| t.print()).collect::<Vec<_>>()}),
                });
                return;
            }
            let total: usize = cands.iter().map(|c| c.len()).product();
            let cap = if thorough { 60_000 } else { 6_000 };
            let stride = (total / cap).max(1);
            let mut k = 0;
            while k < total {
                let mut kk = k;
                let mut args = Vec::new();
                let mut desc = Vec::new();
                let mut ok = true;
                for c in &cands {
                    let (d, idx) = &c[kk % c.len()];
                    kk /= c.len();
                    let v = if *idx >= 0 { values.make(*idx as usize) } else { Some(extra[(-*idx - 1) as usize].clone()) };
                    match v {
                        Some(v) => args.push(v),
                        None => ok = false,
                    }
                    desc.push(d.clone());
                }
                k += stride;
                if !ok {
                    continue;
                }
                let label = format!("{path}({})", desc.join(", "));
                judge_call(acc, path, f, &ft.return_type, &rty, args, label);
            }
            // ladders: every int (float) parameter in turn over the int (float) ladder, the other
            // parameters over their first candidates
            let ladders: [Vec<Variable>; 2] = [int_ladder().into_iter().map(Variable::Int).collect(), float_ladder().into_iter().map(Variable::Float).collect()];
            for (p, ladder) in (0..ptys.len()).flat_map(|p| ladders.iter().map(move |l| (p, l))) {
                if !belongs(&ladder[0], &ptys[p]) {
                    continue;
                }
                let others: Vec<usize> = (0..ptys.len()).map(|q| if q == p { 1 } else { cands[q].len().min(3) }).collect();
                let combos: usize = others.iter().product();
                for l in ladder.iter() {
                    for k in 0..combos {
                        let mut kk = k;
                        let mut args = Vec::new();
                        let mut desc = Vec::new();
                        let mut ok = true;
                        for q in 0..ptys.len() {
                            if q == p {
                                args.push(l.clone());
                                desc.push(canon(l));
                                continue;
                            }
                            let (d, idx) = &cands[q][kk % others[q]];
                            kk /= others[q];
                            match if *idx >= 0 { values.make(*idx as usize) } else { Some(extra[(-*idx - 1) as usize].clone()) } {
                                Some(v) => args.push(v),
                                None => ok = false,
                            }
                            desc.push(d.clone());
                        }
                        if ok {
                            acc.ladder_calls += 1;
                            let label = format!("{path}({})", desc.join(", "));
                            judge_call(acc, path, f, &ft.return_type, &rty, args, label);
                        }
                    }
                }
            }
        },
    );
    let mut acc = Acc::default();
    for (a, _, _) in accs {
        acc.calls += a.calls;
        acc.ladder_calls += a.ladder_calls;
        acc.with_reference += a.with_reference;
        acc.outcomes.extend(a.outcomes);
        acc.violations.extend(a.violations);
        for (k, v) in a.per_fn {
            *acc.per_fn.entry(k).or_insert(0) += v;
        }
    }
    (acc, n_fns)
}

pub fn run(tier: &str) -> i32 {
    let thorough = tier == "thorough";
    let mut report = Report::new("C18", tier);
    let mut samples = Samples::new(10);
    crate::warm::warm();
    let ex = exports();
    let n_exports = ex.len();
    // constants have their declared types and values
    for (path, v) in &ex {
        let want = match path.as_str() {
            "std.math.MIN_INT" => Some(i64::MIN.to_string()),
            "std.math.MAX_INT" => Some(i64::MAX.to_string()),
            "std.math.E" => Some(float_canon(std::f64::consts::E)),
            "std.math.PI" => Some(float_canon(std::f64::consts::PI)),
            _ => None,
        };
        match (v, want) {
            (Variable::Function(_), _) => {}
            (other, Some(w)) => {
                if canon(other) != w {
                    report.violation(Violation {
                        sig: format!("C18|constant-value|{path}"),
                        detail: json!({"kind": "stdlib", "export": path, "expected": w, "observed": canon(other)}),
                    });
                }
            }
            (other, None) => report.violation(Violation {
                sig: format!("C18|unexpected-non-function-export|{path}"),
                detail: json!({"kind": "stdlib", "export": path, "value": canon_typed(other)}),
            }),
        }
    }
    let (acc, n_fns) = sweep(&ex, thorough);
    // operators.* equal the built-in operators
    let ops_v = core::on_big_stack(|| {
        let mut out = Vec::new();
        let mut n = 0u64;
        for (func, op, srcs) in [
            ("bitand_reduce", "$&", &["[]~", "[6, 3]~", "[(0 - 1)]~"][..]),
            ("bitor_reduce", "$|", &["[]~", "[6, 3]~"][..]),
            ("int_product", "$*", &["[]~", "[6, 3]~", "[9223372036854775807, 2]~"][..]),
            ("int_sum", "$+", &["[]~", "[6, 3]~", "[9223372036854775807, 1]~"][..]),
            ("float_product", "$*", &["[1.5, 2.0]~", "[0.0, (1.0 / 0.0)]~"][..]),
            ("float_sum", "$+", &["[1.5, 2.0]~", "[(1.0 / 0.0), (-1.0 / 0.0)]~"][..]),
            ("string_sum", "$+", &["[\"a\", \"b\"]~", "[\"\"]~"][..]),
            ("all", "$&&", &["[true, false, true]~", "[true]~", "[]~ ? bool"][..]),
            ("any", "$||", &["[false, true, false]~", "[false]~", "[]~ ? bool"][..]),
        ] {
            for s in srcs {
                n += 1;
                let a = core::run_text(&format!("std.operators.{func}({s})"), true, core::QUICK_FUEL);
                let b = core::run_text(&format!("({s}) {op}"), true, core::QUICK_FUEL);
                let (ca, cb) = (match &a { core::Outcome::Value(v) => canon(v), o => o.tag() }, match &b { core::Outcome::Value(v) => canon(v), o => o.tag() });
                if ca != cb {
                    out.push(Violation {
                        sig: format!("C18|operators-differ-from-builtin|{func}"),
                        detail: json!({"kind": "program", "stdlib": true, "text": format!("std.operators.{func}({s})"), "function_result": ca, "operator_result": cb}),
                    });
                }
            }
        }
        (out, n)
    });
    report.violations(ops_v.0);
    // the string helpers agree with each other about what an occurrence of a pattern is - also where
    // the documentation leaves it to them (the empty pattern): replace(s, p, t) is split(s, p)
    // joined by t; contains(s, p) iff split(s, p) has more than one part or p is empty
    let consistency = core::on_big_stack(|| {
        let find = |name: &str| ex.iter().find_map(|(p, v)| if p == name { if let Variable::Function(f) = v { Some(f.clone()) } else { None } } else { None });
        let (Some(replace), Some(split), Some(contains)) = (find("std.string.replace"), find("std.string.split"), find("std.string.contains")) else {
            return (0u64, vec![Violation { sig: "C18|string-consistency|export-missing".into(), detail: json!({"kind": "stdlib"}) }]);
        };
        const STRS: &[&str] = &["", "a", "ab", "abc", "aXbXc", "X", "XX", "aa", "aaa", "é", "aéa", " ", "a b"];
        const PATS: &[&str] = &["", "a", "X", "aa", "ab", "é", " ", "abc", "b"];
        const TOS: &[&str] = &["", "-", "a", "XX"];
        let mut out = Vec::new();
        let mut n = 0u64;
        for st in STRS {
            for pat in PATS {
                let parts = match call(&split, vec![(*st).into(), (*pat).into()]) {
                    Ok(Variable::Array(a)) => a.iter().map(|x| if let Variable::String(s) = x { s.to_string() } else { format!("{x:?}") }).collect::<Vec<_>>(),
                    other => {
                        out.push(Violation { sig: "C18|string-consistency|split-failed".into(), detail: json!({"kind": "stdlib", "call": format!("std.string.split({st:?}, {pat:?})"), "observed": format!("{:?}", other.map(|v| canon(&v)))}) });
                        continue;
                    }
                };
                n += 1;
                let has = match call(&contains, vec![(*st).into(), (*pat).into()]) {
                    Ok(Variable::Bool(b)) => Some(b),
                    _ => None,
                };
                if has != Some(parts.len() > 1 || pat.is_empty()) {
                    out.push(Violation {
                        sig: "C18|string-consistency|contains-vs-split".into(),
                        detail: json!({"kind": "stdlib", "call": format!("std.string.contains({st:?}, {pat:?})"), "observed": format!("{has:?}"), "parts_of_split": parts}),
                    });
                }
                for to in TOS {
                    n += 1;
                    let want = parts.join(to);
                    let got = match call(&replace, vec![(*st).into(), (*pat).into(), (*to).into()]) {
                        Ok(Variable::String(s)) => s.to_string(),
                        other => format!("{:?}", other.map(|v| canon(&v))),
                    };
                    if got != want {
                        out.push(Violation {
                            sig: format!("C18|string-consistency|replace-vs-split|pattern-empty={}", pat.is_empty()),
                            detail: json!({"kind": "stdlib", "call": format!("std.string.replace({st:?}, {pat:?}, {to:?})"), "expected (split joined by the replacement)": want, "observed": got}),
                        });
                    }
                }
            }
        }
        (n, out)
    });
    report.violations(consistency.1);
    // cgetline in subprocesses
    let cg = cgetline_cases();
    report.violations(cg.1);
    // fs state machine
    let fs = crate::props::c18fs::explore(thorough);
    report.violations(fs.violations);

    // documentation name drift (reported, not a violation)
    let doc = std::fs::read_to_string("/repo/docs/stdlib.md").unwrap_or_default();
    let undocumented: Vec<String> = ex
        .iter()
        .map(|(p, _)| p.rsplit('.').next().unwrap().to_string())
        .filter(|n| !doc.contains(&format!("{n}(")) && !doc.contains(&format!("{n}:")))
        .collect();
    samples.push(|| json!({"call": "std.math.ilog(8, 2)", "expected": "3"}));
    samples.push(|| json!({"call": "std.string.split(\"aXbXc\", \"X\")", "expected": "[\"a\", \"b\", \"c\"]"}));
    samples.push(|| json!({"fs_transition": fs.sample}));
    let Acc { calls, ladder_calls, with_reference, outcomes, violations, per_fn } = acc;
    report.violations(violations);
    let min_calls = per_fn.values().min().copied().unwrap_or(0);
    let coverage = json!({
        "states": fs.states + n_exports as u64,
        "transitions": fs.transitions + calls + ops_v.1 + cg.0,
        "traces_validated_against_impl": fs.transitions + calls,
        "exports": n_exports,
        "functions_swept": n_fns,
        "calls": calls,
        "of_which_ladder_calls (each int parameter over 2^k - 1, 2^k, 2^k + 1 and negations, k = 0..63; each float parameter over +-2^k, its neighbours and half-way points, k = -3..64, zeros, infinities, NaN, extremes)": ladder_calls,
        "min_calls_per_function": min_calls,
        "calls_compared_with_reference_results": with_reference,
        "operator_equivalence_cases": ops_v.1,
        "string_helper_consistency_cases (replace = split joined; contains iff split separates; patterns incl. the empty one)": consistency.0,
        "cgetline_subprocess_cases": cg.0,
        "fs_model_states": fs.states,
        "fs_model_transitions": fs.transitions,
        "fs_fault_cases": fs.faults,
        "names_not_found_in_docs (documentation drift, not a violation)": undocumented,
        "distinct_outcomes": outcomes.len(),
        "samples": samples.items,
        "exhaustive": true,
        "rule": "the export list is discovered by walking the std value; every function is called through the host API with every tuple of palette values its declared parameter types admit (strided above a cap); no call may panic, every result must belong to the declared result type by contents and tag; pure helpers are compared with loop-based references; fs functions are explored as a state machine against a POSIX model in a scratch directory",
    });
    report.finish(
        "model_checking",
        coverage,
        &[
            "permission-denied states cannot be produced as root; they are represented by /proc targets and file-as-directory faults",
            "results the documentation does not pin down (empty patterns, non-ASCII case mapping, non-byte arrays) are only type-checked",
        ],
    )
}

fn cgetline_cases() -> (u64, Vec<Violation>) {
    use std::io::Write;
    use std::process::{Command, Stdio};
    let exe = std::env::current_exe().expect("own path");
    let mut out = Vec::new();
    let cases: Vec<(&str, Option<Vec<u8>>, &str)> = vec![
        ("closed", None, "\"\""),
        ("empty", Some(vec![]), "\"\""),
        ("line", Some(b"hello\nrest".to_vec()), "\"hello\""),
        ("no-newline", Some(b"abc".to_vec()), "\"abc\""),
        ("crlf", Some(b"a\r\n".to_vec()), "\"a\\r\""),
        ("unicode", "zażółć\n".as_bytes().to_vec().into(), "\"zażółć\""),
        ("invalid-utf8", Some(vec![0xff, 0xfe, b'\n']), "struct"),
    ];
    let n = cases.len() as u64;
    for (name, input, want) in cases {
        let mut cmd = Command::new(&exe);
        cmd.arg("C18").arg("--cgetline").stdout(Stdio::piped()).stderr(Stdio::null());
        if input.is_some() {
            cmd.stdin(Stdio::piped());
        } else {
            cmd.stdin(Stdio::null());
        }
        let mut child = cmd.spawn().expect("spawn self");
        if let Some(bytes) = input {
            let mut si = child.stdin.take().unwrap();
            let _ = si.write_all(&bytes);
        }
        let o = child.wait_with_output().expect("child output");
        let text = String::from_utf8_lossy(&o.stdout).trim().to_string();
        let ok = o.status.success() && if want == "struct" { text.starts_with("struct{error_code:=") } else { text == want };
        if !ok {
            out.push(Violation {
                sig: format!("C18|cgetline|stdin={name}"),
                detail: json!({"kind": "cgetline", "stdin": name, "expected": want, "observed": text, "exit": format!("{:?}", o.status.code())}),
            });
        }
    }
    (n, out)
}

/// child mode: run std.io.cgetline() once and print the canonical result
pub fn cgetline_child() -> i32 {
    crate::warm::warm();
    let ex = exports();
    let Some((_, Variable::Function(f))) = ex.into_iter().find(|(p, _)| p == "std.io.cgetline") else {
        println!("missing");
        return 3;
    };
    match call(&f, vec![]) {
        Ok(v) => {
            let declared_ok = match f.as_type() {
                Type::Function(ft) => belongs(&v, &Ty::from_impl(&ft.return_type)),
                _ => false,
            };
            println!("{}", canon(&v));
            if declared_ok {
                0
            } else {
                4
            }
        }
        Err(e) => {
            println!("{e}");
            5
        }
    }
}
