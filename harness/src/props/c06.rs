//! C06 — lexical scoping; closures capture by value at creation. Template families
//! over colliding names, every scope opener and every iterator consumer; each
//! program has a closed-form expected observation, is run as one program and as a
//! REPL history, and after every REPL step the interpreter holds exactly the names
//! declared at top level.
use crate::core::{self, guard, par_fold, Stop};
use crate::report::{Report, Samples, Violation};
use crate::val::canon;
use serde_json::json;
use simplesl::{verif, Code, Interpreter};
use std::collections::BTreeSet;

#[derive(Clone, Debug)]
struct Prog {
    family: String,
    /// top-level statements (each fed separately in the REPL route)
    stmts: Vec<String>,
    /// canonical dump of the value of the last statement, or None when the checker must reject
    expected: Option<String>,
    /// names declared at top level by these statements
    names: Vec<String>,
}

const NAMES: &[&str] = &["x", "val", "it", "value", "res", "con", "acc", "curr", "iter", "func", "mapper", "predicate", "array", "default", "i", "len", "iterator"];

/// (opener name, text with BODY placeholder, names it declares at top level)
fn openers() -> Vec<(&'static str, &'static str, Vec<&'static str>)> {
    vec![
        ("block", "{ BODY }", vec![]),
        ("function body", "sf := () -> any { BODY; return 0 }; sf()", vec!["sf"]),
        ("module", "mm := mod { BODY }", vec!["mm"]),
        ("loop body", "loop { BODY; break }", vec![]),
        ("match type arm", "match nc { q: int => { BODY }, => { }, }", vec![]),
        ("match value arm", "match nc { 7 => { BODY }, => { }, }", vec![]),
        ("if-set body", "if q: int = nc { BODY }", vec![]),
        ("if body", "if nc == 7 { BODY }", vec![]),
        ("for body", "for q in [1]~ { BODY }", vec![]),
        ("while body", "once := mut true; while *once { once = false; BODY }", vec!["once"]),
    ]
}

const PRELUDE: &[&str] = &["id := (q: any) -> any { return q }", "nc := id(7)", "obs := mut any ()"];
const PRELUDE_NAMES: &[&str] = &["id", "nc", "obs", "std"];

fn families(thorough: bool) -> Vec<Prog> {
    let mut out = Vec::new();
    let names: Vec<&str> = if thorough { NAMES.to_vec() } else { NAMES[..6].to_vec() };
    let pre = |extra: Vec<String>| -> Vec<String> { PRELUDE.iter().map(|s| s.to_string()).chain(extra).collect() };
    let with_names = |extra: &[&str]| -> Vec<String> { PRELUDE_NAMES.iter().chain(extra.iter()).map(|s| s.to_string()).collect() };
    // ---- 1. shadowing inside every scope opener: inner sees the inner, outer survives
    for (oname, otext, onames) in openers() {
        for n in &names {
            for (e1, e1_dump) in [("1", "1"), ("id(1)", "1"), ("mut 1", "cell#0(1)")] {
                let body = format!("{n} := 2; obs = {n}");
                let mut stmts = pre(vec![format!("{n} := {e1}")]);
                stmts.push(otext.replace("BODY", &body));
                stmts.push(format!("(*obs, {n})"));
                let mut nm: Vec<&str> = vec![n];
                nm.extend(onames.iter());
                out.push(Prog { family: format!("shadow in {oname}"), stmts, expected: Some(format!("(2, {e1_dump})")), names: with_names(&nm) });
            }
            // the same through the other declaration forms: destructuring and a function declaration
            for (form, decl, inner_dump) in [
                ("destructuring", format!("({n}, zz) := (2, 3)"), "2"),
                ("function declaration", format!("{n} := () -> int {{ return 2 }}"), "fn"),
            ] {
                for (e1, e1_dump) in [("id(1)", "1"), ("0 - 1", "-1")] {
                    let body = if inner_dump == "fn" { format!("{decl}; obs = {n}()") } else { format!("{decl}; obs = {n}") };
                    let mut stmts = pre(vec![format!("{n} := {e1}")]);
                    stmts.push(otext.replace("BODY", &body));
                    stmts.push(format!("(*obs, {n})"));
                    let mut nm: Vec<&str> = vec![n];
                    nm.extend(onames.iter());
                    out.push(Prog { family: format!("shadow by {form} in {oname}"), stmts, expected: Some(format!("(2, {e1_dump})")), names: with_names(&nm) });
                }
            }
            // a body that consists of the declaration alone (nothing the folder could not
            // simplify away): the outer name still means the outer value afterwards
            for (form, decl) in [
                ("declaration", format!("{n} := \"inner\"")),
                ("destructuring", format!("({n}, zz) := (\"inner\", 3)")),
                ("function declaration", format!("{n} := () -> int {{ return 2 }}")),
            ] {
                let mut stmts = pre(vec![format!("{n} := id(1)")]);
                stmts.push(otext.replace("BODY", &decl));
                stmts.push(format!("({n}, 0)"));
                let mut nm: Vec<&str> = vec![n];
                nm.extend(onames.iter());
                out.push(Prog { family: format!("lone {form} in {oname}"), stmts: stmts.clone(), expected: Some("(1, 0)".into()), names: with_names(&nm) });
                // the same inside a function, the outer name being a parameter
                let inner: Vec<String> = stmts[PRELUDE.len() + 1..stmts.len() - 1].to_vec();
                if !inner.iter().any(|t| t.contains("mm :=") || t.contains("sf :=")) {
                    let fstmts = pre(vec![format!("wf := ({n}: int) -> any {{ {}; return ({n}, 0) }}", inner.join("; ")), "wf(1)".into()]);
                    out.push(Prog { family: format!("lone {form} in {oname} inside a function"), stmts: fstmts, expected: Some("(1, 0)".into()), names: with_names(&["wf"]) });
                }
            }
            // declared inside, used after: must be rejected
            let mut stmts = pre(vec![]);
            stmts.push(otext.replace("BODY", &format!("{n} := 2")));
            stmts.push(n.to_string());
            out.push(Prog { family: format!("leak from {oname}"), stmts, expected: None, names: vec![] });
        }
    }
    // ---- 2. capture by value at creation; re-declaration after capture
    for n in &names {
        for (e1, dump1) in [("1", "1"), ("id(1)", "1"), ("[id(1)]", "[1]")] {
            out.push(Prog {
                family: "capture then redeclare".into(),
                stmts: pre(vec![format!("{n} := {e1}"), format!("g := () -> any {{ return {n} }}"), format!("{n} := \"later\""), format!("(g(), {n})")]),
                expected: Some(format!("({dump1}, \"later\")")),
                names: with_names(&[n, "g"]),
            });
            out.push(Prog {
                family: "capture in nested closure".into(),
                stmts: pre(vec![
                    format!("{n} := {e1}"),
                    format!("mk := () -> () -> any {{ return () -> any {{ return {n} }} }}"),
                    "g := mk()".into(),
                    format!("{n} := 99"),
                    "h := mk()".into(),
                    "(g(), h())".into(),
                ]),
                expected: Some(format!("({dump1}, {dump1})")),
                names: with_names(&[n, "mk", "g", "h"]),
            });
        }
        // a captured cell stays shared
        out.push(Prog {
            family: "captured cell stays shared".into(),
            stmts: pre(vec![format!("{n} := mut 0"), format!("g := () {{ {n} += 1 }}"), "g()".into(), "g()".into(), format!("c2 := {n}"), format!("{n} := 5"), "g()".into(), format!("(*c2, {n})")]),
            expected: Some("(3, 5)".into()),
            names: with_names(&[n, "g", "c2"]),
        });
        // lexical, not dynamic: the callee's local of the same name is invisible to the closure
        out.push(Prog {
            family: "lexical not dynamic".into(),
            stmts: pre(vec![
                format!("app := (h: () -> any) -> any {{ {n} := 99; return (h(), {n}) }}"),
                format!("{n} := id(1)"),
                format!("app(() -> any {{ return {n} }})"),
            ]),
            expected: Some("(1, 99)".into()),
            names: with_names(&["app", n]),
        });
        // parameters shadow outer names, and do not leak
        out.push(Prog {
            family: "parameter shadows".into(),
            stmts: pre(vec![format!("{n} := id(1)"), format!("f := ({n}: int) -> int {{ return {n} * 10 }}"), format!("(f(4), {n})")]),
            expected: Some("(40, 1)".into()),
            names: with_names(&[n, "f"]),
        });
        // closures made by one factory are independent
        out.push(Prog {
            family: "factory".into(),
            stmts: pre(vec![format!("mk := ({n}: int) -> () -> int {{ return () -> int {{ return {n} }} }}"), "a := mk(1)".into(), "b := mk(2)".into(), "(a(), b(), a())".into()]),
            expected: Some("(1, 2, 1)".into()),
            names: with_names(&["mk", "a", "b"]),
        });
        // the same with *named* function declarations, which are evaluated afresh each time too
        out.push(Prog {
            family: "named factory".into(),
            stmts: pre(vec![format!("mk := (q: int) -> () -> int {{ {n} := () -> int {{ return q }}; return {n} }}"), "a := mk(1)".into(), "b := mk(2)".into(), "(a(), b(), a())".into()]),
            expected: Some("(1, 2, 1)".into()),
            names: with_names(&["mk", "a", "b"]),
        });
        out.push(Prog {
            family: "named closure in a loop body".into(),
            stmts: pre(vec!["total := mut 0".into(), format!("for ix in [1, 2, 3]~ {{ {n} := () -> int {{ return ix }}; total += {n}() }}"), "*total".into()]),
            expected: Some("6".into()),
            names: with_names(&["total"]),
        });
        out.push(Prog {
            family: "named helper in a function called twice".into(),
            stmts: pre(vec![format!("t := (k: int, m: int) -> int {{ {n} := (j: int) -> int {{ return j * k }}; return {n}(m) }}"), "(t(2, 3), t(5, 3))".into()]),
            expected: Some("(6, 15)".into()),
            names: with_names(&["t"]),
        });
        out.push(Prog {
            family: "named recursive helper in a function called twice".into(),
            stmts: pre(vec![format!("t := (k: int, m: int) -> int {{ {n} := (j: int) -> int {{ if j <= 0 {{ return 0 }}; return k + {n}(j - 1) }}; return {n}(m) }}"), "(t(2, 3), t(5, 3))".into()]),
            expected: Some("(6, 15)".into()),
            names: with_names(&["t"]),
        });
        out.push(Prog {
            family: "factory with cell".into(),
            stmts: pre(vec![
                format!("mk := () -> () -> int {{ {n} := mut 0; return () -> int {{ {n} += 1; return *{n} }} }}"),
                "a := mk()".into(),
                "b := mk()".into(),
                "(a(), a(), b(), a())".into(),
            ]),
            expected: Some("(1, 2, 1, 3)".into()),
            names: with_names(&["mk", "a", "b"]),
        });
    }
    // ---- 2b. a body that runs several times gets a fresh scope every time: a use that
    //          textually precedes the re-declaration in the same body means the enclosing name
    //          in every iteration, and so does a closure created there
    let repeaters: [(&str, &str); 4] = [
        ("loop", "loop { k += 1; BODY; if *k >= 3 { break } }"),
        ("while", "while *k < 3 { k += 1; BODY }"),
        ("for", "for q in [1, 2, 3]~ { k += 1; BODY }"),
        ("while-set", "cnt := mut 0; nx := () -> any { cnt += 1; if *cnt <= 3 { return *cnt }; return () }; while q: int = nx() { k += 1; BODY }"),
    ];
    for (rname, rtext) in repeaters {
        for n in &names {
            for (use_n, fam) in [(n.to_string(), "use before redeclaration"), (format!("(() -> any {{ return {n} }})()"), "closure before redeclaration")] {
                let body = format!("seen += [{use_n}]; {n} := *k * 10; seen += [{n}]");
                // at top level: the enclosing name is a run-time value
                let mut stmts = pre(vec![format!("{n} := id(1)"), "seen := mut [any] []".into(), "k := mut 0".into()]);
                stmts.push(rtext.replace("BODY", &body));
                stmts.push(format!("(*seen, {n})"));
                let mut nm: Vec<&str> = vec![n, "seen", "k"];
                if rname == "while-set" {
                    nm.extend(["cnt", "nx"]);
                }
                out.push(Prog { family: format!("{fam} in {rname} body"), stmts, expected: Some("([1, 10, 1, 20, 1, 30], 1)".into()), names: with_names(&nm) });
                // inside a function: the enclosing name is a parameter
                let stmts = pre(vec![
                    format!("f := ({n}: int) -> any {{ seen := mut [any] []; k := mut 0; {}; return (*seen, {n}) }}", rtext.replace("BODY", &body)),
                    "f(1)".into(),
                ]);
                out.push(Prog { family: format!("{fam} in {rname} body of a function"), stmts, expected: Some("([1, 10, 1, 20, 1, 30], 1)".into()), names: with_names(&["f"]) });
            }
        }
    }
    // ---- 2c. a closure captured the outer value of a name; an inner binder of the same name inside
    //          its body (every binder form) ends with its scope, later uses mean the captured value
    let binders: [(&str, &str); 9] = [
        ("match type arm", "r := match 5 { NAME: int => NAME, => 0, }"),
        ("match type arm, not last", "r := match 5 { NAME: string => 0, NAME: int => NAME, => 0, }"),
        ("if-set", "r := if NAME: int = 5 { NAME } else { 0 }"),
        ("while-set", "r := mut 0; while NAME: int = 5 { r = NAME; break }"),
        ("for", "r := mut 0; for NAME in [5]~ { r = NAME }"),
        ("block declaration", "r := { NAME := 5; NAME }"),
        ("block destructuring", "r := { (NAME, zz) := (5, 6); NAME }"),
        ("nested parameter", "r := ((NAME: int) -> int { return NAME })(5)"),
        ("nested function declaration", "r := { NAME := () -> int { return 5 }; NAME() }"),
    ];
    for (bname, btext) in binders {
        for n in &names {
            let b = btext.replace("NAME", n);
            // created by a factory: the captured name is the factory's parameter
            out.push(Prog {
                family: format!("capture survives inner binder: {bname}"),
                stmts: pre(vec![format!("mk := ({n}: int) -> () -> any {{ return () -> any {{ {b}; return (0, {n}) }} }}"), "g := mk(40)".into(), "g()".into()]),
                expected: Some("(0, 40)".into()),
                names: with_names(&["mk", "g"]),
            });
            // created at top level: the captured name is a run-time top-level value
            out.push(Prog {
                family: format!("capture survives inner binder at top level: {bname}"),
                stmts: pre(vec![format!("{n} := id(40)"), format!("g := () -> any {{ {b}; return (0, {n}) }}"), format!("{n} := \"later\""), "g()".into()]),
                expected: Some("(0, 40)".into()),
                names: with_names(&[n, "g"]),
            });
        }
    }
    // ---- 3. recursion by declared name from every call path
    let rec = "rec := (n: int) -> int { if n <= 0 { return 0 }; return n + rec(n - 1) }";
    for (call, want) in [
        ("rec(3)", "6"),
        ("via := (q: (int) -> int) -> int { return q(3) }; via(rec)", "6"),
        ("other := rec; rec := (n: int) -> int { return 0 - 1 }; other(3)", "6"),
        ("[1, 2, 3]~ @ rec $]", "[1, 3, 6]"),
        ("[1, 2, 3]~ ? (v: int) -> bool { return rec(v) > 2 } $]", "[2, 3]"),
        ("[3]~ $ 0 (acc: int, v: int) -> int { return rec(v) }", "6"),
        ("([2, 3]~ \\ (v: int) -> bool { return rec(v) > 3 }).0", "[3]"),
        ("r := mut 0; for v in [3]~ { r = rec(v) }; *r", "6"),
        ("s := struct{ f := rec }; s.f(3)", "6"),
        ("arr := [rec]; arr[0](3)", "6"),
        ("c := mut rec; (*c)(3)", "6"),
        ("{ rec := (n: int) -> int { return 100 }; rec(3) }", "100"),
    ] {
        let mut stmts: Vec<String> = pre(vec![rec.to_string()]);
        let parts: Vec<&str> = if call.starts_with('{') { vec![call] } else { call.split("; ").collect() };
        let mut declared = vec!["rec"];
        for p in &parts {
            if let Some((lhs, _)) = p.split_once(" := ") {
                if lhs.chars().all(|c| c.is_ascii_alphanumeric()) {
                    declared.push(Box::leak(lhs.to_string().into_boxed_str()));
                }
            }
            stmts.push(p.to_string());
        }
        out.push(Prog { family: "recursion by declared name".into(), stmts, expected: Some(want.into()), names: with_names(&declared) });
    }
    // a recursive user-written iterator applied by every consumer, also passed under another name
    let rit = "rit := () -> (bool, int) { k += 1; if *k > 2 { return (false, 0) }; if *k == 1 { return rit() }; return (true, *k) }";
    for (consumer, want) in [("$]", "[2]"), ("$+", "2"), ("@ (v: int) -> int { return v * 2 } $]", "[4]"), ("? (v: int) -> bool { return true } $]", "[2]"), ("$ 10 (a: int, v: int) -> int { return a + v }", "12"), ("? int $]", "[2]")] {
        out.push(Prog {
            family: "recursive iterator".into(),
            stmts: pre(vec!["k := mut 0".into(), rit.into(), format!("rit {consumer}")]),
            expected: Some(want.into()),
            names: with_names(&["k", "rit"]),
        });
        out.push(Prog {
            family: "recursive iterator under another name".into(),
            stmts: pre(vec!["k := mut 0".into(), rit.into(), format!("use := (other: () -> (bool, int)) -> any {{ return other {consumer} }}"), "use(rit)".into()]),
            expected: Some(want.into()),
            names: with_names(&["k", "rit", "use"]),
        });
    }
    // ---- 4. nothing an iterator / operator implementation declares is visible to, or overwrites a name of, its caller
    let consumers: Vec<(&str, &str)> = vec![
        ("$]", "[0, 1]"),
        ("\\ (v: int) -> bool { return v > 0 }", "([1], [0])"),
        ("@ (v: int) -> int { return v + 10 } $]", "[10, 11]"),
        ("? (v: int) -> bool { return v > 0 } $]", "[1]"),
        ("? int $]", "[0, 1]"),
        ("$ 0 (a: int, v: int) -> int { return a * 10 + v }", "1"),
        ("$+", "1"),
        ("$*", "0"),
        ("$&", "0"),
        ("$|", "1"),
        ("@ (v: int) -> bool { return v > 0 } $&&", "false"),
        ("@ (v: int) -> bool { return v > 0 } $||", "true"),
    ];
    for n in NAMES {
        if !thorough && !names.contains(n) && !["value", "res", "con"].contains(n) {
            continue;
        }
        let uit = format!("uit := () -> (bool, int) {{ {n} := *cnt; cnt += 1; if {n} < 2 {{ return (true, {n}) }}; return (false, 0) }}");
        for (consumer, want) in &consumers {
            // at top level (REPL and batch)
            out.push(Prog {
                family: "iterator declares the caller's name (top level)".into(),
                stmts: pre(vec![format!("{n} := id(7)"), "cnt := mut 0".into(), uit.clone(), format!("r := uit {consumer}"), format!("(r, {n})")]),
                expected: Some(format!("({want}, 7)")),
                names: with_names(&[n, "cnt", "uit", "r"]),
            });
            // inside a function body, where the name is a local
            out.push(Prog {
                family: "iterator declares the caller's name (in function)".into(),
                stmts: pre(vec![
                    "cnt := mut 0".into(),
                    uit.clone(),
                    format!("caller := () -> any {{ {n} := id(7); r := uit {consumer}; return (r, {n}) }}"),
                    "caller()".into(),
                ]),
                expected: Some(format!("({want}, 7)")),
                names: with_names(&["cnt", "uit", "caller"]),
            });
        }
        // for loop
        out.push(Prog {
            family: "iterator declares the caller's name (for)".into(),
            stmts: pre(vec![format!("{n} := id(7)"), "cnt := mut 0".into(), uit.clone(), "acc2 := mut [any] []".into(), format!("for e in uit {{ acc2 += [e] }}"), format!("(*acc2, {n})")]),
            expected: Some("([0, 1], 7)".into()),
            names: with_names(&[n, "cnt", "uit", "acc2"]),
        });
        // array iterator and callbacks that declare the name
        out.push(Prog {
            family: "callback declares the caller's name".into(),
            stmts: pre(vec![
                format!("{n} := id(7)"),
                format!("cb := (v: int) -> int {{ {n} := v * 2; return {n} }}"),
                format!("pr := (v: int) -> bool {{ {n} := v > 1; return {n} }}"),
                "r := ([1, 2]~ @ cb $], [1, 2]~ ? pr $], [1, 2]~ \\ pr, [1, 2]~ $ 0 (a: int, v: int) -> int { return cb(v) })".into(),
                format!("(r, {n})"),
            ]),
            expected: Some("(([2, 4], [2], ([2], [1]), 4), 7)".into()),
            names: with_names(&[n, "cb", "pr", "r"]),
        });
    }
    // ---- 4b. binders (if-set, match type arm, while-set, for, parameters) are visible in their body only:
    //          the else branch, the other arms and the code after still see the enclosing declaration
    for n in &names {
        let cases: Vec<(&str, String, &str)> = vec![
            ("if-set else branch", format!("f := ({n}: int, zw: int | string) -> any {{ if {n}: string = zw {{ return std.len({n}) }} else {{ return {n} }} }}; (f(7, 3), f(7, \"ab\"))"), "(7, 2)"),
            ("if-set else-if chain", format!("f := ({n}: int, zw: int | string | float) -> any {{ if {n}: string = zw {{ return 1 }} else if {n}: float = zw {{ return 2 }} else {{ return {n} }} }}; (f(7, 3), f(7, 1.5), f(7, \"s\"))"), "(7, 2, 1)"),
            ("after if-set", format!("f := ({n}: int, zw: int | string) -> any {{ if {n}: string = zw {{ obs = {n} }}; return {n} }}; (f(7, \"ab\"), *obs)"), "(7, \"ab\")"),
            ("match later arms", format!("f := ({n}: int, zw: int | string | float) -> any {{ return match zw {{ {n}: string => 1, 9 => {n} + 100, {n}: float => 2, => {n}, }} }}; (f(7, 3), f(7, \"s\"), f(7, 9), f(7, 1.5))"), "(7, 1, 107, 2)"),
            ("after while-set", format!("f := ({n}: int) -> any {{ zsrc := [1, 2]~; while {n}: (bool, int) = zsrc() {{ if !{n}.0 {{ break }} }}; return {n} }}; f(7)"), "7"),
            ("after for", format!("f := ({n}: int) -> any {{ for {n} in [1, 2]~ {{ obs = {n} }}; return ({n}, *obs) }}; f(7)"), "(7, 2)"),
            ("for body sees loop variable", format!("f := ({n}: int) -> any {{ zacc := mut 0; for {n} in [1, 2]~ {{ zacc += {n} }}; return (*zacc, {n}) }}; f(7)"), "(3, 7)"),
            ("nested function parameter", format!("f := ({n}: int) -> any {{ zg := ({n}: string) -> any {{ return {n} }}; return (zg(\"in\"), {n}) }}; f(7)"), "(\"in\", 7)"),
            ("destructuring in block", format!("f := ({n}: int) -> any {{ {{ ({n}, zother) := (1, 2); obs = {n} + zother }}; return ({n}, *obs) }}; f(7)"), "(7, 3)"),
            ("top-level if-set else", format!("{n} := id(7); zw := id(3); r := if {n}: string = zw {{ 1 }} else {{ {n} }}; ({n}, r)"), "(7, 7)"),
            ("top-level match arms", format!("{n} := id(7); zw := id(3); r := match zw {{ {n}: string => 1, => {n}, }}; ({n}, r)"), "(7, 7)"),
        ];
        for (fam, text, want) in cases {
            let mut stmts: Vec<String> = pre(vec![]);
            let mut declared: Vec<&str> = Vec::new();
            for p in text.split("; ") {
                // only split at top level: statements of these programs that contain braces are kept whole
                stmts.push(p.to_string());
            }
            // re-join pieces that were split inside braces
            let mut joined: Vec<String> = Vec::new();
            let mut depth = 0i32;
            for p in stmts.drain(PRELUDE.len()..) {
                if depth > 0 {
                    let last = joined.last_mut().unwrap();
                    last.push_str("; ");
                    last.push_str(&p);
                } else {
                    joined.push(p.clone());
                }
                depth += p.matches('{').count() as i32 - p.matches('}').count() as i32;
            }
            for j in &joined {
                if let Some((lhs, _)) = j.split_once(" := ") {
                    if lhs.chars().all(|c| c.is_ascii_alphanumeric() || c == '_') {
                        declared.push(Box::leak(lhs.to_string().into_boxed_str()));
                    }
                }
            }
            stmts.extend(joined);
            out.push(Prog { family: format!("binder scope: {fam}"), stmts, expected: Some(want.into()), names: with_names(&declared) });
        }
    }
    // ---- 5. a module / import yields exactly its own top-level names
    out.push(Prog {
        family: "module fields".into(),
        stmts: pre(vec!["outer := id(1)".into(), "m := mod { a := outer; f := () -> int { return 2 }; { hidden := 3 }; (p, q) := (4, 5) }".into(), "(m.a, m.f(), m.p, m.q)".into()]),
        expected: Some("(1, 2, 4, 5)".into()),
        names: with_names(&["outer", "m"]),
    });
    for hidden in ["m.hidden", "m.outer", "m.id", "m.std", "m.nc"] {
        out.push(Prog {
            family: "module does not export".into(),
            stmts: pre(vec!["outer := id(1)".into(), "m := mod { a := outer; { hidden := 3 } }".into(), hidden.into()]),
            expected: None,
            names: vec![],
        });
    }
    out.push(Prog {
        family: "import fields".into(),
        stmts: pre(vec!["lib := import \"/verif/harness/corpus/lib.ssl\"".into(), "(lib.one, lib.inc(5))".into()]),
        expected: Some("(1, 6)".into()),
        names: with_names(&["lib"]),
    });
    for hidden in ["lib.hidden", "lib.id", "lib.std", "one", "inc"] {
        out.push(Prog {
            family: "import does not export / leak".into(),
            stmts: pre(vec!["lib := import \"/verif/harness/corpus/lib.ssl\"".into(), hidden.into()]),
            expected: None,
            names: vec![],
        });
    }
    // ---- 6. after a construct that binds a name in its own scope, the name means the enclosing
    //         declaration again - also for the checker: the enclosing value has another type and
    //         is used by an operation of that type; at top level and with a parameter as the outer
    let binders: Vec<(&str, String)> = vec![
        ("for", "for N in [1, 2]~ { obs = N }".into()),
        ("match type arm", "match nc { N: int => { obs = N }, => { }, }".into()),
        ("if-set", "if N: int = nc { obs = N }".into()),
        ("while-set", "while N: int = nc { obs = N; break }".into()),
        ("parameter", "pf := (N: int) -> int { return N }; pf(1)".into()),
        ("declaration in block", "{ N := 2; obs = N }".into()),
        ("destructuring in block", "{ (N, zz) := (2, 3); obs = N }".into()),
        ("function declaration in block", "{ N := () -> int { return 2 }; obs = N() }".into()),
        ("module", "mq := mod { N := 2 }".into()),
        ("map callback parameter", "[1]~ @ (N: int) -> int { return N } $]".into()),
        ("reduce callback parameters", "[1]~ $ 0 (N: int, ww: int) -> int { return N + ww }".into()),
        ("for in nested block", "{ for N in [1]~ { obs = N } }".into()),
        ("nested for", "for N in [1]~ { for N in [2]~ { obs = N } }".into()),
    ];
    for n in &names {
        for (bname, btext) in &binders {
            let b = btext.replace('N', n);
            let declared: Vec<&str> = [("pf :=", "pf"), ("mq :=", "mq")].iter().filter(|(k, _)| b.contains(k)).map(|(_, v)| *v).collect();
            for (e1, form) in [("\"s\"", "constant"), ("id(\"s\") + \"\"", "run-time")] {
                if form == "run-time" && e1.contains("id(") {
                    // id returns any: bind through a typed function instead
                }
                let outer = if form == "constant" { format!("{n} := \"s\"") } else { format!("{n} := std.string.to_lowercase(\"S\")") };
                let mut nm: Vec<&str> = vec![n];
                nm.extend(declared.iter());
                out.push(Prog {
                    family: format!("typed use after binder: {bname} ({form} outer)"),
                    stmts: pre(vec![outer, b.clone(), format!("{n} + \"b\"")]),
                    expected: Some("\"sb\"".into()),
                    names: with_names(&nm),
                });
                let _ = e1;
            }
            out.push(Prog {
                family: format!("typed use after binder inside a function: {bname}"),
                stmts: pre(vec![format!("wf := ({n}: string) -> any {{ {b}; return {n} + \"b\" }}"), "wf(\"s\")".into()]),
                expected: Some("\"sb\"".into()),
                names: with_names(&["wf"]),
            });
        }
    }
    // ---- 7. a module yields exactly its own top-level names, whatever statements it contains:
    //         binders of every kind at its top level, with and without an enclosing name of the
    //         same spelling
    for n in &names {
        for (bname, btext) in &binders {
            if btext.contains("mq :=") || btext.contains("pf :=") {
                continue;
            }
            let b = btext.replace('N', n);
            for with_outer in [false, true] {
                let mut extra = Vec::new();
                let mut nm: Vec<&str> = vec!["mm"];
                if with_outer {
                    extra.push(format!("{n} := 10"));
                    nm.push(n);
                }
                extra.push(format!("mm := mod {{ {b}; a := 1 }}"));
                extra.push("mm == struct{ a := 1 }".into());
                out.push(Prog {
                    family: format!("module with a top-level binder yields only its declarations: {bname}{}", if with_outer { " (enclosing name of the same spelling)" } else { "" }),
                    stmts: pre(extra),
                    expected: Some("true".into()),
                    names: with_names(&nm),
                });
            }
        }
    }
    // ---- 8. a free name of an imported file denotes the nearest declaration preceding *that*
    //         import statement: the same file imported from scopes where the name is another
    //         constant, a run-time value, another type (rejected), or not declared (rejected);
    //         by separate programs of this process and twice within one program
    let outer_file = "/verif/harness/corpus/uses_outer.ssl"; // y := x + 1; z := (v: int) -> int { return v + x };
    for (decl, want) in [("x := 10", Some("(11, 11)")), ("x := 1", Some("(2, 2)")), ("x := id(5) + 0", None), ("x := \"s\"", None), ("w := 1", None), ("x := 3", Some("(4, 4)"))] {
        // `id` returns any: x + 1 on any is rejected
        out.push(Prog {
            family: format!("import sees the scope of its import site: {decl}"),
            stmts: pre(vec![decl.into(), format!("m := import \"{outer_file}\""), "(m.y, m.z(1))".into()]),
            expected: want.map(|w| w.to_string()),
            names: if want.is_some() { with_names(&[decl.split(' ').next().unwrap(), "m"]) } else { vec![] },
        });
    }
    out.push(Prog {
        family: "the same file imported twice in one program".into(),
        stmts: pre(vec!["x := 1".into(), format!("a := import \"{outer_file}\""), format!("r := {{ x := 5; b := import \"{outer_file}\"; (b.y, b.z(1)) }}"), "x := 7".into(), format!("c := import \"{outer_file}\""), "(a.y, a.z(1), r, c.y, c.z(1))".into()]),
        expected: Some("(2, 2, (6, 6), 8, 8)".into()),
        names: with_names(&["x", "a", "r", "c"]),
    });
    out.push(Prog {
        family: "the same file imported inside a function called with different arguments".into(),
        stmts: pre(vec![format!("imp := (x: int) -> any {{ m := import \"{outer_file}\"; return (m.y, m.z(1)) }}"), "(imp(1), imp(10))".into()]),
        expected: Some("((2, 2), (11, 11))".into()),
        names: with_names(&["imp"]),
    });
    // ---- 9. capture reaches every position of a function body, also the lazily evaluated ones
    //         and those next to a captured value that decides them at creation: the function is
    //         created, every captured name is re-declared, then it is called
    for cb in [true, false] {
        let forms: Vec<(&str, &str, String)> = vec![
            ("right operand of &&", "return cb && n == 1", format!("{}", cb)),
            ("right operand of ||", "return cb || n == 1", "true".into()),
            ("right operand of a && chain", "return cb && cb && n == 1", format!("{}", cb)),
            ("under !", "return !(cb && n == 1)", format!("{}", !cb)),
            ("then branch", "if cb { return n }; return 0", if cb { "1" } else { "0" }.into()),
            ("else branch", "if cb { return 0 } else { return n }", if cb { "0" } else { "1" }.into()),
            ("if-else value", "r := if cb { n } else { 0 - n }; return r", if cb { "1" } else { "-1" }.into()),
            ("match arm", "return match cb { true => n, => 0 - n, }", if cb { "1" } else { "-1" }.into()),
            ("while condition", "k := mut 0; while cb && *k < n { k += 1 }; return *k", if cb { "1" } else { "0" }.into()),
            ("nested function", "h := () -> any { return cb && n == 1 }; return h()", format!("{}", cb)),
            ("index", "return [10, 20][n]", "20".into()),
            ("call argument", "return id((cb, n))", format!("({}, 1)", cb)),
            ("if-set subject", "if q: int = n { return (cb, q) }; return 0", format!("({}, 1)", cb)),
        ];
        for (fname, body, want) in forms {
            out.push(Prog {
                family: format!("capture in every position: {fname} (captured bool {cb})"),
                stmts: pre(vec![
                    "n := std.len([0])".into(),
                    format!("cb := std.len([0]) == {}", if cb { 1 } else { 2 }),
                    format!("g := () -> any {{ {body} }}"),
                    "n := 99".into(),
                    format!("cb := {}", !cb),
                    "g()".into(),
                ]),
                expected: Some(want),
                names: with_names(&["n", "cb", "g"]),
            });
        }
    }
    // ---- 10. nothing a callee declares is visible to its caller: user code driven by every
    //          construct that calls it (for, @, ?, $, $], partition, manual pulls, a call) declares
    //          locals spelled like run-time names of the caller, which the caller uses while
    //          (loop bodies, callbacks) and after the construct runs
    // (the iterator factory and the drivers have names of their own - i, acc, r, g, a, b, e - which are not used as the tested name)
    for n in names.iter().filter(|n| !["i", "acc", "r", "g", "a", "b", "e"].contains(*n)) {
        let it = format!("mk := () -> () -> (bool, int) {{ i := mut 0; return () -> (bool, int) {{ {n} := 3; i += 1; if *i <= 2 {{ return (true, {n}) }}; return (false, 0) }} }}");
        let drivers: Vec<(&str, String, &str)> = vec![
            ("for over a user iterator", format!("acc := mut 0; for e in mk() {{ acc += {n} }}; (*acc, {n})"), "(600, 300)"),
            ("for with an inner binder", format!("acc := mut 0; for e in mk() {{ if q: int = e {{ acc += {n} }} }}; (*acc, {n})"), "(600, 300)"),
            ("nested for", format!("acc := mut 0; for e in mk() {{ for d in mk() {{ acc += {n} }} }}; (*acc, {n})"), "(1200, 300)"),
            ("map over a user iterator", format!("r := mk() @ (e: int) -> int {{ return e + {n} }} $]; (r, {n})"), "([303, 303], 300)"),
            ("filter over a user iterator", format!("r := mk() ? (e: int) -> bool {{ return {n} == 300 }} $]; (r, {n})"), "([3, 3], 300)"),
            ("reduce over a user iterator", format!("r := mk() $ 0 (a: int, e: int) -> int {{ return a + {n} }}; (r, {n})"), "(600, 300)"),
            ("collect", format!("r := mk() $]; (r, {n})"), "([3, 3], 300)"),
            ("sum", format!("r := mk() $+; (r, {n})"), "(6, 300)"),
            ("partition", format!("r := mk() \\ (e: int) -> bool {{ return {n} == 300 }}; (r, {n})"), "(([3, 3], []), 300)"),
            ("manual pulls", format!("g := mk(); a := g(); b := g(); (a, b, {n})"), "((true, 3), (true, 3), 300)"),
            ("while-set over pulls", format!("g := mk(); acc := mut 0; while p: (bool, int) = g() {{ if !p.0 {{ break }}; acc += {n} }}; (*acc, {n})"), "(600, 300)"),
            ("callback declaring the name", format!("r := [1, 2]~ @ (e: int) -> int {{ {n} := 5; return e + {n} }} $]; (r, {n})"), "([6, 7], 300)"),
        ];
        for (dname, text, want) in drivers {
            out.push(Prog {
                family: format!("callee locals invisible to the caller: {dname}"),
                stmts: pre(vec![format!("{n} := std.len([0]) * 300"), it.clone(), text.clone()]),
                expected: Some(want.to_string()),
                names: with_names(&{
                    let mut v: Vec<&str> = vec![n, "mk"];
                    for d in ["acc", "r", "g", "a", "b"] {
                        if text.contains(&format!("{d} :=")) && !v.contains(&d) {
                            v.push(d);
                        }
                    }
                    v
                }),
            });
            // the same with the caller a function and the name its parameter
            out.push(Prog {
                family: format!("callee locals invisible to the caller (parameter): {dname}"),
                stmts: pre(vec![it.clone(), {
                    let (head, last) = text.rsplit_once("; (").expect("driver text ends with a tuple");
                    format!("cf := ({n}: int) -> any {{ {head}; return ({last} }}")
                }, "cf(300)".into()]),
                expected: Some(want.to_string()),
                names: with_names(&["mk", "cf"]),
            });
        }
        // a named iterator that calls itself, consumed where its name is not in scope
        out.push(Prog {
            family: "self-referencing iterator driven outside its scope".into(),
            stmts: pre(vec![
                format!("mk2 := () -> () -> (bool, int) {{ c := mut 0; {n}it := () -> (bool, int) {{ c += 1; if *c % 2 == 1 {{ return {n}it() }}; return (*c < 6, *c) }}; return {n}it }}"),
                "a1 := mut [any] []; for e in mk2() { a1 += [e] }; (*a1, mk2() $], mk2() @ (e: int) -> int { return e } $])".into(),
            ]),
            expected: Some("([2, 4], [2, 4], [2, 4])".into()),
            names: with_names(&["mk2", "a1"]),
        });
    }
    // ---- a declaration whose right-hand side mentions the names it declares: every use on the
    // right denotes the declaration that precedes the statement (all components are evaluated
    // before any name is bound), and a function value made on the right captures that one too;
    // with the earlier values constants, run-time values at top level, parameters, values read
    // from cells, and inside a loop body
    {
        // (statement, observation, expected with x = 1, y = 2, z = 3, names it adds)
        let templates: &[(&str, &str, &str, &[&str])] = &[
            ("(x, y) := (y, x)", "(x, y)", "(2, 1)", &[]),
            ("(x, y) := (y, x + y)", "(x, y)", "(2, 3)", &[]),
            ("(x, y) := (x + y, x)", "(x, y)", "(3, 1)", &[]),
            ("(x, y, z) := (y, z, x)", "(x, y, z)", "(2, 3, 1)", &[]),
            ("x := x + 10", "(x, y)", "(11, 2)", &[]),
            ("(x, w) := (x + 1, x + 2)", "(x, w)", "(2, 3)", &["w"]),
            ("(x, get) := (x + 100, () -> int { return x })", "(x, get())", "(101, 1)", &["get"]),
            ("(get, x) := (() -> int { return x }, x + 100)", "(x, get())", "(101, 1)", &["get"]),
            ("(x, y) := ((y, x).0, (y, x).1)", "(x, y)", "(2, 1)", &[]),
            ("(x, y) := (idi(y), idi(x))", "(x, y)", "(2, 1)", &[]),
        ];
        let idi = "idi := (q: int) -> int { return q }".to_string();
        for (stmt, obs, want, extra) in templates {
            let mut nm: Vec<&str> = vec!["idi", "x", "y", "z"];
            nm.extend(extra.iter());
            for (mode, binders) in [
                ("constants", vec!["x := 1", "y := 2", "z := 3"]),
                ("run-time values", vec!["x := idi(1)", "y := idi(2)", "z := idi(3)"]),
                ("values read from cells", vec!["cx := mut 1", "cy := mut 2", "cz := mut 3", "(x, y, z) := (*cx, *cy, *cz)"]),
            ] {
                let mut stmts = pre(vec![idi.clone()]);
                stmts.extend(binders.iter().map(|b| b.to_string()));
                stmts.push(stmt.to_string());
                stmts.push(obs.to_string());
                let mut nm2 = nm.clone();
                if mode == "values read from cells" {
                    nm2.extend(["cx", "cy", "cz"]);
                }
                out.push(Prog { family: format!("declaration from the names it declares ({mode}): {stmt}"), stmts, expected: Some(want.to_string()), names: with_names(&nm2) });
            }
            // the names are parameters
            out.push(Prog {
                family: format!("declaration from the names it declares (parameters): {stmt}"),
                stmts: pre(vec![idi.clone(), format!("pf := (x: int, y: int, z: int) -> any {{ {stmt}; return {obs} }}"), "pf(1, 2, 3)".into()]),
                expected: Some(want.to_string()),
                names: with_names(&["idi", "pf"]),
            });
            // in a loop body that runs twice (the second round starts from fresh bindings of the loop's own)
            out.push(Prog {
                family: format!("declaration from the names it declares (loop body): {stmt}"),
                stmts: pre(vec![idi.clone(), format!("lf := () -> any {{ seen := mut [any] []; for round in [0, 0]~ {{ x := idi(1); y := idi(2); z := idi(3); {stmt}; seen += [{obs}] }}; return *seen }}"), "lf()".into()]),
                expected: Some(format!("[{want}, {want}]")),
                names: with_names(&["idi", "lf"]),
            });
        }
    }
    // ---- closures made in different passes of a loop written at *top level* (and in a block, a
    //      function, a branch): a name declared in the body - a cell with a constant / typed /
    //      computed initial value among them - is declared anew on every pass, so each closure keeps
    //      the one of its own pass ("captured cells stay shared" is about one cell, not one spelling)
    for (wname, wrap) in [("top level", "LOOP"), ("block", "{ LOOP }"), ("branch", "if nc == 7 { LOOP }"), ("function", "wf := () { LOOP }; wf()")] {
        for (lname, lp) in [
            ("while", "kk := mut 0; while *kk < 3 { kk += 1; BODY }"),
            ("for", "for ee in [1, 2, 3]~ { BODY }"),
            ("loop", "kk := mut 0; loop { kk += 1; BODY; if *kk >= 3 { break } }"),
        ] {
            for (iname, init, step, want) in [
                ("constant cell", "mut 0", "cc += 1", "(1, 2, 1, 1)"),
                ("typed cell", "mut int 5", "cc += 1", "(6, 7, 6, 6)"),
                ("computed cell", "mut std.len([0; 0])", "cc += 1", "(1, 2, 1, 1)"),
                ("array cell", "mut [int] []", "cc += [1]", "([1], [1, 1], [1], [1])"),
                ("string cell", "mut \"a\"", "cc += \"b\"", "(\"ab\", \"abb\", \"ab\", \"ab\")"),
                ("cell in a tuple", "(mut 0, 1)", "cq := cc.0; cq += 1", "(1, 2, 1, 1)"),
            ] {
                let ret = if iname == "cell in a tuple" { "*(cc.0)" } else { "*cc" };
                let body = format!("cc := {init}; fs += [() -> any {{ {step}; return {ret} }}]");
                let text = wrap.replace("LOOP", &lp.replace("BODY", &body));
                let mut stmts = pre(vec!["fs := mut [() -> any] []".to_string(), text]);
                stmts.push("gs := *fs".into());
                stmts.push("(gs[0](), gs[0](), gs[1](), gs[2]())".into());
                let mut nm = vec!["fs", "gs"];
                if wname == "top level" && lname != "for" {
                    nm.push("kk");
                }
                if wname == "function" {
                    nm.push("wf");
                }
                out.push(Prog { family: format!("closure per pass of a {lname} loop ({wname}), {iname}"), stmts, expected: Some(want.to_string()), names: with_names(&nm) });
            }
        }
    }
    out
}

#[derive(Debug, PartialEq)]
enum Got {
    Value(String, Vec<String>),
    Rejected,
    Other(String),
}

/// runs the statements through the REPL route (one input per statement) or as one batch
fn run(stmts: &[String], batch: bool, check_names_each_step: Option<(&[String], &mut Vec<String>)>) -> Got {
    verif::set_fuel(Some(core::QUICK_FUEL), Some(core::DEPTH));
    let mut interp = Interpreter::with_stdlib();
    let inputs: Vec<String> = if batch { vec![stmts.join(";\n")] } else { stmts.to_vec() };
    let mut last = String::new();
    let mut leak_notes = check_names_each_step;
    let mut declared_so_far: BTreeSet<String> = ["std".to_string()].into_iter().collect();
    for (k, inp) in inputs.iter().enumerate() {
        let code = match guard(|| Code::parse(&interp, inp)) {
            Ok(Ok(c)) => c,
            Ok(Err(_)) => return Got::Rejected,
            Err(Stop::Panic(p)) => return Got::Other(format!("PANIC parse {} @{}", p.short_msg(), p.file())),
            Err(Stop::Exhausted) => return Got::Other("exhausted".into()),
        };
        match guard(|| code.exec_unscoped(&mut interp)) {
            Ok(Ok(v)) => last = canon(&v),
            Ok(Err(e)) => return Got::Other(format!("error:{}", core::exec_error_kind(&e))),
            Err(Stop::Panic(p)) => return Got::Other(format!("PANIC exec {} @{}", p.short_msg(), p.file())),
            Err(Stop::Exhausted) => return Got::Other("exhausted".into()),
        }
        if let Some((all_names, notes)) = leak_notes.as_mut() {
            // names present after step k must be a subset of all declared names, and must contain
            // every `name :=` this input starts with
            if let Some((lhs, _)) = inp.split_once(" := ") {
                if lhs.chars().all(|c| c.is_ascii_alphanumeric() || c == '_') {
                    declared_so_far.insert(lhs.to_string());
                }
            }
            let present: BTreeSet<String> = interp.verif_names().iter().map(|s| s.to_string()).collect();
            for p in &present {
                if !all_names.contains(p) {
                    notes.push(format!("after input #{k} `{}` the interpreter holds the undeclared name `{p}`", inp.chars().take(50).collect::<String>()));
                }
            }
            for d in &declared_so_far {
                if !present.contains(d) {
                    notes.push(format!("after input #{k} the declared name `{d}` is missing"));
                }
            }
        }
    }
    verif::set_fuel(None, None);
    let mut names: Vec<String> = interp.verif_names().iter().map(|s| s.to_string()).collect();
    names.sort();
    Got::Value(last, names)
}

/// A function value called by the host *inside the caller's interpreter*
/// (`create_call(..).exec_unscoped(&mut interp)`, what the interactive shell does) declares
/// nothing there: its own name, its parameters and its locals stay its own, and names of
/// the caller that are spelled the same keep their values.
fn host_call_isolation(thorough: bool) -> (u64, Vec<Violation>) {
    use simplesl::variable::Variable;
    let names: Vec<&str> = if thorough { NAMES.to_vec() } else { NAMES[..6].to_vec() };
    let mut out = Vec::new();
    let mut n_cases = 0u64;
    for n in names {
        let bodies = [
            ("parameter and local", format!("f := ({n}: int) -> int {{ loc := {n} * 2; return loc }}"), vec![Variable::Int(7)], "14"),
            ("local spelled like a caller name", format!("f := (q: int) -> int {{ {n} := q * 2; keep := {n} + 1; return keep }}"), vec![Variable::Int(7)], "15"),
            ("block, loop and match locals", format!("f := (q: int) -> int {{ r := mut 0; for {n} in [1, 2]~ {{ r += {n} }}; m := match q {{ {n}: int => {n}, }}; return *r + m }}"), vec![Variable::Int(7)], "10"),
            ("recursive by its own name", format!("f := ({n}: int) -> int {{ if {n} <= 0 {{ return 0 }}; return {n} + f({n} - 1) }}"), vec![Variable::Int(3)], "6"),
        ];
        for (what, def, args, want) in bodies {
            n_cases += 1;
            let setup = vec![format!("{n} := \"caller\""), "keep := \"kept\"".to_string(), def.clone()];
            let mut interp = Interpreter::with_stdlib();
            let mut ok = true;
            for inp in &setup {
                let r = guard(|| Code::parse(&interp, inp).map(|c| c.exec_unscoped(&mut interp)));
                if !matches!(r, Ok(Ok(Ok(_)))) {
                    ok = false;
                }
            }
            let detail = json!({"kind": "host_call_unscoped", "setup": setup, "call": format!("f({})", args.iter().map(canon).collect::<Vec<_>>().join(", ")), "expected_result": want});
            let f = match interp.get_variable("f") {
                Some(Variable::Function(f)) if ok => f.clone(),
                _ => {
                    out.push(Violation { sig: format!("C06|host-call|setup-fails|{what}"), detail });
                    continue;
                }
            };
            let before: BTreeSet<String> = interp.verif_names().iter().map(|s| s.to_string()).collect();
            let got = match guard(|| f.clone().create_call(args.clone()).map(|c| c.exec_unscoped(&mut interp))) {
                Ok(Ok(Ok(v))) => canon(&v),
                other => format!("{:?}", other.map(|r| r.map(|x| x.map(|v| canon(&v))))),
            };
            let after: BTreeSet<String> = interp.verif_names().iter().map(|s| s.to_string()).collect();
            let caller_n = interp.get_variable(n).map(canon).unwrap_or_else(|| "<missing>".into());
            let caller_keep = interp.get_variable("keep").map(canon).unwrap_or_else(|| "<missing>".into());
            let f_still = matches!(interp.get_variable("f"), Some(Variable::Function(g)) if std::sync::Arc::ptr_eq(g, &f));
            if got != want {
                out.push(Violation { sig: format!("C06|host-call|wrong-result|{what}"), detail: json!({"case": detail, "observed": got}) });
            }
            if before != after || caller_n != "\"caller\"" || caller_keep != "\"kept\"" || !f_still {
                out.push(Violation {
                    sig: format!("C06|host-call|callee-names-reach-the-caller|{what}"),
                    detail: json!({"case": detail, "names_before": before, "names_after": after, "caller_name_after": caller_n, "keep_after": caller_keep, "f_unchanged": f_still}),
                });
            }
        }
    }
    (n_cases, out)
}

#[derive(Default)]
struct Acc {
    programs: u64,
    runs: u64,
    must_reject: u64,
    outcomes: BTreeSet<String>,
    violations: Vec<Violation>,
}

pub fn run_check(tier: &str) -> i32 {
    let thorough = tier == "thorough";
    let mut report = Report::new("C06", tier);
    let mut samples = Samples::new(8);
    let progs = families(thorough);
    let accs = par_fold(progs.len(), Acc::default, |acc, i| {
        let p = &progs[i];
        acc.programs += 1;
        let mut want_names = p.names.clone();
        want_names.sort();
        want_names.dedup();
        for batch in [false, true] {
            acc.runs += 1;
            let mut notes = Vec::new();
            let got = if batch || p.expected.is_none() { run(&p.stmts, batch, None) } else { run(&p.stmts, false, Some((&want_names, &mut notes))) };
            let route = if batch { "batch" } else { "repl" };
            let detail = |observed: String| json!({"kind": "repl", "groups": if batch { vec![p.stmts.join(";\n")] } else { p.stmts.clone() }, "expected": p.expected, "observed": observed});
            match (&p.expected, &got) {
                (None, Got::Rejected) => acc.must_reject += 1,
                (None, other) => acc.violations.push(Violation {
                    sig: format!("C06|inner-name-visible-outside|{}|route={route}", p.family),
                    detail: detail(format!("{other:?}")),
                }),
                (Some(want), Got::Value(v, names)) => {
                    acc.outcomes.insert(v.chars().take(30).collect());
                    if v != want {
                        acc.violations.push(Violation {
                            sig: format!("C06|wrong-binding-observed|{}|route={route}", p.family),
                            detail: detail(v.clone()),
                        });
                    }
                    if *names != want_names {
                        acc.violations.push(Violation {
                            sig: format!("C06|top-level-names-differ|{}|route={route}", p.family),
                            detail: json!({"kind": "repl", "groups": p.stmts, "expected_names": want_names, "observed_names": names}),
                        });
                    }
                }
                (Some(_), other) => acc.violations.push(Violation {
                    sig: format!("C06|program-does-not-complete|{}|route={route}|{}", p.family, format!("{other:?}").chars().take(50).collect::<String>()),
                    detail: detail(format!("{other:?}")),
                }),
            }
            for n in notes {
                acc.violations.push(Violation {
                    sig: format!("C06|name-leak-after-repl-step|{}", p.family),
                    detail: json!({"kind": "repl", "groups": p.stmts, "note": n}),
                });
            }
        }
    });
    let mut acc = Acc::default();
    for a in accs {
        acc.programs += a.programs;
        acc.runs += a.runs;
        acc.must_reject += a.must_reject;
        acc.outcomes.extend(a.outcomes);
        acc.violations.extend(a.violations);
    }
    let fams: BTreeSet<String> = progs.iter().map(|p| p.family.clone()).collect();
    samples.push(|| json!({"family": progs[0].family, "statements": progs[0].stmts, "expected": progs[0].expected}));
    let k = progs.iter().position(|p| p.family.starts_with("iterator declares")).unwrap_or(0);
    samples.push(|| json!({"family": progs[k].family, "statements": progs[k].stmts, "expected": progs[k].expected}));
    let Acc { programs, runs, must_reject, outcomes, violations } = acc;
    report.violations(violations);
    let host = core::on_big_stack(move || host_call_isolation(thorough));
    report.violations(host.1);
    let coverage = json!({
        "host_calls_run_inside_the_callers_interpreter": host.0,
        "states": programs,
        "transitions": runs,
        "traces_validated_against_impl": runs,
        "programs": programs,
        "runs_repl_and_batch": runs,
        "families": fams.len(),
        "programs_that_must_be_rejected_and_were": must_reject,
        "colliding_names": NAMES.len(),
        "scope_openers": openers().len(),
        "distinct_outcomes": outcomes.len(),
        "samples": samples.items,
        "exhaustive": true,
        "rule": "every instance of each template family (scope opener x colliding name x kind of captured value x iterator consumer) is run statement by statement through parse + exec_unscoped and as one program; the observed bindings must equal the closed-form expectation of the family (lexical scoping with capture by value), inner declarations used outside must be rejected, and after every REPL input the interpreter's top layer holds exactly the declared names",
    });
    report.finish("model_checking", coverage, &["expectations are closed forms derived from the property statement per template family, not computed by a second interpreter"])
}
