//! C15 — types survive printing and re-parsing, for any print order of union
//! members (order oracle, exhaustive per type) and struct fields (all permutations
//! of the text).
use crate::core::{self, guard, par_fold, Stop};
use crate::order;
use crate::report::{Report, Samples, Violation};
use crate::ty::Ty;
use crate::universe::{self, build};
use serde_json::json;
use simplesl::variable::{Type, Variable};
use std::collections::BTreeSet;
use std::str::FromStr;

fn p(t: &Ty) -> String {
    t.print().replace('|', "/")
}

/// all arrangements of a member list: every permutation up to 4 members, rotations beyond
fn arrangements(n: usize) -> Vec<Vec<usize>> {
    fn perms(items: Vec<usize>) -> Vec<Vec<usize>> {
        if items.len() <= 1 {
            return vec![items];
        }
        let mut out = Vec::new();
        for i in 0..items.len() {
            let mut rest = items.clone();
            let x = rest.remove(i);
            for mut p in perms(rest) {
                p.insert(0, x);
                out.push(p);
            }
        }
        out
    }
    if n <= 4 {
        perms((0..n).collect())
    } else {
        (0..n).map(|k| (0..n).map(|i| (i + k) % n).collect()).collect()
    }
}

#[derive(Default)]
struct Acc {
    round_trips: u64,
    orders: u64,
    types: u64,
    capped: u64,
    distinct_texts: BTreeSet<u64>,
    violations: Vec<Violation>,
}

fn hash_str(s: &str) -> u64 {
    use std::hash::{Hash, Hasher};
    let mut h = std::collections::hash_map::DefaultHasher::new();
    s.hash(&mut h);
    h.finish()
}

fn check_text(t: &Ty, original: &Type, text: &str, how: &str, acc: &mut Acc) {
    acc.round_trips += 1;
    acc.distinct_texts.insert(hash_str(text));
    match guard(|| Type::from_str(text)) {
        Ok(Ok(parsed)) => {
            let equal = parsed == *original;
            let mutual = parsed.matches(original) && original.matches(&parsed);
            // from_str has no end-of-input anchor: a truncated parse shows as inequality
            if !equal || !mutual {
                acc.violations.push(Violation {
                    sig: format!("C15|round-trip-differs|{how}|{}", p(t)),
                    detail: json!({"kind": "type_roundtrip", "type": t.print(), "text": text, "reparsed_as": Ty::from_impl(&parsed).print(), "equal": equal, "mutual_matches": mutual}),
                });
            }
        }
        Ok(Err(_)) => acc.violations.push(Violation {
            sig: format!("C15|printed-type-does-not-parse|{how}|{}", p(t)),
            detail: json!({"kind": "type_roundtrip", "type": t.print(), "text": text}),
        }),
        Err(Stop::Panic(pn)) => acc.violations.push(Violation {
            sig: format!("C15|panic|{how}|{}|{}", pn.file(), pn.short_msg()),
            detail: json!({"kind": "type_roundtrip", "type": t.print(), "text": text, "panic": pn.msg}),
        }),
        Err(Stop::Exhausted) => {}
    }
}

pub fn run(tier: &str) -> i32 {
    let thorough = tier == "thorough";
    let mut report = Report::new("C15", tier);
    let mut samples = Samples::new(8);
    let mut universe: Vec<Ty> = universe::u2(thorough);
    universe.extend(universe::spines());
    // every type of the depth-1 universe (tuples, structs, functions, cells and arrays over
    // every base type, `!` and `any` among them) under every one-argument constructor
    for x in universe::u1() {
        universe.push(Ty::arr(x.clone()));
        universe.push(Ty::mutc(x.clone()));
        universe.push(Ty::func(vec![], x.clone()));
        universe.push(Ty::func(vec![x.clone()], Ty::Int));
        universe.push(Ty::Tup(vec![x.clone(), Ty::Int]));
        universe.push(Ty::strukt(&[("a", x.clone())]));
        universe.push(Ty::union([Ty::arr(x.clone()), Ty::Int]));
    }
    // width ladder: struct types of 1..=12 fields, tuples and parameter lists of 1..=12 members,
    // unions of 2..=8 members - alone and under every one-argument constructor
    {
        let names = ["a", "b", "c", "d", "e", "f", "g", "h", "i", "j", "k", "l"];
        let kinds = [Ty::Int, Ty::Str, Ty::Float, Ty::Bool, Ty::arr(Ty::Int), Ty::Void, Ty::Tup(vec![Ty::Int, Ty::Str]), Ty::mutc(Ty::Int)];
        for w in 1..=12usize {
            let fields: Vec<(&str, Ty)> = (0..w).map(|i| (names[i], kinds[i % kinds.len()].clone())).collect();
            let st = Ty::strukt(&fields);
            let tup = Ty::Tup((0..w).map(|i| kinds[i % kinds.len()].clone()).collect());
            let func = Ty::func((0..w).map(|i| kinds[i % kinds.len()].clone()).collect(), Ty::Int);
            // (a one-member tuple type does not exist: `(T)` is T in parentheses)
            let mut wide = if w >= 2 { vec![st, tup, func] } else { vec![st, func] };
            if (2..=8).contains(&w) {
                wide.push(Ty::union((0..w).map(|i| kinds[i].clone())));
            }
            for x in wide {
                universe.push(Ty::arr(x.clone()));
                universe.push(Ty::mutc(x.clone()));
                universe.push(Ty::func(vec![x.clone()], x.clone()));
                universe.push(Ty::union([x.clone(), Ty::Int]));
                universe.push(Ty::strukt(&[("z", x.clone())]));
                universe.push(x);
            }
        }
    }
    let set: BTreeSet<Ty> = universe.into_iter().collect();
    let universe: Vec<Ty> = set.into_iter().collect();
    let n = universe.len();
    let max_orders = if thorough { 5000 } else { 600 };

    let accs = par_fold(n, Acc::default, |acc, i| {
        let t = &universe[i];
        acc.types += 1;
        let original = build(t);
        // (1) the implementation's own Display under every assignment of member orders
        let ex = order::explore_all(max_orders, &mut || guard(|| original.to_string()));
        if !ex.complete {
            acc.capped += 1;
        }
        for (choices, r) in ex.runs {
            acc.orders += 1;
            match r {
                Ok(text) => check_text(t, &original, &text, "display", acc),
                Err(Stop::Panic(pn)) => acc.violations.push(Violation {
                    sig: format!("C15|panic|display|{}|{}", pn.file(), pn.short_msg()),
                    detail: json!({"kind": "type_roundtrip", "type": t.print(), "order_choices": choices, "panic": pn.msg}),
                }),
                Err(Stop::Exhausted) => {}
            }
        }
        // (2) every permutation of union members and struct fields of the harness's own print
        //     (struct field order of the implementation's Display is not under the oracle)
        let arrs = {
            // one arrangement index applied uniformly to every member list of the type
            let widest = widest_list(t);
            arrangements(widest)
        };
        for arr in arrs {
            let text = t.print_with(&|members: Vec<String>| {
                if members.len() < 2 {
                    return members;
                }
                let k = members.len();
                let mut out: Vec<String> = arr.iter().filter(|&&i| i < k).map(|&i| members[i].clone()).collect();
                if out.len() != k {
                    out = members;
                }
                out
            });
            check_text(t, &original, &text, "permuted-text", acc);
        }
    });
    let mut acc = Acc::default();
    for a in accs {
        acc.round_trips += a.round_trips;
        acc.orders += a.orders;
        acc.types += a.types;
        acc.capped += a.capped;
        acc.distinct_texts.extend(a.distinct_texts);
        acc.violations.extend(a.violations);
    }

    // (4) types that grow after they were printed: a type is a value the host keeps, prints (error
    //     messages, REPL) and widens later. For every ordered pair (and triple over a smaller set)
    //     of the depth-1 universe and every widening operation of the public API (`|`, `|=`,
    //     `concat`), each intermediate type is printed - itself and a clone of it - before the next
    //     step; the text of the final type must parse back to it. What was printed earlier must not
    //     stick to the type
    let grown = {
        let u1: Vec<Ty> = universe::u1();
        let small: Vec<Ty> = u1.iter().step_by((u1.len() / 14).max(1)).cloned().collect();
        let mut seqs: Vec<Vec<usize>> = Vec::new();
        for a in 0..u1.len() {
            for b in 0..u1.len() {
                seqs.push(vec![a, b]);
            }
        }
        let idx_small: Vec<usize> = small.iter().map(|t| u1.iter().position(|x| x == t).unwrap()).collect();
        for &a in &idx_small {
            for &b in &idx_small {
                for &c in &idx_small {
                    seqs.push(vec![a, b, c]);
                }
            }
        }
        let accs = par_fold(seqs.len(), Acc::default, |acc, i| {
            let seq = &seqs[i];
            for op in 0..3usize {
                let r = guard(|| {
                    let mut t = build(&u1[seq[0]]);
                    let mut model = u1[seq[0]].clone();
                    let mut printed = vec![t.to_string()];
                    for &k in &seq[1..] {
                        let copy = t.clone();
                        printed.push(copy.to_string());
                        let rhs = build(&u1[k]);
                        t = match op {
                            0 => t | rhs,
                            1 => {
                                t |= rhs;
                                t
                            }
                            _ => t.concat(rhs),
                        };
                        model = Ty::union([model, u1[k].clone()]);
                        printed.push(t.to_string());
                        printed.push(copy.to_string());
                    }
                    (t, model, printed)
                });
                let how = ["grown-by-bitor", "grown-by-bitor-assign", "grown-by-concat"][op];
                match r {
                    Ok((t, model, printed)) => {
                        acc.types += 1;
                        let text = t.to_string();
                        check_text(&model, &t, &text, how, acc);
                        // the widened type holds every member it was built from
                        let holds_all = seq.iter().all(|&k| build(&u1[k]).matches(&t));
                        if !holds_all {
                            acc.violations.push(Violation {
                                sig: format!("C15|grown-type-lost-a-member|{how}|{}", p(&model)),
                                detail: json!({"kind": "type_roundtrip", "type": model.print(), "text": text, "printed_on_the_way": printed}),
                            });
                        }
                    }
                    Err(Stop::Panic(pn)) => acc.violations.push(Violation {
                        sig: format!("C15|panic|{how}|{}|{}", pn.file(), pn.short_msg()),
                        detail: json!({"kind": "type_roundtrip", "type": seq.iter().map(|&k| u1[k].print()).collect::<Vec<_>>().join(" then "), "panic": pn.msg}),
                    }),
                    Err(Stop::Exhausted) => {}
                }
            }
        });
        let mut g = Acc::default();
        for a in accs {
            g.round_trips += a.round_trips;
            g.types += a.types;
            g.distinct_texts.extend(a.distinct_texts);
            g.violations.extend(a.violations);
        }
        g
    };
    let grown_cases = grown.types;
    acc.round_trips += grown.round_trips;
    acc.distinct_texts.extend(grown.distinct_texts);
    acc.violations.extend(grown.violations);

    // (3) the interpreter's internal re-parse: `it ? T` for every T with a default value
    let tf = core::on_big_stack(|| {
        let mut out = Vec::new();
        let mut count = 0u64;
        let mut rejected = 0u64;
        for t in universe.iter().filter(|t| t.depth() <= 2) {
            let has_default = Variable::of_type(&build(t)).is_some();
            let text = format!("it := [1, 2.5]~ ? {}; (it(), it(), it())", t.print());
            let ex = order::explore_bounded(1, 200, &mut || core::run_text(&text, false, core::QUICK_FUEL).tag());
            let outcomes: BTreeSet<String> = ex.runs.iter().map(|r| r.1.clone()).collect();
            count += ex.runs.len() as u64;
            for o in &outcomes {
                let ok = if has_default { o == "value" } else { o.starts_with("rejected:") || o == "value" };
                if o.starts_with("rejected:") {
                    rejected += 1;
                }
                if !ok || o.starts_with("panic") {
                    out.push(Violation {
                        sig: format!("C15|type-filter-reparse|{}|{}", o.chars().take(60).collect::<String>(), p(t)),
                        detail: json!({"kind": "program", "stdlib": false, "text": text, "observed": o, "type_has_default": has_default}),
                    });
                }
            }
        }
        (out, count, rejected)
    });
    report.violations(tf.0);
    samples.push(|| json!({"type": universe[n / 2].print(), "display": build(&universe[n / 2]).to_string()}));
    samples.push(|| json!({"type": universe[n - 1].print()}));
    samples.push(|| json!({"type_filter_program": format!("it := [1, 2.5]~ ? {}; (it(), it(), it())", universe[n / 3].print())}));

    let Acc { round_trips, orders, types, capped, distinct_texts, violations } = acc;
    report.violations(violations);
    let coverage = json!({
        "states": types,
        "transitions": round_trips + tf.1,
        "traces_validated_against_impl": round_trips + tf.1,
        "types": types,
        "display_orders_explored": orders,
        "types_whose_order_product_was_capped": capped,
        "round_trips": round_trips,
        "distinct_texts": distinct_texts.len(),
        "types_grown_after_printing": grown_cases,
        "type_filter_programs_run": tf.1,
        "type_filter_rejected_no_default": tf.2,
        "distinct_outcomes": 2,
        "samples": samples.items,
        "exhaustive": capped == 0,
        "rule": "each type of the universe is printed by the implementation under every assignment of iteration orders to its union instances (order oracle), and by the harness under every permutation of members and fields; each text is parsed by Type::from_str and compared with == and mutual matches",
    });
    report.finish(
        "model_checking",
        coverage,
        &["std HashSet/HashMap have one iteration order per instance", "struct-field print order is covered by parsing every permutation of the text"],
    )
}

fn widest_list(t: &Ty) -> usize {
    match t {
        Ty::Arr(e) | Ty::Mut(e) => widest_list(e),
        Ty::Tup(ts) => ts.iter().map(widest_list).max().unwrap_or(0),
        Ty::Fn(ps, r) => ps.iter().map(widest_list).max().unwrap_or(0).max(widest_list(r)),
        Ty::Struct(fs) => fs.len().max(fs.values().map(widest_list).max().unwrap_or(0)),
        Ty::Union(ms) => ms.len().max(ms.iter().map(widest_list).max().unwrap_or(0)),
        _ => 0,
    }
}
