//! C04 — constant folding and propagation are unobservable: every program with
//! literal constants is compared with its constant-hidden twin (literals become
//! parameters of an enclosing function called with the same values).
use crate::core::{self, guard, par_fold, Stop};
use crate::opgrid::{constructs, Construct};
use crate::palette::{Values, RECIPES};
use crate::props::c08::{int_lit, ref_int, Ref};
use crate::report::{Report, Samples, Violation};
use crate::ty::Ty;
use crate::val::canon;
use serde_json::json;
use simplesl::variable::{Typed, Variable};
use simplesl::{verif, Code, Interpreter};
use std::collections::BTreeMap;

#[derive(Clone, Debug, PartialEq)]
enum Out {
    Value(String),
    ExecError(String),
    /// rejected at parse time: (kind, is one of the six exec kinds)
    Rejected(String, bool),
    Panic(String),
    Exhausted,
}

fn run_program(interp: &Interpreter, text: &str, args: Vec<Variable>) -> Out {
    verif::set_fuel(Some(core::QUICK_FUEL), Some(core::DEPTH));
    let out = (|| {
        let code = match guard(|| Code::parse(interp, text)) {
            Ok(Ok(c)) => c,
            Ok(Err(e)) => return Out::Rejected(core::error_kind(&e), core::is_exec_kind(&e)),
            Err(Stop::Panic(p)) => return Out::Panic(format!("parse: {} @{}", p.short_msg(), p.file())),
            Err(Stop::Exhausted) => return Out::Exhausted,
        };
        let f = match guard(|| code.exec()) {
            Ok(Ok(Variable::Function(f))) => f,
            Ok(Ok(_)) => return Out::Panic("program did not evaluate to a function".into()),
            Ok(Err(e)) => return Out::ExecError(core::exec_error_kind(&e)),
            Err(Stop::Panic(p)) => return Out::Panic(format!("define: {} @{}", p.short_msg(), p.file())),
            Err(Stop::Exhausted) => return Out::Exhausted,
        };
        let call = match guard(|| f.clone().create_call(args)) {
            Ok(Ok(c)) => c,
            Ok(Err(e)) => return Out::Rejected(format!("host:{}", core::error_kind(&e)), false),
            Err(Stop::Panic(p)) => return Out::Panic(format!("create_call: {} @{}", p.short_msg(), p.file())),
            Err(Stop::Exhausted) => return Out::Exhausted,
        };
        let first = match guard(|| call.exec()) {
            Ok(Ok(v)) => canon(&v),
            Ok(Err(e)) => return Out::ExecError(core::exec_error_kind(&e)),
            Err(Stop::Panic(p)) => return Out::Panic(format!("exec: {} @{}", p.short_msg(), p.file())),
            Err(Stop::Exhausted) => return Out::Exhausted,
        };
        // the same function value called again: a constant evaluated ahead of time must be as
        // good as new at every evaluation of its site (fresh iterators, fresh cells)
        match guard(|| call.exec()) {
            Ok(Ok(v)) => Out::Value(format!("{first} ; called again: {}", canon(&v))),
            Ok(Err(e)) => Out::Value(format!("{first} ; called again: error {}", core::exec_error_kind(&e))),
            Err(Stop::Panic(p)) => Out::Panic(format!("exec again: {} @{}", p.short_msg(), p.file())),
            Err(Stop::Exhausted) => Out::Exhausted,
        }
    })();
    verif::set_fuel(None, None);
    out
}

#[derive(Clone, Copy, PartialEq, Debug)]
enum Mode {
    Lit,
    Hidden,
    HiddenLog,
}

const PRELUDE: &str = "log := mut [int] [];";

/// Builds `f := (params) -> any { prelude; helpers; r := <body>; return (r, *log) }`.
/// `operands[i]` = (literal text, type text); `modes[i]` says how operand i appears.
fn build(c: &Construct, operands: &[(String, String)], modes: &[Mode]) -> (String, Vec<usize>) {
    let mut params = Vec::new();
    let mut param_idx = Vec::new();
    let mut helpers = String::new();
    let mut ops = Vec::new();
    for (i, ((lit, ty), m)) in operands.iter().zip(modes).enumerate() {
        match m {
            Mode::Lit => ops.push(format!("({lit})")),
            Mode::Hidden => {
                params.push(format!("p{i}: {ty}"));
                param_idx.push(i);
                ops.push(format!("p{i}"));
            }
            Mode::HiddenLog => {
                params.push(format!("p{i}: {ty}"));
                param_idx.push(i);
                helpers.push_str(&format!("t{i} := (v: {ty}) -> {ty} {{ log += [{i}]; return v }};"));
                ops.push(format!("t{i}(p{i})"));
            }
        }
    }
    let e = (c.expr.as_ref().expect("expression construct"))(&ops);
    (
        format!("f := ({}) -> any {{ {PRELUDE} {helpers} r := {e}; return (r, *log) }}", params.join(", ")),
        param_idx,
    )
}

/// Does the reference say that the constant operation fails with `kind`?
fn constant_failure_justified(c: &Construct, vals: &[Variable], is_lit: &[bool], kind: &str) -> bool {
    let ints: Vec<Option<i64>> = vals.iter().map(|v| if let Variable::Int(i) = v { Some(*i) } else { None }).collect();
    let name = c.name.as_str();
    if let Some(op) = name.strip_prefix("bin:") {
        let op = op.trim_end_matches('=');
        let op = if op.is_empty() { "=" } else { op };
        // the deciding operand (divisor, shift amount) must be a literal
        if !is_lit.get(1).copied().unwrap_or(false) {
            return false;
        }
        if let (Some(Some(a)), Some(Some(b))) = (ints.first(), ints.get(1)) {
            if ["/", "%", "<<", ">>"].contains(&op) {
                return ref_int(op, *a, *b) == Ref::Err(leak_kind(kind));
            }
        }
        // a zero divisor / bad shift amount decides alone, whatever the left operand
        if let Some(Some(b)) = ints.get(1) {
            return match (op, kind) {
                ("/", "ZeroDivision") | ("%", "ZeroModulo") => *b == 0,
                ("<<", "OverflowShift") | (">>", "OverflowShift") => !(0..=63).contains(b),
                _ => false,
            };
        }
        return false;
    }
    if !is_lit.iter().all(|l| *l) && name == "index" {
        return false;
    }
    if name == "repeat" && !is_lit.get(1).copied().unwrap_or(false) {
        return false;
    }
    match name {
        "index" => {
            let len = match &vals[0] {
                Variable::Array(a) => a.len() as i128,
                Variable::String(s) => s.chars().count() as i128,
                _ => return false,
            };
            matches!(ints.get(1), Some(Some(i)) if kind == "IndexOutOfBounds" && ((*i as i128) < -len || (*i as i128) >= len))
        }
        "repeat" => matches!(ints.get(1), Some(Some(n)) if kind == "NegativeLength" && *n < 0),
        _ => false,
    }
}

fn leak_kind(k: &str) -> &'static str {
    match k {
        "ZeroDivision" => "ZeroDivision",
        "ZeroModulo" => "ZeroModulo",
        "NegativeExponent" => "NegativeExponent",
        "OverflowShift" => "OverflowShift",
        "IndexOutOfBounds" => "IndexOutOfBounds",
        "NegativeLength" => "NegativeLength",
        _ => "?",
    }
}

#[derive(Default)]
struct Acc {
    pairs: u64,
    comparable: u64,
    both_value: u64,
    both_error: u64,
    parse_time_failures_justified: u64,
    not_comparable: u64,
    inconclusive: u64,
    different_error_kinds: u64,
    outcomes: BTreeMap<String, u64>,
    /// per template: twin pairs in which both programs ran (value or run-time error)
    per_template: BTreeMap<&'static str, u64>,
    violations: Vec<Violation>,
}

impl Acc {
    fn merge(&mut self, o: Acc) {
        self.pairs += o.pairs;
        self.comparable += o.comparable;
        self.both_value += o.both_value;
        self.both_error += o.both_error;
        self.parse_time_failures_justified += o.parse_time_failures_justified;
        self.not_comparable += o.not_comparable;
        self.inconclusive += o.inconclusive;
        self.different_error_kinds += o.different_error_kinds;
        for (k, v) in o.outcomes {
            *self.outcomes.entry(k).or_insert(0) += v;
        }
        for (k, v) in o.per_template {
            *self.per_template.entry(k).or_insert(0) += v;
        }
        self.violations.extend(o.violations);
    }

    /// Compares a program containing literals with its constant-hidden twin.
    fn compare(&mut self, label: &str, lit_text: &str, lit: &Out, hid_text: &str, hid: &Out, args: &[String], justified: impl FnOnce(&str) -> bool) {
        self.pairs += 1;
        let kind_of = |o: &Out| match o {
            Out::Value(_) => "value".to_string(),
            Out::ExecError(k) => format!("error:{k}"),
            Out::Rejected(k, _) => format!("rejected:{k}"),
            Out::Panic(_) => "panic".to_string(),
            Out::Exhausted => "exhausted".to_string(),
        };
        *self.outcomes.entry(format!("{} / {}", kind_of(lit), kind_of(hid))).or_insert(0) += 1;
        let mut violation = |what: &str| Violation {
            sig: format!("C04|{what}|{label}"),
            detail: json!({"kind": "twin", "literal_program": lit_text, "hidden_program": hid_text, "hidden_args": args, "literal_outcome": format!("{lit:?}"), "hidden_outcome": format!("{hid:?}")}),
        };
        match (lit, hid) {
            (Out::Exhausted, _) | (_, Out::Exhausted) | (Out::Panic(_), Out::Panic(_)) => self.inconclusive += 1,
            // one of the twins panics, the other runs (to a value or a documented error)
            (Out::Panic(_), Out::Value(_) | Out::ExecError(_)) | (Out::Value(_) | Out::ExecError(_), Out::Panic(_)) => {
                self.comparable += 1;
                let v = violation("one-twin-panics");
                self.violations.push(v);
            }
            (Out::Panic(_), _) | (_, Out::Panic(_)) => self.inconclusive += 1,
            (Out::Value(a), Out::Value(b)) => {
                self.comparable += 1;
                self.both_value += 1;
                if a != b {
                    let v = violation("different-result-or-effects");
                    self.violations.push(v);
                }
            }
            (Out::ExecError(a), Out::ExecError(b)) => {
                self.comparable += 1;
                self.both_error += 1;
                if a != b {
                    self.different_error_kinds += 1;
                }
            }
            (Out::Value(_), Out::ExecError(_)) | (Out::ExecError(_), Out::Value(_)) => {
                self.comparable += 1;
                let v = violation("one-fails-at-run-time-the-other-succeeds");
                self.violations.push(v);
            }
            (Out::Rejected(k, true), Out::ExecError(k2)) if k == k2 => {
                self.comparable += 1;
                self.parse_time_failures_justified += 1;
            }
            (Out::Rejected(k, true), Out::Value(_)) | (Out::Rejected(k, true), Out::ExecError(_)) => {
                self.comparable += 1;
                if justified(k) {
                    self.parse_time_failures_justified += 1;
                } else {
                    let v = violation("parse-time-failure-of-an-operation-that-does-not-fail");
                    self.violations.push(v);
                }
            }
            (Out::Rejected(_, _), Out::Rejected(_, _)) => self.not_comparable += 1,
            (Out::Rejected(_, _), _) | (_, Out::Rejected(_, _)) => self.not_comparable += 1,
        }
    }
}

/// first-order recipes usable as literal operands
fn literal_recipes(thorough: bool) -> Vec<usize> {
    (0..RECIPES.len())
        .filter(|&i| {
            let r = &RECIPES[i];
            !r.stateful
                && !r.src.contains("->")
                && !r.src.starts_with("struct")
                && !r.src.starts_with("{ g")
                && r.rank <= if thorough { 2 } else { 1 }
                && (thorough || !["4294967296", "(1.0 / 0.0)", "[1, 2][2:]", "(1.5, 2.5)"].contains(&r.src))
        })
        .collect()
}

// ------------------------------------------------------------------ templates

struct Template {
    name: &'static str,
    /// body with {0} {1} ... holes; may use `t(i, v)` (logging identity on ints) and `tb(i, v)` (bools)
    body: &'static str,
    /// per hole: "int" | "bool" | "arr"
    holes: &'static [&'static str],
    /// a failing constant operation may legitimately not be reached by the twin
    unreached_failure_ok: bool,
}

const fn t(name: &'static str, body: &'static str, holes: &'static [&'static str]) -> Template {
    Template { name, body, holes, unreached_failure_ok: false }
}

const TEMPLATES: &[Template] = &[
    t("bind-then-use", "x := {0}; y := x OP {1}; return (y, *log)", &["int", "int"]),
    t("bind-in-block", "x := {0}; r := { z := x; z OP {1} }; return (r, *log)", &["int", "int"]),
    t("across-closure", "x := {0}; g := () -> any { return x OP {1} }; return (g(), *log)", &["int", "int"]),
    t("closure-param", "g := (q: int) -> any { return q OP {1} }; return (g({0}), *log)", &["int", "int"]),
    t("redeclare", "x := {0}; x := x OP {1}; x := x OP {1}; return (x, *log)", &["int", "int"]),
    t("logged-lhs", "r := t(1, {0}) OP {1}; return (r, *log)", &["int", "int"]),
    t("logged-rhs", "r := {0} OP t(2, {1}); return (r, *log)", &["int", "int"]),
    t("logged-both", "r := t(1, {0}) OP t(2, {1}); return (r, *log)", &["int", "int"]),
    t("nonlast-constants", "{0}; t(1, 5); {1}; r := {0} OP {1}; return (r, *log)", &["int", "int"]),
    t("tuple-then-access", "p := ({0}, t(2, {1})); return (p.0 OP p.1, *log)", &["int", "int"]),
    t("destructure", "(a, b) := ({0}, {1}); return (a OP b, *log)", &["int", "int"]),
    // names bound by every declaration form inside a block are gone after it, for the folder too
    t("destructure-in-block", "a := {0}; r := { (a, z) := ({1}, 5); a OP z }; return (a, r, *log)", &["int", "int"]),
    t("destructure-in-branch", "a := {0}; if tb(1, true) { (a, z) := ({1}, 5); log += [a OP z] }; return (a, *log)", &["int", "int"]),
    t("destructure-in-loop", "a := {0}; n := mut 0; while *n < 2 { n += 1; (a, z) := ({1}, 5); log += [a OP z] }; return (a, *log)", &["int", "int"]),
    t("declare-in-block", "a := {0}; r := { a := {1}; a OP 5 }; return (a, r, *log)", &["int", "int"]),
    t("function-in-block", "a := {0}; r := { a := () -> int { return {1} }; a() OP 5 }; return (a, r, *log)", &["int", "int"]),
    t("for-binder", "a := {0}; for a in [{1}, 5]~ { log += [a OP 5] }; return (a, *log)", &["int", "int"]),
    t("match-binder", "a := {0}; r := match {1} { a: int => a OP 5, => 0, }; return (a, r, *log)", &["int", "int"]),
    t("if-set-binder", "a := {0}; r := if a: int = {1} { a OP 5 } else { 0 }; return (a, r, *log)", &["int", "int"]),
    t("parameter-binder", "a := {0}; g := (a: int) -> any { return a OP 5 }; return (a, g({1}), *log)", &["int", "int"]),
    t("struct-field", "s := struct{ a := {0}, b := t(2, {1}) }; return (s.a OP s.b, *log)", &["int", "int"]),
    t("cell-compound", "c := mut {0}; c OP= {1}; return (*c, *log)", &["int", "int"]),
    t("array-index", "a := [{0}, t(2, {1}), 7]; return (a[{2}], *log)", &["int", "int", "idx"]),
    t("array-literal-index", "return ([{0}, {1}][{2}], *log)", &["int", "int", "idx"]),
    t("repeat", "return ([t(1, {0}); {1}], *log)", &["int", "len"]),
    t("slice", "return ([{0}, {1}, 3][{2}:], *log)", &["int", "int", "idx"]),
    // chains: constants that follow a run-time operand must not be combined with each other first
    t("chain-same-op", "return ({0} OP {1} OP {2}, *log)", &["int", "int", "int"]),
    t("chain-float-add", "return ({0} + {1} + {2}, *log)", &["float", "float", "float"]),
    t("chain-float-sub", "return ({0} - {1} - {2}, *log)", &["float", "float", "float"]),
    t("chain-float-mul", "return ({0} * {1} * {2}, *log)", &["float", "float", "float"]),
    t("chain-float-div", "return ({0} / {1} / {2}, *log)", &["float", "float", "float"]),
    t("chain-float-mixed", "return ({0} + {1} - {2}, {0} * {1} / {2}, {0} - {1} + {2}, *log)", &["float", "float", "float"]),
    t("chain-string-add", "return ({0} + {1} + {2}, *log)", &["str", "str", "str"]),
    t("chain-array-add", "return ([{0}] + [{1}] + [{2}], *log)", &["int", "float", "int"]),
    t("slice-start-step", "return ([{0}, {1}, 3][{2}::{3}], *log)", &["int", "int", "idx", "step"]),
    t("slice-stop-step", "return ([{0}, 2, 3][:{1}:{2}], *log)", &["int", "idx", "step"]),
    t("slice-all-bounds", "return ([{0}, 2, 3, 4][{1}:{2}:{3}], *log)", &["int", "idx", "idx", "step"]),
    t("string-slice-step", "return (\"abcd\"[{0}::{1}], \"abcd\"[{0}:{2}], *log)", &["idx", "step", "idx"]),
    t("if-constant-cond", "r := if {0} { t(1, 10) } else { t(2, 20) }; return (r, *log)", &["bool"]),
    t("if-constant-branches", "r := if tb(1, {0}) { 10 OP {1} } else { 20 }; return (r, *log)", &["bool", "int"]),
    t("while-constant-cond", "n := mut 0; while {0} { n += 1; t(1, 1); if *n >= 2 { break } }; return (*n, *log)", &["bool"]),
    t("and-constant-lhs", "r := {0} && tb(2, {1}); return (r, *log)", &["bool", "bool"]),
    t("or-constant-lhs", "r := {0} || tb(2, {1}); return (r, *log)", &["bool", "bool"]),
    t("and-constant-rhs", "r := tb(1, {0}) && {1}; return (r, *log)", &["bool", "bool"]),
    t("or-constant-rhs", "r := tb(1, {0}) || {1}; return (r, *log)", &["bool", "bool"]),
    t("unary", "return ((-{0}) OP (!{1}), *log)", &["int", "int"]),
    t("match-value", "r := match {0} { ({1}) => t(1, 1), => t(2, 2), }; return (r, *log)", &["int", "int"]),
    t("match-type", "r := match {0} { v: int => v OP {1}, => 0, }; return (r, *log)", &["int", "int"]),
    t("if-set", "r := if v: int = {0} { v OP {1} } else { 0 }; return (r, *log)", &["int", "int"]),
    // binder type width: the type test of if-set / while-set / a match type arm on a constant is
    // `matches`, not equality - binder types wider than, equal to and disjoint from the constant's type
    t("if-set-union-binder", "r := if v: int|float = {0} { t(1, 1) } else { t(2, 2) }; return (r, *log)", &["int"]),
    t("if-set-union-binder-float", "r := if v: int|float = {0} { t(1, 1) } else { t(2, 2) }; return (r, *log)", &["float"]),
    t("if-set-any-binder", "r := if v: any = {0} { t(1, 1) } else { t(2, 2) }; return (r, *log)", &["int"]),
    t("if-set-disjoint-binder", "r := if v: float|string = {0} { t(1, 1) } else { t(2, 2) }; return (r, *log)", &["int"]),
    t("if-set-array-union-binder", "r := if v: [int|float] = [{0}] { t(1, 1) } else { t(2, 2) }; return (r, *log)", &["int"]),
    t("if-set-tuple-union-binder", "r := if v: (int|float, any) = ({0}, true) { t(1, 1) } else { t(2, 2) }; return (r, *log)", &["int"]),
    t("if-set-struct-union-binder", "r := if v: struct{a: int|float} = struct{ a := {0} } { t(1, 1) } else { t(2, 2) }; return (r, *log)", &["int"]),
    t("if-set-bound-name", "x := {0}; r := if v: int|float = x { v OP {1} } else { t(2, 2) }; return (r, *log)", &["int", "int"]),
    t("while-set-union-binder", "n := mut 0; while v: int|float = {0} { n += 1; t(1, 1); if *n >= 2 { break } }; return (*n, *log)", &["int"]),
    t("while-set-any-binder", "n := mut 0; while v: any = {0} { n += 1; t(1, 1); if *n >= 2 { break } }; return (*n, *log)", &["int"]),
    t("while-set-disjoint-binder", "n := mut 0; while v: float = {0} { n += 1; t(1, 1); if *n >= 2 { break } }; return (*n, *log)", &["int"]),
    t("match-type-union-arm", "r := match {0} { v: int|float => t(1, 1), => t(2, 2), }; return (r, *log)", &["int"]),
    t("match-type-any-arm", "r := match {0} { v: string => t(3, 3), v: any => t(1, 1), }; return (r, *log)", &["int"]),
    t("match-type-array-union-arm", "r := match [{0}] { v: [float] => t(3, 3), v: [int|float] => t(1, 1), => t(2, 2), }; return (r, *log)", &["int"]),
    // loops with several exits, one of them decided by a constant: removing or rewriting the loop
    // must leave the other exits (break / continue taken earlier in the body) with their loop
    t("loop-constant-last-exit-after-break", "n := mut 0; o := mut 0; while *o < 3 { o += 1; loop { n += 1; if tb(1, *n % 2 == 0) { break }; t(2, *n); if {0} { break } } }; return (*n, *o, *log)", &["bool"]),
    t("loop-constant-last-exit-after-continue", "n := mut 0; o := mut 0; while *o < 3 { o += 1; loop { n += 1; if tb(1, *n % 2 == 1) { continue }; t(2, *n); if {0} { break } } }; return (*n, *o, *log)", &["bool"]),
    t("loop-constant-last-exit-no-outer-loop", "n := mut 0; loop { n += 1; if tb(1, *n == 1) { continue }; if tb(2, *n >= 4) { break }; if {0} { break } }; return (*n, *log)", &["bool"]),
    t("loop-constant-else-break", "n := mut 0; o := mut 0; while *o < 2 { o += 1; loop { n += 1; if tb(1, *n % 2 == 0) { break }; if {0} { t(2, *n) } else { break }; if *n > 6 { break } } }; return (*n, *o, *log)", &["bool"]),
    t("while-constant-cond-with-continue", "n := mut 0; while {0} { n += 1; if tb(1, *n < 3) { continue }; t(2, *n); break }; return (*n, *log)", &["bool"]),
    t("loop-constant-first-exit", "n := mut 0; o := mut 0; while *o < 2 { o += 1; loop { if {0} { n += 10; break }; n += 1; if tb(1, *n >= 2) { break } } }; return (*n, *o, *log)", &["bool"]),
    // a repeat written with its operands in place: the element type of the (possibly empty)
    // result is observable through type arms, the identity of $+ / $* and an exhausted iterator
    t("type-of-literal-repeat-float", "a := [{0}; {1}]; r := match a { q: [int] => 1, q: [float] => 2, => 3, }; return (r, *log)", &["float", "len"]),
    t("type-of-literal-repeat-int", "a := [{0}; {1}]; r := match a { q: [float] => 1, q: [int] => 2, => 3, }; return (r, *log)", &["int", "len"]),
    t("type-of-literal-repeat-str", "a := [{0}; {1}]; r := match a { q: [int] => 1, q: [string] => 2, => 3, }; return (r, a~ $+, *log)", &["str", "len"]),
    t("sum-of-literal-repeat", "return ([{0}; {1}]~ $+, [{0}; {1}]~ $*, *log)", &["float", "len"]),
    t("exhausted-iterator-of-literal-repeat", "it := [{0}; {1}]~; a := it(); b := it(); c := it(); return (a, b, c, *log)", &["float", "len"]),
    t("type-of-literal-array", "a := [{0}, {1}]; r := match a { q: [int] => 1, q: [float] => 2, q: [int|float] => 3, => 4, }; return (r, *log)", &["int", "float"]),
    t("type-of-literal-slice-empty", "a := [{0}, {1}][2:]; r := match a { q: [float] => 1, q: [int] => 2, => 3, }; return (r, *log)", &["int", "int"]),
    t("for-over-constants", "acc := mut 0; for e in [{0}, {1}]~ { acc += t(1, e) }; return (*acc, *log)", &["int", "int"]),
    t("reduce-constants", "r := [{0}, {1}]~ $ 0 (acc: int, e: int) -> int { return acc OP e }; return (r, *log)", &["int", "int"]),
    t("nested-arith", "return (({0} OP {1}) OP ({1} OP {0}), *log)", &["int", "int"]),
    // the run-time type of a value built from a constant of a union-typed expression is
    // observable (match / if-set on the value, assignment into a cell): folding must not narrow it
    t("type-of-bound", "x := if {0} { 1 } else { 2.5 }; r := match x { q: int => 1, => 2, }; return (r, *log)", &["bool"]),
    t("type-of-array", "x := if {0} { 1 } else { 2.5 }; a := [x, x]; r := match a { q: [int] => 1, q: [float] => 2, => 3, }; return (r, *log)", &["bool"]),
    t("type-of-repeat", "x := if {0} { 1 } else { 2.5 }; a := [x; {1}]; r := match a { q: [int] => 1, q: [float] => 2, => 3, }; return (r, *log)", &["bool", "len"]),
    t("type-of-tuple", "x := if {0} { 1 } else { 2.5 }; a := (x, true); r := match a { q: (int, bool) => 1, => 2, }; return (r, *log)", &["bool"]),
    t("type-of-struct", "x := if {0} { 1 } else { 2.5 }; a := struct{ k := x }; r := match a { q: struct{k: int} => 1, => 2, }; return (r, *log)", &["bool"]),
    t("type-of-cell", "x := if {0} { 1 } else { 2.5 }; m := mut x; r := match m { q: mut int => 1, q: mut float => 2, q: mut (int|float) => 3, => 4, }; return (r, *log)", &["bool"]),
    t("type-of-cell-of-index", "m := mut [1, 2.5][{0}]; r := match m { q: mut int => 1, q: mut float => 2, q: mut (int|float) => 3, => 4, }; return (r, *log)", &["idx"]),
    t("type-of-cell-of-array", "x := if {0} { [1] } else { [2.5] }; m := mut x; r := if q: mut ([int]|[float]) = m { 1 } else { 2 }; return (r, *log)", &["bool"]),
    t("cell-takes-other-member", "x := if {0} { 1 } else { 2.5 }; m := mut x; m = 2.5; m = 3; return (*m, *log)", &["bool"]),
    t("type-of-closure", "x := if {0} { 1 } else { 2.5 }; g := () -> int|float { return x }; r := match g { q: () -> int => 1, => 2, }; return (r, g(), *log)", &["bool"]),
    t("type-of-iterator", "x := if {0} { [1] } else { [2.5] }; it := x~; r := match it { q: () -> (bool, int) => 1, q: () -> (bool, float) => 2, => 3, }; return (r, it(), it(), *log)", &["bool"]),
    t("type-of-slice", "a := [{0}, 2.5][{1}:]; r := match a { q: [int] => 1, q: [float] => 2, q: [int|float] => 3, => 4, }; return (r, *log)", &["int", "idx"]),
    t("type-filter-of-constants", "r := [{0}, 2.5, true]~ ? int; return (r $], *log)", &["int"]),
    // one name on both sides of an operator: identities that hold for ordinary values (x == x, x - x == 0,
    // x * 0 == 0, x / x == 1 ...) do not hold for NaN, infinities, -0.0 (floats) or fail for 0 (ints);
    // the name is a constant in one twin and a run-time value in the other
    t("same-name-float-compare", "x := {0} * {1}; return (x == x, x != x, x < x, x <= x, x >= x, x > x, *log)", &["fx", "fx"]),
    t("same-name-float-arith", "x := {0} + {1}; return (x - x, x / x, x * 0.0, 0.0 * x, x + 0.0, x - 0.0, 0.0 - x, x * 1.0, x / 1.0, 0.0 / x, *log)", &["fx", "fx"]),
    t("same-name-float-param", "g := (q: float) -> any { return (q == q, q != q, q - q, q / q, q * 0.0, q <= q) }; return (g({0}), *log)", &["fx"]),
    t("same-name-union-param", "g := (q: float|int) -> any { return (q == q, q != q, [q] == [q], (q, 1) == (q, 1)) }; return (g({0}), *log)", &["fx"]),
    t("same-name-container", "x := [{0}, {1}]; y := ({0}, x); s := struct{ a := {1} }; return (x == x, x != x, y == y, y != y, s == s, s != s, x[0] == x[0], y.0 == y.0, s.a == s.a, *log)", &["fx", "fx"]),
    t("same-name-match", "x := {0}; r := match x { (x) => t(1, 1), => t(2, 2), }; return (r, *log)", &["fx"]),
    t("same-name-if", "x := {0} / {1}; if x == x { t(1, 1) } else { t(2, 2) }; if x != x { t(3, 3) }; n := mut 0; while x != x && *n < 2 { n += 1 }; return (*n, *log)", &["fx", "fx"]),
    t("same-name-int-arith", "x := {0} + {1}; return (x - x, x * 0, 0 * x, x & x, x | x, x ^ x, x + 0, x * 1, x << 0, x >> 0, x == x, x != x, x < x, x <= x, *log)", &["int", "int"]),
    t("same-name-int-div", "x := {0}; return (x OP x, *log)", &["int"]),
    t("same-name-int-div-one", "x := {0}; return (x / 1, x % 1, x ** 1, x ** 0, 1 ** x, 0 * x, *log)", &["int"]),
    t("same-name-bool", "x := {0}; y := tb(1, x); return (y && y, y || y, y & y, y | y, y ^ y, y == y, y != y, !y == y, y && !y, y || !y, *log)", &["bool"]),
    t("same-name-string", "x := {0} + {1}; return (x == x, x != x, x + \"\" == x, [x] == [x], *log)", &["str", "str"]),
    Template {
        name: "uncalled-function",
        body: "g := () -> any { return {0} OP {1} }; return (1, *log)",
        holes: &["int", "int"],
        unreached_failure_ok: true,
    },
    Template {
        name: "dead-branch",
        body: "r := if tb(1, false) { {0} OP {1} } else { 0 }; return (r, *log)",
        holes: &["int", "int"],
        unreached_failure_ok: true,
    },
];

const T_OPS: &[&str] = &["+", "-", "*", "/", "%", "<<", ">>", "&", "|", "^", "**", "==", "<"];

fn hole_values(kind: &str, thorough: bool) -> Vec<(String, Variable, &'static str)> {
    match kind {
        "int" => {
            // 2^32 and 2^32 + 1: an exponent / shift amount / operand cut to 32 bits anywhere shows
            let mut v: Vec<i64> = vec![0, 1, -1, 2, 64, i64::MIN, 4294967296, 4294967297];
            if thorough {
                v.extend([3, 63, -64, i64::MAX]);
            }
            v.into_iter().map(|i| (int_lit(i), Variable::Int(i), "int")).collect()
        }
        "idx" => [0i64, 1, -1, 2, -2, 3, -3, -4].into_iter().map(|i| (int_lit(i), Variable::Int(i), "int")).collect(),
        "float" => [("0.1", 0.1f64), ("0.2", 0.2), ("0.3", 0.3), ("1e16", 1e16), ("1.0", 1.0), ("(-0.0)", -0.0), ("1e308", 1e308)]
            .into_iter()
            .map(|(l, v)| (l.to_string(), Variable::Float(v), "float"))
            .collect(),
        // floats on which algebraic identities fail; NaN and the infinities have no literal, the
        // constant forms are folded divisions
        "fx" => [("1.5", 1.5f64), ("0.0", 0.0), ("(-0.0)", -0.0), ("(0.0 / 0.0)", f64::NAN), ("(1.0 / 0.0)", f64::INFINITY), ("(-1.0 / 0.0)", f64::NEG_INFINITY)]
            .into_iter()
            .map(|(l, v)| (l.to_string(), Variable::Float(v), "float"))
            .collect(),
        "str" => [("\"\"", ""), ("\"a\"", "a"), ("\"é\"", "é")].into_iter().map(|(l, v)| (l.to_string(), Variable::String(v.into()), "string")).collect(),
        "step" => [-1i64, 1, -2, 2, 0].into_iter().map(|i| (int_lit(i), Variable::Int(i), "int")).collect(),
        "len" => [0i64, 2, -1].into_iter().map(|i| (int_lit(i), Variable::Int(i), "int")).collect(),
        "bool" => vec![("true".into(), Variable::Bool(true), "bool"), ("false".into(), Variable::Bool(false), "bool")],
        _ => unreachable!(),
    }
}

const T_HELPERS: &str = "t := (i: int, v: int) -> int { log += [i]; return v }; tb := (i: int, v: bool) -> bool { log += [i]; return v };";

pub fn run(tier: &str) -> i32 {
    let thorough = tier == "thorough";
    let mut report = Report::new("C04", tier);
    let mut samples = Samples::new(8);

    // ---------------- part 1: every expression construct x literal value tuples x all 3^k masks
    let cs: Vec<Construct> = constructs(thorough).into_iter().filter(|c| c.expr.is_some() && c.slots <= 3).collect();
    let lits = literal_recipes(thorough);
    let mut jobs: Vec<(usize, Vec<usize>)> = Vec::new();
    for (ci, c) in cs.iter().enumerate() {
        let n = lits.len().pow(c.slots as u32);
        if c.slots == 3 && !thorough && !c.name.starts_with("slice") {
            continue;
        }
        for a in 0..n {
            let mut idx = Vec::new();
            let mut aa = a;
            for _ in 0..c.slots {
                idx.push(lits[aa % lits.len()]);
                aa /= lits.len();
            }
            jobs.push((ci, idx));
        }
    }
    let accs = par_fold(
        jobs.len(),
        || (Acc::default(), Interpreter::with_stdlib(), Values::new()),
        |(acc, interp, values), j| {
            let (ci, idx) = &jobs[j];
            let c = &cs[*ci];
            let mut operands = Vec::new();
            let mut vals = Vec::new();
            for &ri in idx {
                let Some(v) = values.make(ri) else { return };
                operands.push((RECIPES[ri].src.to_string(), Ty::from_impl(&v.as_type()).print()));
                vals.push(v);
            }
            // quick filter: is the all-hidden program accepted at all?
            let all_hidden = vec![Mode::Hidden; c.slots];
            let (htext, _) = build(c, &operands, &all_hidden);
            if let Out::Rejected(..) = run_program(interp, &htext, vals.clone()) {
                acc.not_comparable += 1;
                return;
            }
            let n_masks = 3usize.pow(c.slots as u32);
            for mask in 0..n_masks {
                let mut mm = mask;
                let modes: Vec<Mode> = (0..c.slots)
                    .map(|_| {
                        let m = [Mode::Lit, Mode::Hidden, Mode::HiddenLog][mm % 3];
                        mm /= 3;
                        m
                    })
                    .collect();
                if !modes.contains(&Mode::Lit) {
                    continue;
                }
                let twin: Vec<Mode> = modes.iter().map(|m| if *m == Mode::Lit { Mode::Hidden } else { *m }).collect();
                let (ltext, lidx) = build(c, &operands, &modes);
                let (ttext, tidx) = build(c, &operands, &twin);
                let largs: Vec<Variable> = lidx.iter().map(|&i| vals[i].clone()).collect();
                let targs: Vec<Variable> = tidx.iter().map(|&i| vals[i].clone()).collect();
                let lo = run_program(interp, &ltext, largs);
                let to = run_program(interp, &ttext, targs);
                let label = format!("construct={}|mask={}", c.name, modes.iter().map(|m| match m { Mode::Lit => 'L', Mode::Hidden => 'h', Mode::HiddenLog => 'g' }).collect::<String>());
                let arg_desc: Vec<String> = tidx.iter().map(|&i| operands[i].0.clone()).collect();
                let is_lit: Vec<bool> = modes.iter().map(|m| *m == Mode::Lit).collect();
                acc.compare(&label, &ltext, &lo, &ttext, &to, &arg_desc, |k| constant_failure_justified(c, &vals, &is_lit, k));
            }
        },
    );
    let mut acc = Acc::default();
    for (a, _, _) in accs {
        acc.merge(a);
    }
    let part1_pairs = acc.pairs;

    // ---------------- part 2: propagation templates x ops x hole values x all 2^k masks
    struct TJob {
        t: usize,
        op: &'static str,
        vals: Vec<(String, Variable, &'static str)>,
    }
    let mut tjobs: Vec<TJob> = Vec::new();
    for (ti, tpl) in TEMPLATES.iter().enumerate() {
        let ops: Vec<&'static str> = if tpl.body.contains("OP") { T_OPS.to_vec() } else { vec![""] };
        let choices: Vec<Vec<(String, Variable, &'static str)>> = tpl.holes.iter().map(|h| hole_values(h, thorough)).collect();
        let total: usize = choices.iter().map(|c| c.len()).product();
        for op in ops {
            if tpl.name == "cell-compound" && ["==", "<"].contains(&op) {
                continue;
            }
            for k in 0..total {
                let mut kk = k;
                let vals = choices
                    .iter()
                    .map(|c| {
                        let v = c[kk % c.len()].clone();
                        kk /= c.len();
                        v
                    })
                    .collect();
                tjobs.push(TJob { t: ti, op, vals });
            }
        }
    }
    let accs = par_fold(
        tjobs.len(),
        || (Acc::default(), Interpreter::with_stdlib()),
        |(acc, interp), j| {
            let job = &tjobs[j];
            let tpl = &TEMPLATES[job.t];
            let k = tpl.holes.len();
            let render = |mask: usize| -> (String, Vec<Variable>, Vec<String>) {
                let mut body = tpl.body.replace("OP", job.op);
                let mut params = Vec::new();
                let mut args = Vec::new();
                let mut desc = Vec::new();
                for i in 0..k {
                    let hole = format!("{{{i}}}");
                    if mask & (1 << i) != 0 {
                        body = body.replace(&hole, &format!("({})", job.vals[i].0));
                    } else {
                        body = body.replace(&hole, &format!("p{i}"));
                        params.push(format!("p{i}: {}", job.vals[i].2));
                        args.push(job.vals[i].1.clone());
                        desc.push(job.vals[i].0.clone());
                    }
                }
                (format!("f := ({}) -> any {{ {PRELUDE} {T_HELPERS} {body} }}", params.join(", ")), args, desc)
            };
            let (htext, hargs, hdesc) = render(0);
            let ho = run_program(interp, &htext, hargs);
            if let Out::Rejected(..) = ho {
                acc.not_comparable += 1;
                return;
            }
            for mask in 1..(1usize << k) {
                let (ltext, largs, _) = render(mask);
                let lo = run_program(interp, &ltext, largs);
                let label = format!("template={}|op={}|mask={mask:b}", tpl.name, job.op);
                let all_ints: Vec<i64> = job.vals.iter().enumerate().filter(|(i, _)| mask & (1 << i) != 0).filter_map(|(_, v)| if let Variable::Int(i) = v.1 { Some(i) } else { None }).collect();
                if matches!((&lo, &ho), (Out::Value(_) | Out::ExecError(_), Out::Value(_) | Out::ExecError(_))) {
                    *acc.per_template.entry(tpl.name).or_insert(0) += 1;
                }
                let lit_kind = |k: &str| tpl.holes.iter().enumerate().any(|(i, h)| *h == k && mask & (1 << i) != 0);
                acc.compare(&label, &ltext, &lo, &htext, &ho, &hdesc, |kind| {
                    {
                        // the failing operation must involve constants only and fail by the reference:
                        // some pair of the literal ints fails under the template's operator with this kind,
                        // or an index / length literal is out of range
                        let op = job.op;
                        let by_op = ["/", "%", "**", "<<", ">>"].contains(&op)
                            && all_ints.iter().any(|b| match (op, kind) {
                                ("/", "ZeroDivision") | ("%", "ZeroModulo") => *b == 0,
                                ("<<", "OverflowShift") | (">>", "OverflowShift") => !(0..=63).contains(b),
                                _ => false,
                            });
                        // an index literal justifies a parse-time failure only if it really is out of range
                        let array_len: i64 = match tpl.name { "array-index" => 3, "array-literal-index" => 2, _ => i64::MAX };
                        let idx_out_of_range = tpl.holes.iter().enumerate().any(|(i, h)| {
                            *h == "idx" && mask & (1 << i) != 0 && matches!(job.vals[i].1, Variable::Int(v) if v < -array_len || v >= array_len)
                        });
                        let by_index = kind == "IndexOutOfBounds" && lit_kind("idx") && idx_out_of_range;
                        let by_len = kind == "NegativeLength" && lit_kind("len");
                        by_op || by_index || by_len
                    }
                });
            }
        },
    );
    for (a, _) in accs {
        acc.merge(a);
    }
    samples.push(|| {
        let c = &cs[0];
        let ops = vec![("1".to_string(), "int".to_string()), ("2".to_string(), "int".to_string())];
        json!({"literal_program": build(c, &ops, &[Mode::Lit, Mode::HiddenLog]).0, "hidden_twin": build(c, &ops, &[Mode::Hidden, Mode::HiddenLog]).0, "args": ["1", "2"]})
    });
    samples.push(|| json!({"template": TEMPLATES[2].body, "op": "/", "holes": ["(0 - 1)", "0"]}));

    let comparable_share = acc.comparable as f64 / (acc.pairs.max(1) as f64);
    let Acc { pairs, comparable, both_value, both_error, parse_time_failures_justified, not_comparable, inconclusive, different_error_kinds, outcomes, per_template, violations } = acc;
    // a template whose twins never both run compares nothing: that is a defect of the harness
    let vacuous: Vec<&str> = TEMPLATES.iter().map(|t| t.name).filter(|n| per_template.get(n).copied().unwrap_or(0) == 0).collect();
    if !vacuous.is_empty() {
        eprintln!("MACHINERY ERROR: C04 templates without a single twin pair that ran on both sides: {vacuous:?}");
        return 2;
    }
    report.violations(violations);
    let coverage = json!({
        "states": pairs,
        "transitions": pairs * 2,
        "traces_validated_against_impl": pairs * 2,
        "twin_pairs": pairs,
        "single_construct_pairs": part1_pairs,
        "template_pairs": pairs - part1_pairs,
        "comparable": comparable,
        "comparable_share": comparable_share,
        "both_completed": both_value,
        "both_failed_at_run_time": both_error,
        "both_failed_with_different_kinds": different_error_kinds,
        "parse_time_failures_justified_by_reference": parse_time_failures_justified,
        "not_comparable_acceptance_differences": not_comparable,
        "inconclusive": inconclusive,
        "distinct_outcomes": outcomes.len(),
        "outcome_pairs": outcomes,
        "samples": samples.items,
        "exhaustive": true,
        "rule": "a state is a (program with literals, constant-hidden twin) pair; both are executed on the real interpreter through the host API and their (value, effect log, error kind) compared",
        "pairs_run_on_both_sides_per_template": per_template,
        "bounds": format!("every expression construct x every tuple of first-order palette literals x all 3^k literal/hidden/hidden+logging masks; {} propagation templates x {} operators x boundary ints x all 2^k masks", TEMPLATES.len(), T_OPS.len()),
    });
    let code = report.finish(
        "model_checking",
        coverage,
        &[
            "effects are observed through a log cell appended to by identity wrappers",
            "a parse-time error of one of the six kinds is accepted only when the reference arithmetic says a constant operation of the program fails with that kind",
        ],
    );
    if comparable_share < 0.5 {
        eprintln!("MACHINERY ERROR: only {comparable_share:.2} of the twin pairs are comparable");
        return 2;
    }
    code
}
