//! C12 — control flow selects and exits exactly the documented construct.
//! Nestings of conditionals, matches, if-set / while-set and the four loop forms
//! inside a function, with an exit at every leaf and a marker in every body, are
//! generated as a small AST, printed to SimpleSL, run for every scrutinee value,
//! and compared (result + marker log) with a reference evaluator of that AST.
use crate::core::{self, guard, par_fold, Stop};
use crate::report::{Report, Samples, Violation};
use crate::val::canon;
use serde_json::json;
use simplesl::variable::{Type, Variable};
use simplesl::{verif, Code, Interpreter};
use std::collections::BTreeSet;

#[derive(Clone, Debug, PartialEq)]
enum Node {
    /// falls through (its marker is logged by the enclosing body)
    Fall,
    Return(i64),
    Break,
    Continue,
    If(Box<Node>),
    IfElse(Box<Node>, Box<Node>),
    IfNot(Box<Node>),
    /// match v { x: int => A, y: string | float => B, => C }
    MatchType(Box<Node>, Box<Node>, Box<Node>),
    /// match v { 1 => A, 2, 3 => B, => C }
    MatchValue(Box<Node>, Box<Node>, Box<Node>),
    /// if x: int = v A else B
    IfSetInt(Box<Node>, Box<Node>),
    /// if x: [int] = v A
    IfSetArr(Box<Node>),
    /// while x: int = next() A   (next yields 1, 2, then "stop")
    WhileSet(Box<Node>),
    /// loop { i += 1; if *i > 2 { break }; A }
    Loop(Box<Node>),
    /// while *i < 2 { i += 1; A }
    While(Box<Node>),
    /// for e in [1, 2]~ A
    For(Box<Node>),
    /// { A; B }
    Block(Box<Node>, Box<Node>),
    /// m := mod { A }
    Module(Box<Node>),
}

#[derive(Clone, Debug, PartialEq)]
enum Scrut {
    I(i64),
    F,
    S,
    Unit,
    Arr,
    Tup,
}

impl Scrut {
    fn lit(&self) -> String {
        match self {
            Scrut::I(i) => i.to_string(),
            Scrut::F => "1.5".into(),
            Scrut::S => "\"s\"".into(),
            Scrut::Unit => "()".into(),
            Scrut::Arr => "[1, 2]".into(),
            Scrut::Tup => "(1, 2)".into(),
        }
    }
}

enum Flow {
    Next,
    Break,
    Continue,
    Return(i64),
}

struct Ctx<'a> {
    v: &'a Scrut,
    p: bool,
    log: Vec<i64>,
}

/// reference semantics (docs/statements.md and the property statement)
fn exec(n: &Node, id: &mut i64, cx: &mut Ctx) -> Flow {
    // ids are assigned in pre-order exactly as the printer does
    let my = *id;
    *id += 1;
    // every child body logs its own marker first
    macro_rules! body {
        ($child:expr) => {{
            let cid = *id;
            cx.log.push(cid);
            exec($child, id, cx)
        }};
    }
    // skipping a child must still advance the id counter by the size of its subtree
    fn size(n: &Node) -> i64 {
        1 + match n {
            Node::Fall | Node::Return(_) | Node::Break | Node::Continue => 0,
            Node::If(a) | Node::IfNot(a) | Node::IfSetArr(a) | Node::WhileSet(a) | Node::Loop(a) | Node::While(a) | Node::For(a) | Node::Module(a) => size(a),
            Node::IfElse(a, b) | Node::IfSetInt(a, b) | Node::Block(a, b) => size(a) + size(b),
            Node::MatchType(a, b, c) | Node::MatchValue(a, b, c) => size(a) + size(b) + size(c),
        }
    }
    let _ = my;
    match n {
        Node::Fall => Flow::Next,
        Node::Return(k) => Flow::Return(*k),
        Node::Break => Flow::Break,
        Node::Continue => Flow::Continue,
        Node::If(a) => {
            if cx.p {
                body!(a)
            } else {
                *id += size(a);
                Flow::Next
            }
        }
        Node::IfNot(a) => {
            if !cx.p {
                body!(a)
            } else {
                *id += size(a);
                Flow::Next
            }
        }
        Node::IfElse(a, b) => {
            if cx.p {
                let f = body!(a);
                *id += size(b);
                f
            } else {
                *id += size(a);
                body!(b)
            }
        }
        Node::MatchType(a, b, c) => match cx.v {
            Scrut::I(_) => {
                let f = body!(a);
                *id += size(b) + size(c);
                f
            }
            Scrut::S | Scrut::F => {
                *id += size(a);
                let f = body!(b);
                *id += size(c);
                f
            }
            _ => {
                *id += size(a) + size(b);
                body!(c)
            }
        },
        Node::MatchValue(a, b, c) => match cx.v {
            Scrut::I(1) => {
                let f = body!(a);
                *id += size(b) + size(c);
                f
            }
            Scrut::I(2) | Scrut::I(3) => {
                *id += size(a);
                let f = body!(b);
                *id += size(c);
                f
            }
            _ => {
                *id += size(a) + size(b);
                body!(c)
            }
        },
        Node::IfSetInt(a, b) => {
            if matches!(cx.v, Scrut::I(_)) {
                let f = body!(a);
                *id += size(b);
                f
            } else {
                *id += size(a);
                body!(b)
            }
        }
        Node::IfSetArr(a) => {
            if matches!(cx.v, Scrut::Arr) {
                body!(a)
            } else {
                *id += size(a);
                Flow::Next
            }
        }
        Node::Block(a, b) => {
            let fa = body!(a);
            if !matches!(fa, Flow::Next) {
                *id += size(b);
                return fa;
            }
            body!(b)
        }
        Node::Module(a) => body!(a),
        Node::Loop(a) | Node::While(a) | Node::For(a) | Node::WhileSet(a) => {
            let start = *id;
            let mut result = Flow::Next;
            // every form runs its body at most twice (counter / two elements / two ints then "stop")
            for _ in 0..2 {
                *id = start;
                match body!(a) {
                    Flow::Next | Flow::Continue => {}
                    Flow::Break => break,
                    Flow::Return(k) => {
                        result = Flow::Return(k);
                        break;
                    }
                }
            }
            *id = start + size(a);
            result
        }
    }
}

/// prints the node as statements; `id` numbering matches `exec`
fn print(n: &Node, id: &mut i64, out: &mut String) {
    let my = *id;
    *id += 1;
    let body = |child: &Node, id: &mut i64| -> String {
        let cid = *id;
        let mut s = format!("{{ log += [{cid}]; ");
        print(child, id, &mut s);
        s.push_str(" }");
        s
    };
    match n {
        Node::Fall => out.push_str("0;"),
        Node::Return(k) => out.push_str(&format!("return {k};")),
        Node::Break => out.push_str("break;"),
        Node::Continue => out.push_str("continue;"),
        Node::If(a) => out.push_str(&format!("if p {};", body(a, id))),
        Node::IfNot(a) => out.push_str(&format!("if !p {};", body(a, id))),
        Node::IfElse(a, b) => {
            let sa = body(a, id);
            let sb = body(b, id);
            out.push_str(&format!("if p {sa} else {sb};"));
        }
        Node::MatchType(a, b, c) => {
            let (sa, sb, sc) = (body(a, id), body(b, id), body(c, id));
            out.push_str(&format!("match v {{ x: int => {sa}, y: string | float => {sb}, => {sc}, }};"));
        }
        Node::MatchValue(a, b, c) => {
            let (sa, sb, sc) = (body(a, id), body(b, id), body(c, id));
            out.push_str(&format!("match v {{ 1 => {sa}, 2, 3 => {sb}, => {sc}, }};"));
        }
        Node::IfSetInt(a, b) => {
            let (sa, sb) = (body(a, id), body(b, id));
            out.push_str(&format!("if x: int = v {sa} else {sb};"));
        }
        Node::IfSetArr(a) => out.push_str(&format!("if x: [int] = v {};", body(a, id))),
        Node::Block(a, b) => {
            let (sa, sb) = (body(a, id), body(b, id));
            out.push_str(&format!("{{ {sa}; {sb}; }};"));
        }
        Node::Module(a) => out.push_str(&format!("m{my} := mod {};", body(a, id))),
        Node::Loop(a) => {
            let cid = *id;
            let mut s = format!("i{my} := mut 0; loop {{ i{my} += 1; if *i{my} > 2 {{ break }}; log += [{cid}]; ");
            print(a, id, &mut s);
            s.push_str(" };");
            out.push_str(&s);
        }
        Node::While(a) => {
            let cid = *id;
            let mut s = format!("i{my} := mut 0; while *i{my} < 2 {{ i{my} += 1; log += [{cid}]; ");
            print(a, id, &mut s);
            s.push_str(" };");
            out.push_str(&s);
        }
        Node::For(a) => out.push_str(&format!("for e{my} in [1, 2]~ {};", body(a, id))),
        Node::WhileSet(a) => {
            out.push_str(&format!(
                "i{my} := mut 0; n{my} := () -> int | string {{ i{my} += 1; if *i{my} <= 2 {{ return *i{my} }}; return \"stop\" }}; while w{my}: int = n{my}() {};",
                body(a, id)
            ));
        }
    }
}

fn leaves(in_loop: bool, reduced: bool) -> Vec<Node> {
    let mut v = vec![Node::Fall, Node::Return(7)];
    if in_loop && !reduced {
        v.push(Node::Break);
        v.push(Node::Continue);
    }
    v
}

/// all trees of exactly `depth` levels of constructs; at depth >= 2 one slot carries the deep child,
/// the other slots carry reduced leaves
fn trees(depth: usize, in_loop: bool) -> Vec<Node> {
    if depth == 0 {
        return leaves(in_loop, false);
    }
    let b = |n: &Node| Box::new(n.clone());
    let mut out = Vec::new();
    let deep = |il: bool| trees(depth - 1, il);
    let fill = |il: bool| if depth == 1 { leaves(il, false) } else { leaves(il, true) };
    // one-slot constructs
    for d in deep(in_loop) {
        out.push(Node::If(b(&d)));
        out.push(Node::IfNot(b(&d)));
        out.push(Node::IfSetArr(b(&d)));
        out.push(Node::Module(b(&d)));
    }
    for d in deep(true) {
        out.push(Node::Loop(b(&d)));
        out.push(Node::While(b(&d)));
        out.push(Node::For(b(&d)));
        out.push(Node::WhileSet(b(&d)));
    }
    // two-slot constructs: the deep child in either slot
    for d in deep(in_loop) {
        for f in fill(in_loop) {
            if depth == 1 || true {
                out.push(Node::IfElse(b(&d), b(&f)));
                out.push(Node::IfSetInt(b(&d), b(&f)));
                out.push(Node::Block(b(&d), b(&f)));
                if depth > 1 {
                    out.push(Node::IfElse(b(&f), b(&d)));
                    out.push(Node::IfSetInt(b(&f), b(&d)));
                    out.push(Node::Block(b(&f), b(&d)));
                }
            }
        }
    }
    // three-slot constructs
    for d in deep(in_loop) {
        for f in fill(in_loop) {
            for g in fill(in_loop) {
                out.push(Node::MatchType(b(&d), b(&f), b(&g)));
                out.push(Node::MatchValue(b(&d), b(&f), b(&g)));
                if depth > 1 {
                    out.push(Node::MatchType(b(&f), b(&d), b(&g)));
                    out.push(Node::MatchType(b(&f), b(&g), b(&d)));
                    out.push(Node::MatchValue(b(&f), b(&d), b(&g)));
                    out.push(Node::MatchValue(b(&f), b(&g), b(&d)));
                }
            }
        }
    }
    out
}

fn program(n: &Node) -> String {
    let mut body = String::new();
    let mut id = 0;
    print(n, &mut id, &mut body);
    format!("f := (v: int | float | string | () | [int] | (int, int), p: bool) -> any {{ log := mut [int] []; inner := () -> int {{ {body} return 0 - 1; }}; r := inner(); return (r, *log) }}")
}

/// the same nesting with the scrutinee and the flag as constants bound inside (the folder then
/// prunes branches, arms and loops): same exits, same log
fn program_constant(n: &Node, v: &str, p: bool) -> String {
    let mut body = String::new();
    let mut id = 0;
    print(n, &mut id, &mut body);
    format!("log := mut [int] []; v := {v}; p := {p}; inner := () -> int {{ {body} return 0 - 1; }}; r := inner(); (r, *log)")
}

fn scrutinees() -> Vec<Scrut> {
    vec![Scrut::I(1), Scrut::I(2), Scrut::I(3), Scrut::I(9), Scrut::F, Scrut::S, Scrut::Unit, Scrut::Arr, Scrut::Tup]
}

/// placements that the checker must reject
const ILLEGAL: &[&str] = &[
    "break",
    "continue",
    "return 1",
    "{ break }",
    "if true { continue }",
    "f := () -> int { break; return 1 }",
    "f := () -> int { if true { continue }; return 1 }",
    "loop { g := () -> int { break; return 1 }; break }",
    "loop { g := () -> int { continue; return 1 }; break }",
    "for e in [1]~ { h := () { if true { break } } }",
    "while true { h := () -> () { continue }; break }",
    "m := mod { break }",
    "m := mod { return 1 }",
    "x := match 1 { 1 => { break }, => { 0 }, }",
    "f := () -> int { m := mod { continue }; return 1 }",
    "loop { break }; continue",
    "f := () -> int { loop { break }; break; return 1 }",
    "x := { return 5 }",
    "if v: int = 1 { return v }",
];

/// placements that must be accepted, with their result
const LEGAL: &[(&str, &str)] = &[
    ("f := () -> int { loop { loop { break }; return 1 }; return 0 }; f()", "1"),
    ("f := () -> int { for e in [1, 2]~ { if e == 1 { continue }; return e }; return 0 }; f()", "2"),
    ("f := () -> int { while true { m := mod { return 3 } }; return 0 }; f()", "3"),
    ("f := () -> int { x := { return 5 }; return 0 }; f()", "5"),
    ("f := () -> int { loop { match 1 { 1 => { break }, => { return 9 }, } }; return 4 }; f()", "4"),
    ("f := () -> int { c := mut 0; loop { c += 1; if *c < 3 { continue }; break }; return *c }; f()", "3"),
    ("f := () -> int { while w: int = 1 { if w: int = w { return w + 1 } }; return 0 }; f()", "2"),
    ("r := loop { break }; r", "()"),
    ("r := while false { }; r", "()"),
    ("r := for e in []~ { }; r", "()"),
    ("r := { 1; 2; 3 }; r", "3"),
    ("r := { }; r", "()"),
    ("r := if false { 1 }; r", "()"),
    ("f := () { }; f()", "()"),
    ("f := () { return }; f()", "()"),
    ("f := () -> () { if true { return } }; f()", "()"),
];

/// (static type of the scrutinee, value, test type): the body runs iff the value's run-time
/// type is below T by the reference relation
fn dispatch_grid(thorough: bool) -> (u64, Vec<Violation>) {
    use crate::palette::{Values, RECIPES};
    use crate::ty::{sub, Ty};
    use simplesl::variable::Typed;
    let mut values = Values::new();
    let interp = Interpreter::with_stdlib();
    let mut out = Vec::new();
    let mut n = 0u64;
    let mut tests: Vec<Ty> = crate::palette::position_types();
    tests.extend([
        Ty::strukt(&[]),
        Ty::strukt(&[("a", Ty::Int), ("b", Ty::Str)]),
        Ty::strukt(&[("a", Ty::Float)]),
        Ty::strukt(&[("a", Ty::Any)]),
        Ty::strukt(&[("b", Ty::Str)]),
        Ty::union([Ty::strukt(&[("a", Ty::Int)]), Ty::Int]),
        Ty::arr(Ty::Any),
        Ty::arr(Ty::union([Ty::Int, Ty::Str])),
        Ty::Tup(vec![Ty::Any, Ty::Any]),
        Ty::Tup(vec![Ty::Int, Ty::Int, Ty::Int]),
        Ty::func(vec![Ty::Int], Ty::Any),
        Ty::func(vec![], Ty::Tup(vec![Ty::Bool, Ty::Any])),
        Ty::mutc(Ty::union([Ty::Int, Ty::Float])),
        Ty::Bool,
    ]);
    let max_rank = if thorough { 2 } else { 1 };
    for ri in 0..RECIPES.len() {
        if RECIPES[ri].rank > max_rank {
            continue;
        }
        let Some(v) = values.make(ri) else { continue };
        let tag = Ty::from_impl(&v.as_type());
        // static types under which the value is passed: any, its own type, its own type in a union
        let statics = vec![Ty::Any, tag.clone(), Ty::union([tag.clone(), Ty::Void])];
        for s in &statics {
            for t in &tests {
                let want = sub(&tag, t);
                let forms = [
                    ("if-set", format!("f := (v: {}) -> any {{ if x: {} = v {{ return 1 }} else {{ return 0 }} }}", s.print(), t.print())),
                    ("match", format!("f := (v: {}) -> any {{ return match v {{ x: {} => 1, => 0, }} }}", s.print(), t.print())),
                    ("while-set", format!("f := (v: {}) -> any {{ n := mut 0; while x: {} = v {{ n += 1; break }}; return *n }}", s.print(), t.print())),
                ];
                for (form, text) in forms {
                    n += 1;
                    let f = match guard(|| Code::parse(&interp, &text).map(|c| c.exec())) {
                        Ok(Ok(Ok(Variable::Function(f)))) => f,
                        Ok(Err(_)) => continue, // e.g. `? T` style restrictions; acceptance is not the claim here
                        other => {
                            out.push(Violation {
                                sig: format!("C12|dispatch|{form}|program-fails"),
                                detail: json!({"kind": "program", "stdlib": true, "text": text, "observed": format!("{:?}", other.map(|r| r.map(|x| x.map(|v| canon(&v)))))}),
                            });
                            continue;
                        }
                    };
                    let Some(arg) = values.make(ri) else { continue };
                    let got = match guard(|| f.clone().create_call(vec![arg]).map(|c| c.exec())) {
                        Ok(Ok(Ok(r))) => canon(&r),
                        Ok(Ok(Err(e))) => format!("error:{}", core::exec_error_kind(&e)),
                        Ok(Err(_)) => continue,
                        Err(Stop::Panic(p)) => format!("PANIC {} @{}", p.short_msg(), p.file()),
                        Err(Stop::Exhausted) => continue,
                    };
                    if got != if want { "1" } else { "0" } {
                        out.push(Violation {
                            sig: format!("C12|dispatch|{form}|value-type={}|test={}|expected-match={want}", tag.print().replace('|', "/"), t.print().replace('|', "/")),
                            detail: json!({"kind": "host_call", "program": text, "args": [RECIPES[ri].src], "expected": if want { "1" } else { "0" }, "observed": got}),
                        });
                    }
                }
            }
        }
    }
    (n, out)
}

/// `match` with several value arms runs the first arm, top to bottom, whose value equals the
/// scrutinee by content - whatever the run-time type tags of the two (empty arrays produced
/// differently, containers of them) - with the arm values written as literals and passed at run time.
fn value_arm_grid() -> (u64, Vec<Violation>) {
    use crate::props::c19::content_eq;
    const VALS: &[&str] = &[
        "1", "2", "1.0", "\"1\"", "true", "()", "[]", "[0; 0]", "[\"\"; 0]", "[1]", "[1.0]", "[1, 2][0:1]", "[[0; 0]]", "[[]]",
        "([0; 0], 1)", "([], 1)", "struct{ a := [0; 0] }", "struct{ a := [] }",
    ];
    let interp = Interpreter::with_stdlib();
    let make = |src: &str| -> Variable { Code::parse(&interp, src).expect("C12 value recipe").exec().expect("C12 value recipe") };
    let vals: Vec<Variable> = VALS.iter().map(|s| make(s)).collect();
    let mut out = Vec::new();
    let mut n = 0u64;
    let run_time = match guard(|| Code::parse(&interp, "f := (v: any, a: any, b: any) -> any { return match v { (a) => 1, (b) => 2, => 0, } }").map(|c| c.exec())) {
        Ok(Ok(Ok(Variable::Function(f)))) => Some(f),
        _ => None,
    };
    if run_time.is_none() {
        out.push(Violation { sig: "C12|value-arms|program-fails".into(), detail: json!({"kind": "program", "stdlib": true, "text": "match with run-time value arms"}) });
    }
    for (i1, a1) in VALS.iter().enumerate() {
        for (i2, a2) in VALS.iter().enumerate() {
            let text = format!("f := (v: any) -> any {{ return match v {{ ({a1}) => 1, ({a2}) => 2, => 0, }} }}");
            let lit = match guard(|| Code::parse(&interp, &text).map(|c| c.exec())) {
                Ok(Ok(Ok(Variable::Function(f)))) => Some(f),
                _ => {
                    out.push(Violation { sig: format!("C12|value-arms|program-fails|{a1};{a2}"), detail: json!({"kind": "program", "stdlib": true, "text": text}) });
                    None
                }
            };
            for (is, s) in VALS.iter().enumerate() {
                let want = if content_eq(&vals[is], &vals[i1]) {
                    "1"
                } else if content_eq(&vals[is], &vals[i2]) {
                    "2"
                } else {
                    "0"
                };
                let forms = [("literal-arms", lit.clone(), vec![make(s)]), ("run-time-arms", run_time.clone(), vec![make(s), make(a1), make(a2)])];
                for (form, f, args) in forms {
                    let Some(f) = f else { continue };
                    n += 1;
                    let got = match guard(|| f.clone().create_call(args).map(|c| c.exec())) {
                        Ok(Ok(Ok(r))) => canon(&r),
                        Ok(Ok(Err(e))) => format!("error:{}", core::exec_error_kind(&e)),
                        Ok(Err(e)) => format!("host-rejected:{}", core::error_kind(&e)),
                        Err(Stop::Panic(p)) => format!("PANIC {} @{}", p.short_msg(), p.file()),
                        Err(Stop::Exhausted) => continue,
                    };
                    if got != want {
                        out.push(Violation {
                            sig: format!("C12|value-arms|{form}|scrutinee={s}|arms={a1};{a2}|expected={want}"),
                            detail: json!({"kind": "host_call", "program": if form == "literal-arms" { text.clone() } else { "f := (v: any, a: any, b: any) -> any { return match v { (a) => 1, (b) => 2, => 0, } }".to_string() }, "args": if form == "literal-arms" { vec![s.to_string()] } else { vec![s.to_string(), a1.to_string(), a2.to_string()] }, "expected": want, "observed": got}),
                        });
                    }
                }
            }
        }
    }
    (n, out)
}

/// Arm order: `match` runs the first arm, top to bottom, that accepts the scrutinee, whatever the
/// kinds of the arms and wherever the catch-all arm is written. Every sequence of one to three
/// arms over a small arm alphabet (value arms, type arms of three widths, catch-all), every
/// scrutinee, with the scrutinee a run-time value of static type any and a constant.
fn arm_order_grid() -> (u64, u64, Vec<Violation>) {
    use crate::props::c19::content_eq;
    use std::str::FromStr;
    // (arm text, value it equals, type it tests)
    const ARMS: &[(&str, Option<&str>, Option<&str>)] = &[
        ("(1)", Some("1"), None),
        ("(2)", Some("2"), None),
        ("q: int", None, Some("int")),
        ("q: int|string", None, Some("int|string")),
        ("q: any", None, Some("any")),
        ("", None, None),
    ];
    const SCRUT: &[&str] = &["1", "2", "3", "\"s\"", "1.5", "true"];
    let interp = Interpreter::with_stdlib();
    let make = |src: &str| -> Variable { Code::parse(&interp, src).expect("C12 value recipe").exec().expect("C12 value recipe") };
    let scrut: Vec<Variable> = SCRUT.iter().map(|s| make(s)).collect();
    let accepts = |arm: usize, v: &Variable| -> bool {
        match ARMS[arm] {
            (_, Some(val), _) => content_eq(v, &make(val)),
            (_, _, Some(t)) => simplesl::variable::Typed::as_type(v).matches(&Type::from_str(t).expect("type text")),
            _ => true,
        }
    };
    let mut seqs: Vec<Vec<usize>> = Vec::new();
    for a in 0..ARMS.len() {
        seqs.push(vec![a]);
        for b in 0..ARMS.len() {
            seqs.push(vec![a, b]);
            for c in 0..ARMS.len() {
                seqs.push(vec![a, b, c]);
            }
        }
    }
    let mut out = Vec::new();
    let (mut n, mut rejected) = (0u64, 0u64);
    for seq in &seqs {
        let arms: String = seq.iter().enumerate().map(|(k, a)| format!("{} => {}, ", ARMS[*a].0, k + 1)).collect();
        let always_covered = seq.iter().any(|a| *a >= 4);
        // run-time scrutinee
        let text = format!("f := (v: any) -> any {{ return match v {{ {arms}}} }}");
        let f = match guard(|| Code::parse(&interp, &text).map(|c| c.exec())) {
            Ok(Ok(Ok(Variable::Function(f)))) => Some(f),
            Ok(Err(_)) if !always_covered => {
                rejected += 1;
                None
            }
            _ => {
                out.push(Violation { sig: format!("C12|arm-order|program-fails|{arms}"), detail: json!({"kind": "program", "stdlib": true, "text": text}) });
                None
            }
        };
        for (is, s) in SCRUT.iter().enumerate() {
            let want = seq.iter().position(|a| accepts(*a, &scrut[is])).map(|k| (k + 1).to_string());
            if let (Some(f), Some(want)) = (&f, &want) {
                n += 1;
                let got = match guard(|| f.clone().create_call(vec![make(s)]).map(|c| c.exec())) {
                    Ok(Ok(Ok(r))) => canon(&r),
                    Ok(Ok(Err(e))) => format!("error:{}", core::exec_error_kind(&e)),
                    Ok(Err(e)) => format!("host-rejected:{}", core::error_kind(&e)),
                    Err(Stop::Panic(p)) => format!("PANIC {} @{}", p.short_msg(), p.file()),
                    Err(Stop::Exhausted) => continue,
                };
                if &got != want {
                    out.push(Violation {
                        sig: format!("C12|arm-order|run-time-scrutinee|arms={arms}|scrutinee={s}|expected={want}"),
                        detail: json!({"kind": "host_call", "program": text, "args": [s], "expected": want, "observed": got}),
                    });
                }
            }
            // constant scrutinee: the arm is chosen (possibly by the folder) among arms the
            // checker keeps for the static type of the literal
            let text = format!("match {s} {{ {arms}}}");
            n += 1;
            let got = match guard(|| Code::parse(&interp, &text).map(|c| c.exec())) {
                Ok(Ok(Ok(r))) => canon(&r),
                Ok(Ok(Err(e))) => format!("error:{}", core::exec_error_kind(&e)),
                // coverage is judged on types: value arms alone never cover
                Ok(Err(_)) if !always_covered => {
                    rejected += 1;
                    continue;
                }
                Ok(Err(e)) => format!("rejected:{}", core::error_kind(&e)),
                Err(Stop::Panic(p)) => format!("PANIC {} @{}", p.short_msg(), p.file()),
                Err(Stop::Exhausted) => continue,
            };
            if Some(&got) != want.as_ref() {
                out.push(Violation {
                    sig: format!("C12|arm-order|constant-scrutinee|arms={arms}|scrutinee={s}|expected={}", want.clone().unwrap_or("rejected".into())),
                    detail: json!({"kind": "program", "stdlib": true, "text": text, "expected": want, "observed": got}),
                });
            }
        }
    }
    (n, rejected, out)
}

/// A function boundary stops `return` (and is where `break` / `continue` may not pass): every way
/// of making and calling an inner function (declared, bound literal, literal called in place with
/// and without parameters, callback of @ / ? / $, returned closure, module function) x inner
/// bodies with exits nested in branches, loops, arms and blocks x the enclosing function called
/// on both paths; expected = the enclosing function continues after the inner call.
fn function_boundaries() -> (u64, Vec<Violation>) {
    // inner bodies over a bool `c`: (name, body, value when c, value when !c)
    const BODIES: &[(&str, &str, i64, i64)] = &[
        ("return in a branch", "if c { return 1 }; return 2", 1, 2),
        ("return in a loop", "loop { if c { return 1 }; break }; return 2", 1, 2),
        ("return in a for", "for e in [1, 2]~ { if c { return e } }; return 5", 1, 5),
        ("return in a match arm", "match c { true => { return 1 }, => { }, }; return 2", 1, 2),
        ("return in an if-set", "if q: bool = c { if q { return 1 } }; return 2", 1, 2),
        ("return in a nested block", "{ { if c { return 1 } } }; return 2", 1, 2),
        ("return in a while-set", "while q: bool = c { if q { return 1 }; break }; return 2", 1, 2),
        ("return in the operand of the last return", "return if c { 1 } else { { return 2 } }", 1, 2),
        ("single exit", "return if c { 1 } else { 2 }", 1, 2),
    ];
    // ways of calling the inner function from the enclosing one; INNER = "(c: bool) -> int { BODY }" or its
    // parameterless form with c captured
    const CALLS: &[(&str, &str)] = &[
        ("declared function", "g := (c: bool) -> int { BODY }; r := g(c)"),
        ("literal called in place", "r := ((c: bool) -> int { BODY })(c)"),
        ("parameterless literal called in place", "r := (() -> int { BODY })()"),
        ("parameterless literal called in place as an operand", "r := 0 + (() -> int { BODY })()"),
        ("parameterless declared function", "g := () -> int { BODY }; r := g()"),
        ("callback of @", "r := ([c]~ @ (c: bool) -> int { BODY } $])[0]"),
        ("callback of $", "r := [c]~ $ 0 (a: any, c: bool) -> int { BODY }"),
        ("returned closure", "mk := () -> () -> int { return () -> int { BODY } }; r := mk()()"),
        ("function of a module", "m := mod { g := (c: bool) -> int { BODY } }; r := m.g(c)"),
        ("inside a loop of the enclosing function", "r := mut 0; for k in [1]~ { r = (() -> int { BODY })() }; r := *r"),
    ];
    let interp = Interpreter::with_stdlib();
    let mut out = Vec::new();
    let mut n = 0u64;
    for (bname, body, yes, no) in BODIES {
        for (cname, call) in CALLS {
            let text = format!("outer := (c: bool) -> any {{ {}; return (r, 10) }}", call.replace("BODY", body));
            let f = match guard(|| Code::parse(&interp, &text).map(|c| c.exec())) {
                Ok(Ok(Ok(Variable::Function(f)))) => f,
                other => {
                    out.push(Violation { sig: format!("C12|function-boundary|program-fails|{cname}|{bname}"), detail: json!({"kind": "program", "stdlib": true, "text": text, "observed": format!("{:?}", other.map(|r| r.map(|r| r.map(|v| canon(&v)))))}) });
                    continue;
                }
            };
            for (c, want) in [(true, yes), (false, no)] {
                n += 1;
                let want = format!("({want}, 10)");
                let got = match guard(|| f.clone().create_call(vec![Variable::Bool(c)]).map(|c| c.exec())) {
                    Ok(Ok(Ok(r))) => canon(&r),
                    Ok(Ok(Err(e))) => format!("error:{}", core::exec_error_kind(&e)),
                    Ok(Err(e)) => format!("host-rejected:{}", core::error_kind(&e)),
                    Err(Stop::Panic(p)) => format!("PANIC {} @{}", p.short_msg(), p.file()),
                    Err(Stop::Exhausted) => continue,
                };
                if got != want {
                    out.push(Violation {
                        sig: format!("C12|function-boundary|{cname}|{bname}|c={c}"),
                        detail: json!({"kind": "host_call", "program": text, "args": [c.to_string()], "expected": want, "observed": got}),
                    });
                }
            }
        }
    }
    (n, out)
}

/// Loops evaluate to `()`, wherever the `break` that ends them stands: a loop left through a break
/// in each kind of position x uses of the loop's value that only a `()` admits (bound and
/// returned; as a function's last statement where a result is declared: rejected; as the scrutinee
/// of a match without a `()` arm: rejected; as an operand of `+`: rejected).
fn loop_value_grid() -> (u64, Vec<Violation>) {
    const EXITS: &[(&str, &str)] = &[
        ("directly", "break"),
        ("in a block", "{ break }"),
        ("in an if", "if c { break }"),
        ("in an else", "if !c { } else { break }"),
        ("in an if-set branch", "if q: bool = c { break }"),
        ("in an if-set else", "if q: int = c { } else { break }"),
        ("in a match value arm", "match c { true => { break }, => { }, }"),
        ("in a match type arm", "match c { q: bool => { break }, }"),
        ("in a match default arm", "match c { false => { }, => { break }, }"),
        ("in the value of a declaration", "z := if c { break } else { 1 }"),
        ("in a block inside an arm", "match c { true => { { break } }, => { }, }"),
        ("after a nested loop", "loop { break }; break"),
        ("in a while-set body nested in a block", "{ if c { { break } } }"),
    ];
    let mut out = Vec::new();
    let mut n = 0u64;
    for (ename, exit) in EXITS {
        let uses: Vec<(&str, String, Option<&str>)> = vec![
            ("value bound", format!("c := std.len([0]) == 1; r := loop {{ {exit} }}; r"), Some("()")),
            ("value of a while true", format!("c := std.len([0]) == 1; r := while true {{ {exit} }}; r"), Some("()")),
            ("value returned by a () function", format!("f := (c: bool) -> () {{ return loop {{ {exit} }} }}; f(true)"), Some("()")),
            ("last statement of an int function", format!("f := (c: bool) -> int {{ loop {{ {exit} }} }}; f(true)"), None),
            ("scrutinee of a match without a () arm", format!("c := std.len([0]) == 1; x := loop {{ {exit} }}; m := match x {{ i: int => 1, }}; m"), None),
            ("operand of +", format!("c := std.len([0]) == 1; x := loop {{ {exit} }}; x + 1"), None),
            ("argument for an int parameter", format!("c := std.len([0]) == 1; g := (v: int) -> int {{ return v }}; g(loop {{ {exit} }})"), None),
        ];
        for (uname, text, want) in uses {
            n += 1;
            let o = core::run_text(&text, true, core::QUICK_FUEL);
            let got = match &o {
                core::Outcome::Value(v) => canon(v),
                other => other.tag(),
            };
            let ok = match want {
                Some(w) => got == w,
                None => matches!(o, core::Outcome::Rejected(..)),
            };
            if !ok {
                out.push(Violation {
                    sig: format!("C12|loop-value|{uname}|break {ename}"),
                    detail: json!({"kind": "program", "stdlib": true, "text": text, "expected": want.unwrap_or("rejected by the checker"), "observed": got}),
                });
            }
        }
    }
    (n, out)
}

/// A binder binds what it is given, whatever else its name means around it: every binding form
/// (type arm, if-set, while-set, for, destructuring, declaration, parameter of an inner function,
/// of a callback, nested arms) whose body computes with the bound name and chooses an exit by it,
/// x what the same spelling means outside (nothing, a constant of the same / another type at top
/// level or earlier in the function, a parameter, a cell, a function) x the scrutinee (literal,
/// parameter, union-typed parameter, cell read) x the binder's type. Oracle: renaming the binder
/// to a fresh name changes nothing (acceptance, result, exits).
fn binder_names_grid() -> (u64, u64, Vec<Violation>) {
    const CONSTRUCTS: &[(&str, &str)] = &[
        ("match type arm", "return match S { B: T => B * 10 + 1, => -1, };"),
        ("match type arm choosing an exit", "loop { match S { B: T => { if B > 6 { return 100 }; break }, => { return -1 }, } }; return 50;"),
        ("if-set", "if B: T = S { return B * 10 + 1 }; return -1;"),
        ("if-set choosing an exit", "if B: T = S { if B > 6 { return 100 }; return 200 }; return -1;"),
        ("while-set", "while B: T = S { return B * 10 + 1 }; return -1;"),
        ("while-set choosing an exit", "k := mut 0; while B: T = S { k += 1; if B > 6 { break }; if *k > 3 { return 300 }; continue }; return *k;"),
        ("for", "for B in [S]~ { return B * 10 + 1 }; return -1;"),
        ("destructuring", "(B, zz) := (S, 0); return B * 10 + 1;"),
        ("declaration", "B := S; return B * 10 + 1;"),
        ("declaration in a block", "r := { B := S; B * 10 + 1 }; return r;"),
        ("inner function parameter", "g := (B: T) -> int { return B * 10 + 1 }; return g(S);"),
        ("map callback parameter", "return [S]~ @ (B: T) -> int { return B * 10 + 1 } $];"),
        ("filter callback parameter", "return [S, 3]~ ? (B: T) -> bool { return B > 6 } $];"),
        ("reduce callback parameter", "return [S]~ $ 0 (acc: int, B: T) -> int { return acc + B * 10 + 1 };"),
        ("nested type arms", "return match S { B: T => match B { B: T => B * 10 + 1, => -2, }, => -1, };"),
        ("type arm after a value arm", "return match S { 5 => -5, B: T => B * 10 + 1, => -1, };"),
        ("wide type arm narrowed by an if-set of the same name", "return match S { B: int | string => { if B: T = B { return B * 10 + 1 }; return -3 }, => -1, };"),
        ("wide if-set narrowed by a type arm of the same name", "if B: int | string = S { return match B { B: T => B * 10 + 1, => -3, } }; return -1;"),
        ("any-typed arm narrowed by an if-set of another name", "return match S { B: any => { if w: T = B { return w * 10 + 1 }; return -3 }, };"),
    ];
    // (what the spelling `n` means outside: at top level, as a parameter (text, argument), first in the body)
    const OUTERS: &[(&str, &str, &str, &str, &str)] = &[
        ("nothing", "", "", "", ""),
        ("top-level int constant", "n := 5;", "", "", ""),
        ("top-level string constant", "n := \"s\";", "", "", ""),
        ("top-level computed int", "n := std.len([0, 0, 0, 0, 0]);", "", "", ""),
        ("top-level cell", "n := mut 5;", "", "", ""),
        ("top-level function", "n := () -> int { return 5 };", "", "", ""),
        ("earlier int constant in the body", "", "", "", "n := 5;"),
        ("earlier string constant in the body", "", "", "", "n := \"s\";"),
        ("earlier computed int in the body", "", "", "", "n := std.len([0, 0, 0, 0, 0]);"),
        ("earlier cell in the body", "", "", "", "n := mut 5;"),
        ("int parameter", "", "n: int", "5", ""),
        ("string parameter", "", "n: string", "\"s\"", ""),
    ];
    const SCRUTINEES: &[(&str, &str, &str, &str, &str)] = &[
        ("literal", "7", "", "", ""),
        ("int parameter", "s", "s: int", "7", ""),
        ("union-typed parameter", "s", "s: int | string", "7", ""),
        ("cell read", "*c", "", "", "c := mut 7;"),
        ("bound constant", "k7", "", "", "k7 := 7;"),
    ];
    const TYPES: &[&str] = &["int"];
    let mut out = Vec::new();
    let (mut n, mut both_ran) = (0u64, 0u64);
    for (cname, ctext) in CONSTRUCTS {
        for (oname, otop, oparam, oarg, olocal) in OUTERS {
            for (sname, stext, sparam, sarg, slocal) in SCRUTINEES {
                for ty in TYPES {
                    if *ty != "int" && !ctext.contains(": T") {
                        continue;
                    }
                    let build = |binder: &str| {
                        let params: Vec<&str> = [*oparam, *sparam].into_iter().filter(|p| !p.is_empty()).collect();
                        let args: Vec<&str> = [*oarg, *sarg].into_iter().filter(|p| !p.is_empty()).collect();
                        let body = ctext.replace('B', binder).replace('S', stext).replace('T', ty);
                        format!("{otop} f := ({}) -> any {{ {olocal} {slocal} {body} }}; f({})", params.join(", "), args.join(", "))
                    };
                    let (same, fresh) = (build("n"), build("qq"));
                    n += 1;
                    let show = |o: &core::Outcome| match o {
                        core::Outcome::Value(v) => canon(v),
                        other => other.tag(),
                    };
                    let (a, b) = (core::run_text(&same, true, core::QUICK_FUEL), core::run_text(&fresh, true, core::QUICK_FUEL));
                    if matches!(a, core::Outcome::Value(_)) && matches!(b, core::Outcome::Value(_)) {
                        both_ran += 1;
                    }
                    let (ga, gb) = (show(&a), show(&b));
                    if ga != gb {
                        out.push(Violation {
                            sig: format!("C12|binder-name|{cname}|outside={oname}|scrutinee={sname}|T={}", ty.replace(" | ", "/")),
                            detail: json!({"kind": "program", "stdlib": true, "text": same, "the same program with the binder renamed to a fresh name": fresh, "expected": gb, "observed": ga}),
                        });
                    }
                }
            }
        }
    }
    (n, both_ran, out)
}

/// An accepted `match` without a catch-all arm always has an arm for what it meets: every set of
/// one to three type arms over an alphabet of 23 arm types x 11 static types of the scrutinee
/// (arrays, tuples and structs over unions, unions of arrays, any). When the checker accepts the
/// match, every value of the scrutinee type (uniform and mixed contents, empty arrays) runs the
/// first arm its run-time type matches - none falls through.
fn coverage_grid() -> (u64, u64, u64, Vec<Violation>) {
    use simplesl::variable::{Type, Typed, Variable};
    use simplesl::{Code, Interpreter};
    const SCRUTINEES: &[(&str, &[&str])] = &[
        ("[int|float]", &["[1]", "[2.5]", "[1, 2.5]", "[0; 0]", "[0.0; 0]", "[1, 2.5][0:1]"]),
        ("(int|float, int)", &["(1, 1)", "(2.5, 1)"]),
        ("struct{a: int|float}", &["struct{ a := 1 }", "struct{ a := 2.5 }"]),
        ("int|float", &["1", "2.5"]),
        ("[int]|[float]", &["[1]", "[2.5]", "[0; 0]"]),
        ("[[int]|[float]]", &["[[1]]", "[[2.5]]", "[[1], [2.5]]", "[[0; 0]]"]),
        ("int|string|()", &["1", "\"s\"", "()"]),
        ("any", &["1", "\"s\"", "[1]"]),
        ("[any]", &["[1]", "[\"s\"]", "[1, \"s\"]"]),
        ("(int|string, int|string)", &["(1, 1)", "(1, \"s\")", "(\"s\", 1)", "(\"s\", \"s\")"]),
        ("[int|string]|string", &["[1]", "[\"s\"]", "[1, \"s\"]", "\"s\""]),
    ];
    const ARMS: &[&str] = &[
        "int", "float", "string", "()", "[int]", "[float]", "[int|float]", "[any]", "[string]", "(int, int)", "(float, int)", "(int|float, int)",
        "struct{a: int}", "struct{a: float}", "struct{a: int|float}", "[[int]]", "[[float]]", "[[int]|[float]]", "(int, int|string)",
        "(string, int|string)", "(int|string, int)", "(int|string, string)", "[int|string]",
    ];
    let mut sets: Vec<Vec<usize>> = Vec::new();
    for a in 0..ARMS.len() {
        sets.push(vec![a]);
        for b in a + 1..ARMS.len() {
            sets.push(vec![a, b]);
            for c in b + 1..ARMS.len() {
                sets.push(vec![a, b, c]);
            }
        }
    }
    let arm_types: Vec<Type> = ARMS.iter().map(|t| t.parse::<Type>().expect("arm type parses")).collect();
    let jobs: Vec<(usize, usize)> = (0..SCRUTINEES.len()).flat_map(|s| (0..sets.len()).map(move |k| (s, k))).collect();
    let accs = par_fold(
        jobs.len(),
        || (Vec::<Violation>::new(), 0u64, 0u64, Interpreter::with_stdlib()),
        |(out, accepted, runs, interp), j| {
            let (si, ki) = jobs[j];
            let (sty, values) = SCRUTINEES[si];
            let set = &sets[ki];
            let arms: String = set.iter().enumerate().map(|(i, a)| format!("x{i}: {} => {i}, ", ARMS[*a])).collect();
            let def = format!("f := (v: {sty}) -> int {{ return match v {{ {arms}}} }}");
            let f = match guard(|| Code::parse(interp, &def).map(|c| c.exec())) {
                Ok(Ok(Ok(Variable::Function(f)))) => f,
                Ok(_) => return, // rejected: the checker may ask for more arms than needed
                Err(_) => {
                    out.push(Violation { sig: format!("C12|match-coverage|checker-panics|scrutinee={}", sty.replace('|', "/")), detail: json!({"kind": "program", "stdlib": true, "text": def}) });
                    return;
                }
            };
            *accepted += 1;
            for lit in values {
                let Ok(Ok(Ok(v))) = guard(|| Code::parse(interp, lit).map(|c| c.exec())) else { continue };
                let tag = v.as_type();
                let want = set.iter().position(|a| tag.matches(&arm_types[*a]));
                *runs += 1;
                let got = match guard(|| f.clone().create_call(vec![v]).map(|c| c.exec())) {
                    Ok(Ok(Ok(r))) => canon(&r),
                    Ok(Ok(Err(e))) => format!("error:{}", core::exec_error_kind(&e)),
                    Ok(Err(e)) => format!("host-rejects:{}", core::error_kind(&e)),
                    Err(Stop::Panic(p)) => format!("PANIC {} @{}", p.short_msg(), p.file()),
                    Err(Stop::Exhausted) => continue,
                };
                let want_s = want.map(|i| i.to_string()).unwrap_or_else(|| "an arm (the match was accepted without a catch-all)".into());
                if got != want_s {
                    out.push(Violation {
                        sig: format!("C12|match-coverage|{}|scrutinee={}|arms={}", if want.is_none() { "accepted-match-has-no-arm-for-a-value" } else { "wrong-arm" }, sty.replace('|', "/"), set.iter().map(|a| ARMS[*a].replace('|', "/")).collect::<Vec<_>>().join(" ; ")),
                        detail: json!({"kind": "host_call", "program": def, "args": [lit], "run_time_type_of_the_value": tag.to_string(), "expected": want_s, "observed": got}),
                    });
                }
            }
        },
    );
    let mut out = Vec::new();
    let (mut accepted, mut runs) = (0, 0);
    for (v, a, r, _) in accs {
        out.extend(v);
        accepted += a;
        runs += r;
    }
    out.truncate(400);
    (jobs.len() as u64, accepted, runs, out)
}

/// A construct that is the *only* statement of a branch: nested control flow with nothing else
/// around it (conditions carry the effects), every pairing of an outer `if` / `if-else` with an
/// inner construct as the sole content of its then- or else-branch, every kind of else branch
/// (valued, a `()` procedure call, a block, a loop), every truth assignment. Oracle: a neutral
/// statement (a call of an empty procedure) put in front of the inner construct changes nothing - and the log is the one
/// the conditions prescribe (outer first; inner only on the branch taken).
fn sole_statement_grid() -> (u64, Vec<Violation>) {
    const INNERS: &[(&str, &str)] = &[
        ("if", "if t(2, b) { X }"),
        ("if-else", "if t(2, b) { X } else { Z }"),
        ("if-set", "if q: bool = t(2, b) { if q { X } }"),
        ("match", "match t(2, b) { true => { X }, => { }, }"),
        ("while", "while t(2, b) { X; break }"),
        ("for", "for e in [t(2, b)]~ { if e { X } }"),
        ("block", "{ if t(2, b) { X } }"),
        ("value if", "r := if t(2, b) { 1 } else { 2 }; w(40 + r)"),
    ];
    const OUTERS: &[(&str, &str)] = &[
        ("then of if-else", "if t(1, a) { NOP INNER } else { Y }"),
        ("then of if", "if t(1, a) { NOP INNER }"),
        ("else of if-else", "if t(1, a) { Y } else { NOP INNER }"),
        ("else-if", "if t(1, a) { Y } else INNER_AS_ELSE_IF"),
        ("then of if-else in a loop", "for round in [0, 0]~ { if t(1, a) { NOP INNER } else { Y } }"),
        ("arm of a match", "match t(1, a) { true => { NOP INNER }, => { Y }, }"),
        ("then of if-set-else", "if q1: bool = t(1, a) { NOP INNER } else { Y }"),
        ("both branches", "if t(1, a) { NOP INNER } else { NOP INNER }"),
    ];
    const YS: &[(&str, &str)] = &[("valued statement", "log += [30]"), ("procedure call", "w(30)"), ("block", "{ w(30) }"), ("loop", "loop { w(30); break }"), ("empty", "")];
    const PRELUDE: &str = "t := (i: int, v: bool) -> bool { log += [i]; return v }; w := (i: int) -> () { log += [i] }; nothing := () -> () { };";
    let mut out = Vec::new();
    let mut n = 0u64;
    for (oname, otext) in OUTERS {
        for (iname, itext) in INNERS {
            for (yname, ytext) in YS {
                if *oname == "else-if" && !itext.starts_with("if ") {
                    continue;
                }
                let build = |nop: &str| {
                    let body = otext.replace("INNER_AS_ELSE_IF", itext).replace("INNER", itext).replace("NOP", nop).replace('X', "w(10)").replace('Z', "w(20)").replace('Y', ytext);
                    format!("f := (a: bool, b: bool) -> any {{ log := mut [int] []; {PRELUDE} {body}; return *log }}")
                };
                // (a constant statement would be dropped by the folder: the padding is a call)
                let (plain, padded) = (build(""), build("nothing();"));
                for (a, b) in [(true, true), (true, false), (false, true), (false, false)] {
                    n += 1;
                    let run = |text: &str| match core::run_text(&format!("{text}; f({a}, {b})"), true, core::QUICK_FUEL) {
                        core::Outcome::Value(v) => canon(&v),
                        other => other.tag(),
                    };
                    let (gp, gq) = (run(&plain), run(&padded));
                    // the outer condition is evaluated first, exactly once per round
                    let starts_right = gq.starts_with("[1") || gq.starts_with("rejected");
                    if gp != gq || !starts_right {
                        out.push(Violation {
                            sig: format!("C12|sole-statement|outer={oname}|inner={iname}|other-branch={yname}|a={a}|b={b}"),
                            detail: json!({"kind": "program", "stdlib": true, "text": format!("{plain}; f({a}, {b})"), "the same with a neutral statement in front of the inner construct": format!("{padded}; f({a}, {b})"), "expected": gq, "observed": gp}),
                        });
                    }
                }
            }
        }
    }
    (n, out)
}

/// A failing operation on values captured by a function value fails when it is reached and
/// only then: creating the function value evaluates nothing of its body (so a branch that is not
/// chosen, or a function that is never called, cannot make the program fail), and reaching the
/// operation gives the documented error. Shared by C07 ("only the chosen branch is evaluated").
pub fn unreached_failures(prop: &str) -> (u64, Vec<Violation>) {
    const OPS: &[(&str, &str, &str)] = &[
        ("10 / d", "0", "ZeroDivision"),
        ("10 % d", "0", "ZeroModulo"),
        ("1 << d", "64", "OverflowShift"),
        ("1 >> d", "-1", "OverflowShift"),
        ("2 ** d", "-1", "NegativeExponent"),
        ("[1, 2][d]", "5", "IndexOutOfBounds"),
        ("[0; d]", "-1", "NegativeLength"),
        ("\"ab\"[d]", "7", "IndexOutOfBounds"),
    ];
    // (name, body of (c2: bool, c3: any) -> any with OP, can be reached)
    const GUARDS: &[(&str, &str, bool)] = &[
        ("if", "if c2 { return OP }; return -1", true),
        ("if-else value", "r := if c2 { OP } else { -1 }; return r", true),
        ("match value arm", "r := match c2 { true => OP, => -1, }; return r", true),
        ("match type arm", "r := match c3 { q: int => OP, => -1, }; return r", true),
        ("if-set", "if q: int = c3 { return OP }; return -1", true),
        ("&& rhs", "if c2 && (OP) == (OP) { return 0 }; return -1", true),
        ("|| rhs", "if !c2 || (OP) == (OP) { return -1 }; return 0", true),
        ("while", "while c2 { return OP }; return -1", true),
        ("for over nothing", "for e in [0; 0]~ { return OP }; return -1", false),
        ("uncalled function", "h := () -> any { return OP }; return -1", false),
        ("after return", "if !c2 { return -1 }; return OP", true),
        // positions evaluated on the way to a decision: reaching them fails the whole construct
        ("match value-arm candidate", "if !c2 { return -1 }; r := match 5 { (OP) => 1, => 2, }; return r", true),
        ("second value-arm candidate", "if !c2 { return -1 }; r := match 5 { 4 => 0, (OP) => 1, => 2, }; return r", true),
        ("value-arm candidate inside a tuple", "if !c2 { return -1 }; r := match (5, 6) { (5, OP) => 1, => 2, }; return r", true),
        ("match scrutinee", "if !c2 { return -1 }; r := match OP { 1 => 1, => 2, }; return r", true),
        ("if-set subject", "if !c2 { return -1 }; if q: int = OP { return 1 }; return 2", true),
        ("while-set subject", "if !c2 { return -1 }; while q: int = OP { return 1 }; return 2", true),
        ("if condition operand", "if !c2 { return -1 }; if (OP) == (OP) { return 1 }; return 2", true),
        ("for source element", "if !c2 { return -1 }; for e in [OP]~ { return 1 }; return 2", true),
        ("argument of a constant function", "if !c2 { return -1 }; k := (x: any) -> int { return 7 }; return k(OP)", true),
        ("tuple / array / struct component", "if !c2 { return -1 }; r := ((OP, 1), [OP], struct{ a := OP }); return 2", true),
    ];
    let interp = Interpreter::with_stdlib();
    let mut out = Vec::new();
    let mut n = 0u64;
    for (op, bad, kind) in OPS {
        for (gname, gbody, reachable) in GUARDS {
            let body = gbody.replace("OP", op);
            // (a) created and called inside one function; (b) returned to the host and called there
            let inner = format!("f := (d: int) -> any {{ g := (c2: bool, c3: any) -> any {{ {body} }}; return (g(false, \"s\"), 1) }}");
            let outer = format!("f := (d: int) -> (bool, any) -> any {{ return (c2: bool, c3: any) -> any {{ {body} }} }}");
            let bad_v = Code::parse(&interp, bad).unwrap().exec().unwrap();
            let define = |text: &str| match guard(|| Code::parse(&interp, text).map(|c| c.exec())) {
                Ok(Ok(Ok(Variable::Function(f)))) => Ok(f),
                other => Err(format!("{:?}", other.map(|r| r.map(|x| x.map(|v| canon(&v)))))),
            };
            let call = |f: &std::sync::Arc<simplesl::function::Function>, args: Vec<Variable>| match guard(|| f.clone().create_call(args).map(|c| c.exec())) {
                Ok(Ok(Ok(r))) => Ok(r),
                Ok(Ok(Err(e))) => Err(format!("error:{}", core::exec_error_kind(&e))),
                Ok(Err(e)) => Err(format!("host-rejected:{}", core::error_kind(&e))),
                Err(Stop::Panic(p)) => Err(format!("PANIC {} @{}", p.short_msg(), p.file())),
                Err(Stop::Exhausted) => Err("exhausted".into()),
            };
            let mut push = |what: &str, text: &str, args: &str, want: &str, got: String| {
                out.push(Violation {
                    sig: format!("{prop}|unreached-failure|{what}|guard={gname}|op={op}"),
                    detail: json!({"kind": "host_call", "program": text, "args": args, "expected": want, "observed": got}),
                });
            };
            n += 1;
            match define(&inner) {
                Err(e) => push("program-fails", &inner, "", "accepted", e),
                Ok(f) => {
                    let got = call(&f, vec![bad_v.clone()]).map(|v| canon(&v)).unwrap_or_else(|e| e);
                    if got != "(-1, 1)" {
                        push("not-reached-but-fails", &inner, bad, "(-1, 1)", got);
                    }
                }
            }
            n += 1;
            match define(&outer) {
                Err(e) => push("program-fails", &outer, "", "accepted", e),
                Ok(f) => match call(&f, vec![bad_v.clone()]) {
                    Ok(Variable::Function(g)) => {
                        let got = call(&g, vec![Variable::Bool(false), Variable::String("s".into())]).map(|v| canon(&v)).unwrap_or_else(|e| e);
                        if got != "-1" {
                            push("not-reached-but-fails", &outer, &format!("f({bad})(false, \"s\")"), "-1", got);
                        }
                        if *reachable {
                            n += 1;
                            let got = call(&g, vec![Variable::Bool(true), Variable::Int(1)]).map(|v| canon(&v)).unwrap_or_else(|e| e);
                            let want = format!("error:{kind}");
                            if got != want {
                                push("reached-but-does-not-fail-as-documented", &outer, &format!("f({bad})(true, 1)"), &want, got);
                            }
                        }
                    }
                    Ok(other) => push("not-reached-but-fails", &outer, &format!("f({bad})"), "a function value", canon(&other)),
                    Err(e) => push("creating-the-function-value-fails", &outer, &format!("f({bad})"), "a function value", e),
                },
            }
        }
    }
    // the failing operation as the operand of every other construct, the result bound to a name
    // (the checker's and the folder's type queries then go through the failed operand)
    const FAILING: &[(&str, &str)] = &[
        ("I", "[1, 2][d]"),
        ("B", "[true][d]"),
        ("T", "[(1, 2)][d]"),
        ("S", "[struct{ a := 1 }][d]"),
        ("C", "[mut 1][d]"),
        ("F", "[(v: int) -> int { return v }][d]"),
        ("A", "[[1]][d]"),
        ("IT", "[[1]~][d]"),
        ("STR", "[\"ab\"][d]"),
    ];
    const CONSUMERS: &[&str] = &[
        "x := I; return x", "x := I + 1; return x", "x := 1 - I; return x", "x := -I; return x", "x := !B; return x", "x := I == 1; return x", "x := I < 2; return x",
        "x := B && true; return x", "x := true && B; return x", "x := B | false; return x", "x := if B { 1 } else { 2 }; return x", "x := mut 0; while B { x += 1; break }; return *x",
        "x := T.0; return x", "(p, q) := T; return p", "x := S.a; return x", "x := *C; return x", "x := C += 1; return x", "x := C = 2; return x", "x := F(1); return x",
        "x := A[0]; return x", "x := A[0:]; return x", "x := A + [2]; return x", "x := A~; return x", "x := A~ $]; return x", "x := IT $+; return x", "x := IT $]; return x",
        "x := IT @ (v: int) -> int { return v }; return x", "x := IT ? (v: int) -> bool { return true }; return x", "x := IT ? int; return x", "x := IT $ 0 (a: int, v: int) -> int { return a + v }; return x",
        "x := mut 0; for e in IT { x += e }; return *x", "x := match I { 1 => 10, => 20, }; return x", "x := match I { v: int => v, }; return x", "x := if v: int = I { v } else { 0 }; return x",
        "x := [I; 2]; return x", "x := [1; I]; return x", "x := [I, 2]; return x", "x := (I, 2); return x", "x := struct{ f := I }; return x", "x := mut I; return x", "x := STR + \"c\"; return x",
        "x := STR[0]; return x", "x := std.len(A); return x", "x := { I }; return x", "x := () -> int { return I }; return x()", "x := [1, 2][I]; return x", "x := [1, 2][I:]; return x",
    ];
    for consumer in CONSUMERS {
        let mut body = consumer.to_string();
        // longest placeholders first
        for (ph, expr) in [FAILING[8], FAILING[7], FAILING[0], FAILING[1], FAILING[2], FAILING[3], FAILING[4], FAILING[5], FAILING[6]] {
            let mut outp = String::new();
            let mut rest = body.as_str();
            // replace the placeholder only where it stands alone as a token
            while let Some(pos) = rest.find(ph) {
                let before = rest[..pos].chars().last();
                let after = rest[pos + ph.len()..].chars().next();
                let alone = !before.is_some_and(|c| c.is_alphanumeric() || c == '_' || c == '"') && !after.is_some_and(|c| c.is_alphanumeric() || c == '_' || c == '"');
                outp.push_str(&rest[..pos]);
                outp.push_str(if alone { expr } else { ph });
                rest = &rest[pos + ph.len()..];
            }
            outp.push_str(rest);
            body = outp;
        }
        let text = format!("f := (d: int) -> (bool) -> any {{ return (c2: bool) -> any {{ if c2 {{ {body} }}; return -1 }} }}");
        n += 1;
        let define = |text: &str| match guard(|| Code::parse(&interp, text).map(|c| c.exec())) {
            Ok(Ok(Ok(Variable::Function(f)))) => Ok(f),
            other => Err(format!("{:?}", other.map(|r| r.map(|x| x.map(|v| canon(&v)))))),
        };
        let call = |f: &std::sync::Arc<simplesl::function::Function>, args: Vec<Variable>| match guard(|| f.clone().create_call(args).map(|c| c.exec())) {
            Ok(Ok(Ok(r))) => Ok(r),
            Ok(Ok(Err(e))) => Err(format!("error:{}", core::exec_error_kind(&e))),
            Ok(Err(e)) => Err(format!("host-rejected:{}", core::error_kind(&e))),
            Err(Stop::Panic(p)) => Err(format!("PANIC {} @{}", p.short_msg(), p.file())),
            Err(Stop::Exhausted) => Err("exhausted".into()),
        };
        let mut push = |what: &str, args: &str, want: &str, got: String| {
            out.push(Violation {
                sig: format!("{prop}|unreached-failure|{what}|operand-of={consumer}"),
                detail: json!({"kind": "host_call", "program": text, "args": args, "expected": want, "observed": got}),
            });
        };
        match define(&text) {
            Err(e) => push("program-fails", "", "accepted", e),
            Ok(f) => match call(&f, vec![Variable::Int(5)]) {
                Ok(Variable::Function(g)) => {
                    let got = call(&g, vec![Variable::Bool(false)]).map(|v| canon(&v)).unwrap_or_else(|e| e);
                    if got != "-1" {
                        push("not-reached-but-fails", "f(5)(false)", "-1", got);
                    }
                    n += 1;
                    let got = call(&g, vec![Variable::Bool(true)]).map(|v| canon(&v)).unwrap_or_else(|e| e);
                    if got != "error:IndexOutOfBounds" {
                        push("reached-but-does-not-fail-as-documented", "f(5)(true)", "error:IndexOutOfBounds", got);
                    }
                }
                Ok(other) => push("not-reached-but-fails", "f(5)", "a function value", canon(&other)),
                Err(e) => push("creating-the-function-value-fails", "f(5)", "a function value", e),
            },
        }
    }
    (n, out)
}

#[derive(Default)]
struct Acc {
    programs: u64,
    runs: u64,
    rejected: u64,
    rejected_constant_twins: u64,
    logs: BTreeSet<String>,
    violations: Vec<Violation>,
}

fn kind_name(n: &Node) -> &'static str {
    match n {
        Node::Fall => "fall",
        Node::Return(_) => "return",
        Node::Break => "break",
        Node::Continue => "continue",
        Node::If(_) | Node::IfNot(_) => "if",
        Node::IfElse(..) => "if-else",
        Node::MatchType(..) => "match-type",
        Node::MatchValue(..) => "match-value",
        Node::IfSetInt(..) | Node::IfSetArr(_) => "if-set",
        Node::WhileSet(_) => "while-set",
        Node::Loop(_) => "loop",
        Node::While(_) => "while",
        Node::For(_) => "for",
        Node::Block(..) => "block",
        Node::Module(_) => "module",
    }
}

fn shape(n: &Node) -> String {
    let k = kind_name(n);
    match n {
        Node::Fall | Node::Return(_) | Node::Break | Node::Continue => k.to_string(),
        Node::If(a) | Node::IfNot(a) | Node::IfSetArr(a) | Node::WhileSet(a) | Node::Loop(a) | Node::While(a) | Node::For(a) | Node::Module(a) => format!("{k}({})", shape(a)),
        Node::IfElse(a, b) | Node::IfSetInt(a, b) | Node::Block(a, b) => format!("{k}({},{})", shape(a), shape(b)),
        Node::MatchType(a, b, c) | Node::MatchValue(a, b, c) => format!("{k}({},{},{})", shape(a), shape(b), shape(c)),
    }
}

pub fn run(tier: &str) -> i32 {
    let thorough = tier == "thorough";
    let mut report = Report::new("C12", tier);
    let mut samples = Samples::new(8);
    let max_depth = if thorough { 3 } else { 2 };
    let mut all: Vec<Node> = Vec::new();
    for d in 1..=max_depth {
        all.extend(trees(d, false));
    }
    let scr = scrutinees();
    let accs = par_fold(
        all.len(),
        || (Acc::default(), Interpreter::with_stdlib()),
        |(acc, interp), i| {
            let n = &all[i];
            let text = program(n);
            acc.programs += 1;
            verif::set_fuel(Some(core::QUICK_FUEL), Some(core::DEPTH));
            let f = match guard(|| Code::parse(interp, &text).map(|c| c.exec())) {
                Ok(Ok(Ok(Variable::Function(f)))) => f,
                other => {
                    acc.rejected += 1;
                    let o = match other {
                        Ok(Ok(Ok(_))) => "not a function".to_string(),
                        Ok(Ok(Err(e))) => format!("error:{}", core::exec_error_kind(&e)),
                        Ok(Err(e)) => format!("rejected:{}", core::error_kind(&e)),
                        Err(Stop::Panic(p)) => format!("PANIC {} @{}", p.short_msg(), p.file()),
                        Err(Stop::Exhausted) => "exhausted".into(),
                    };
                    acc.violations.push(Violation {
                        sig: format!("C12|legal-program-not-accepted|{}|{}", o.chars().take(40).collect::<String>(), shape(n)),
                        detail: json!({"kind": "program", "stdlib": true, "text": text, "observed": o}),
                    });
                    return;
                }
            };
            for v in &scr {
                for p in [true, false] {
                    acc.runs += 1;
                    let mut cx = Ctx { v, p, log: Vec::new() };
                    let mut id = 0;
                    let flow = exec(n, &mut id, &mut cx);
                    let want_r = match flow {
                        Flow::Return(k) => k,
                        _ => -1,
                    };
                    let want = format!("({want_r}, [{}])", cx.log.iter().map(|x| x.to_string()).collect::<Vec<_>>().join(", "));
                    let arg = match guard(|| Code::parse(interp, &v.lit()).unwrap().exec().unwrap()) {
                        Ok(a) => a,
                        Err(_) => continue,
                    };
                    let got = match guard(|| f.clone().create_call(vec![arg, p.into()]).map(|c| c.exec())) {
                        Ok(Ok(Ok(r))) => canon(&r),
                        Ok(Ok(Err(e))) => format!("error:{}", core::exec_error_kind(&e)),
                        Ok(Err(e)) => format!("host-rejected:{}", core::error_kind(&e)),
                        Err(Stop::Panic(pn)) => format!("PANIC {} @{}", pn.short_msg(), pn.file()),
                        Err(Stop::Exhausted) => "exhausted".into(),
                    };
                    if acc.logs.len() < 2000 {
                        acc.logs.insert(got.clone());
                    }
                    // constant twin: a program of its own (the constants may make the checker reject it,
                    // e.g. a match it can now see through; then there is nothing to compare)
                    let ctext = program_constant(n, &v.lit(), p);
                    acc.runs += 1;
                    let cgot = match guard(|| Code::parse(interp, &ctext).map(|c| c.exec())) {
                        Ok(Ok(Ok(r))) => Some(canon(&r)),
                        Ok(Ok(Err(e))) => Some(format!("error:{}", core::exec_error_kind(&e))),
                        Ok(Err(_)) => None,
                        Err(Stop::Panic(pn)) => Some(format!("PANIC {} @{}", pn.short_msg(), pn.file())),
                        Err(Stop::Exhausted) => None,
                    };
                    if let Some(cgot) = cgot {
                        if cgot != want {
                            acc.violations.push(Violation {
                                sig: format!("C12|wrong-branch-or-exit-with-constant-scrutinee|{}|v={}", shape(n), v.lit().replace('|', "/")),
                                detail: json!({"kind": "program", "stdlib": true, "text": ctext, "expected": want, "observed": cgot}),
                            });
                        }
                    } else {
                        acc.rejected_constant_twins += 1;
                    }
                    if got != want {
                        acc.violations.push(Violation {
                            sig: format!("C12|wrong-branch-or-exit|{}|v={}", shape(n), v.lit().replace('|', "/")),
                            detail: json!({"kind": "host_call", "program": text, "args": [v.lit(), p.to_string()], "expected": want, "observed": got}),
                        });
                    }
                }
            }
            verif::set_fuel(None, None);
        },
    );
    let mut acc = Acc::default();
    for (a, _) in accs {
        acc.programs += a.programs;
        acc.runs += a.runs;
        acc.rejected += a.rejected;
        acc.rejected_constant_twins += a.rejected_constant_twins;
        acc.logs.extend(a.logs);
        acc.violations.extend(a.violations);
    }
    // placement rules
    let place = core::on_big_stack(|| {
        let mut out = Vec::new();
        for text in ILLEGAL {
            let o = core::run_text(text, true, core::QUICK_FUEL);
            if !matches!(o, core::Outcome::Rejected(..)) {
                out.push(Violation {
                    sig: format!("C12|illegal-placement-accepted|{text}"),
                    detail: json!({"kind": "program", "stdlib": true, "text": text, "expected": "rejected", "observed": o.tag()}),
                });
            }
        }
        for (text, want) in LEGAL {
            let o = core::run_text(text, true, core::QUICK_FUEL);
            let got = match &o {
                core::Outcome::Value(v) => canon(v),
                other => other.tag(),
            };
            if got != *want {
                out.push(Violation {
                    sig: format!("C12|placement|{text}"),
                    detail: json!({"kind": "program", "stdlib": true, "text": text, "expected": want, "observed": got}),
                });
            }
        }
        out
    });
    report.violations(place);
    // run-time type dispatch: if-set / match type arm / while-set select their body exactly when the
    // run-time type of the value matches T, for every (static type, value, T)
    let dispatch = core::on_big_stack(|| dispatch_grid(thorough));
    report.violations(dispatch.1);
    let value_arms = core::on_big_stack(value_arm_grid);
    report.violations(value_arms.1);
    let loop_values = core::on_big_stack(loop_value_grid);
    report.violations(loop_values.1);
    let boundaries = core::on_big_stack(function_boundaries);
    report.violations(boundaries.1);
    let arm_order = core::on_big_stack(arm_order_grid);
    report.violations(arm_order.2);
    let coverage_matches = core::on_big_stack(coverage_grid);
    report.violations(coverage_matches.3);
    let sole = core::on_big_stack(sole_statement_grid);
    report.violations(sole.1);
    let binder_names = core::on_big_stack(binder_names_grid);
    assert!(binder_names.1 * 2 > binder_names.0, "binder-name grid: most pairs must run ({} of {})", binder_names.1, binder_names.0);
    report.violations(binder_names.2);
    let unreached = core::on_big_stack(|| unreached_failures("C12"));
    report.violations(unreached.1);
    samples.push(|| json!({"program": program(&all[all.len() / 2]), "shape": shape(&all[all.len() / 2])}));
    samples.push(|| json!({"shape": shape(&all[all.len() - 1])}));
    let Acc { programs, runs, rejected, rejected_constant_twins, logs, violations } = acc;
    report.violations(violations);
    let coverage = json!({
        "states": programs,
        "transitions": runs,
        "traces_validated_against_impl": runs,
        "programs": programs,
        "runs": runs,
        "constant_twins_the_checker_rejected": rejected_constant_twins,
        "sole_statement_cases (8 outer positions x 8 inner constructs x 5 other branches x 4 truth assignments; bare vs padded with a neutral statement)": sole.0,
        "match_coverage (sets of 1..3 type arms over 23 arm types x 11 scrutinee types, no catch-all)": {"matches": coverage_matches.0, "accepted_by_the_checker": coverage_matches.1, "runs_on_values_of_the_scrutinee_type": coverage_matches.2},
        "binder_name_pairs (19 binding forms x 12 outside meanings x 5 scrutinees; binder named like the outside name vs fresh)": binder_names.0,
        "binder_name_pairs_in_which_both_programs_ran": binder_names.1,
        "scrutinee_values": scr.len() * 2,
        "max_nesting_depth": max_depth,
        "generated_programs_not_accepted": rejected,
        "type_dispatch_cases": dispatch.0,
        "value_arm_cases": value_arms.0,
        "loop_value_cases (13 positions of the ending break x 7 uses of the loop's value)": loop_values.0,
        "function_boundary_cases (10 ways of making and calling an inner function x 9 bodies with nested exits x both paths)": boundaries.0,
        "arm_order_cases (every sequence of 1..3 arms over value / type / catch-all arms, 6 scrutinees, run-time and constant scrutinee)": arm_order.0,
        "arm_order_programs_not_accepted (no arm covers)": arm_order.1,
        "unreached_failure_cases": unreached.0,
        "illegal_placements": ILLEGAL.len(),
        "legal_placements": LEGAL.len(),
        "distinct_outcomes": logs.len(),
        "samples": samples.items,
        "exhaustive": true,
        "rule": "every nesting of {if, if-else, match with type arms, match with value arms (single and multiple candidates), if-set with and without else, while-set, loop, while, for, block, module} to the depth bound, with {fall through, return, break, continue} at the leaves and a marker at the start of every body, is run for every scrutinee value and both truth values of the condition; result and marker log must equal the reference evaluator's",
        "bounds": "depth 1: every leaf in every slot; deeper: one slot carries the deeper subtree, the others fall through or return",
    });
    report.finish("model_checking", coverage, &["scrutinee values have unambiguous run-time tags (no widened stored element types)"])
}
