//! C19 — equality is by content, independent of static or stored types: all
//! pairs of producer expressions x {==, !=, match value arm} x {literal, run time}.
use crate::core::{self, guard, par_fold, Stop};
use crate::report::{Report, Samples, Violation};
use crate::ty::Ty;
use crate::val::canon;
use serde_json::json;
use simplesl::function::Function;
use simplesl::variable::{Typed, Variable};
use simplesl::{Code, Interpreter};
use std::collections::BTreeSet;
use std::sync::Arc;

const ISINT: &str = "(v: int | float | string) -> bool { if x: int = v { return true }; return false }";

fn producers(thorough: bool) -> Vec<String> {
    let mut v: Vec<String> = [
        // scalars
        "1", "2", "0", "1.0", "2.5", "0.0", "(-0.0)", "(0.0 / 0.0)", "\"a\"", "\"1\"", "\"\"", "true", "false", "()",
        // empty arrays by every producer
        "[]", "[1][1:]", "[1; 0]", "([]~ $])", "([1]~ ? string $])", "[1, 2][2:]", "[] + []", "*(mut [int] [])",
        "(() -> [any] { return [] })()", "[\"a\"][1:]",
        // [1]
        "[1]", "[] + [1]", "[1] + []", "[0, 1][1:]", "[1, 2.5][0:1]", "([1]~ $])", "([1, \"a\"]~ ? int $])", "[1; 1]",
        "(() -> [any] { return [1] })()", "([0]~ @ (v: int) -> int { return v + 1 } $])", "[1, \"a\"][:-1]",
        "(() -> [int | string] { return [1] })()",
        // [2.5], [1, 2.5], ["a"], [1, "a"], ["a", 1]
        "[2.5]", "[1, 2.5][1:]", "[2.5; 1]", "[1, 2.5]", "[1] + [2.5]", "([1, 2.5]~ $])", "[1, 2.5, \"a\"][0:2]", "[\"a\"]",
        "[1, \"a\"][1:]", "[1, \"a\"]", "[\"a\", 1]", "[1] + [\"a\"]", "[1, 1]", "[1; 2]", "[(0.0 / 0.0)]",
        // nested
        "[[1]]", "[[0, 1][1:]]", "[[] + [1]]", "[[]]", "[[1; 0]]", "[[1][1:]]", "[[1], []]", "[[1]] + [[]]",
        // tuples and structs
        "(1, 2)", "(1, 2.5)", "([1], 2)", "([0, 1][1:], 2)", "([], [])", "([1][1:], [1; 0])", "(1, 2, 3)",
        "struct{ a := [1] }", "struct{ a := [0, 1][1:] }", "struct{ a := [1], b := 2 }", "struct{ a := [] }",
        "struct{ a := [1; 0] }", "struct{ b := 2, a := [1] + [] }", "struct{}",
        // a NaN inside every kind of container, one and two levels deep (such a value differs
        // from every value, itself included, however the two operands come to be the same value)
        "((0.0 / 0.0), 1)", "struct{ a := (0.0 / 0.0) }", "[[(0.0 / 0.0)]]", "struct{ a := [(0.0 / 0.0)] }", "[struct{ a := (0.0 / 0.0) }]",
        "(struct{ a := (0.0 / 0.0) }, 1)", "[((0.0 / 0.0), 1)]", "struct{ a := struct{ b := (0.0 / 0.0) } }",
    ]
    .iter()
    .map(|s| s.to_string())
    .collect();
    v.push(format!("([1, 2.5]~ \\ {ISINT}).0"));
    v.push(format!("([1, 2.5]~ \\ {ISINT}).1"));
    v.push(format!("([1, \"a\"]~ \\ {ISINT}).1"));
    v.push(format!("([2.5, \"a\"]~ \\ {ISINT}).0"));
    v.push(format!("([1]~ ? {ISINT} $])"));
    if thorough {
        for extra in [
            "[1, 2.5, \"a\"]", "[1, 2.5] + [\"a\"]", "[1] + [2.5, \"a\"]", "([1, 2.5, \"a\"]~ $])", "[0, 1, 2.5, \"a\"][1:]",
            "[[1, 2.5]]", "[[1] + [2.5]]", "[[1, 2.5, 3][0:2]]", "([[1]], 1)", "([[0, 1][1:]], 1)", "[(1, [1])]",
            "[(1, [0, 1][1:])]", "struct{ a := ([1], 2) }", "struct{ a := ([] + [1], 2) }", "[struct{ a := 1 }]",
            "[struct{ a := 1 }, struct{ a := 1 }][1:]", "[\"a\", \"a\"]", "[\"a\"; 2]", "[(); 1]", "[()]", "[true]", "[false]",
        ] {
            v.push(extra.to_string());
        }
    }
    v
}

/// reference: content equality (IEEE for floats, element-wise for containers)
pub(crate) fn content_eq(a: &Variable, b: &Variable) -> bool {
    match (a, b) {
        (Variable::Bool(x), Variable::Bool(y)) => x == y,
        (Variable::Int(x), Variable::Int(y)) => x == y,
        (Variable::Float(x), Variable::Float(y)) => x == y,
        (Variable::String(x), Variable::String(y)) => x == y,
        (Variable::Void, Variable::Void) => true,
        (Variable::Array(x), Variable::Array(y)) => x.len() == y.len() && x.iter().zip(y.iter()).all(|(p, q)| content_eq(p, q)),
        (Variable::Tuple(x), Variable::Tuple(y)) => x.len() == y.len() && x.iter().zip(y.iter()).all(|(p, q)| content_eq(p, q)),
        (Variable::Struct(x), Variable::Struct(y)) => {
            x.len() == y.len() && x.iter().all(|(k, p)| y.get(k).is_some_and(|q| content_eq(p, q)))
        }
        (Variable::Function(x), Variable::Function(y)) => Arc::ptr_eq(x, y),
        (Variable::Mut(x), Variable::Mut(y)) => Arc::ptr_eq(x, y),
        _ => false,
    }
}

fn has_nan(v: &Variable) -> bool {
    match v {
        Variable::Float(f) => f.is_nan(),
        Variable::Array(a) => a.iter().any(has_nan),
        Variable::Tuple(t) => t.iter().any(has_nan),
        Variable::Struct(s) => s.values().any(has_nan),
        _ => false,
    }
}

fn eval(interp: &Interpreter, src: &str) -> Result<Variable, String> {
    match guard(|| Code::parse(interp, src).map(|c| c.exec())) {
        Ok(Ok(Ok(v))) => Ok(v),
        Ok(Ok(Err(e))) => Err(format!("error:{}", core::exec_error_kind(&e))),
        Ok(Err(e)) => Err(format!("rejected:{}", core::error_kind(&e))),
        Err(Stop::Panic(p)) => Err(format!("PANIC {} @{}", p.short_msg(), p.file())),
        Err(Stop::Exhausted) => Err("exhausted".into()),
    }
}

fn define(interp: &Interpreter, src: &str) -> Arc<Function> {
    match eval(interp, src) {
        Ok(Variable::Function(f)) => f,
        other => {
            eprintln!("MACHINERY ERROR: C19 function not accepted: {src}: {:?}", other.map(|v| canon(&v)));
            std::process::exit(2);
        }
    }
}

fn call(f: &Arc<Function>, args: Vec<Variable>) -> Result<Variable, String> {
    match f.clone().create_call(args) {
        Ok(code) => match guard(|| code.exec()) {
            Ok(Ok(v)) => Ok(v),
            Ok(Err(e)) => Err(format!("error:{}", core::exec_error_kind(&e))),
            Err(Stop::Panic(p)) => Err(format!("PANIC {} @{}", p.short_msg(), p.file())),
            Err(Stop::Exhausted) => Err("exhausted".into()),
        },
        Err(e) => Err(format!("host-rejected:{}", core::error_kind(&e))),
    }
}

fn kind(v: &Variable) -> &'static str {
    match v {
        Variable::Bool(_) => "bool",
        Variable::Int(_) => "int",
        Variable::Float(_) => "float",
        Variable::String(_) => "string",
        Variable::Void => "void",
        Variable::Array(a) if a.is_empty() => "empty-array",
        Variable::Array(_) => "array",
        Variable::Tuple(_) => "tuple",
        Variable::Struct(_) => "struct",
        Variable::Function(_) => "function",
        Variable::Mut(_) => "cell",
    }
}

#[derive(Default)]
struct Acc {
    comparisons: u64,
    equal_pairs: u64,
    outcomes: BTreeSet<String>,
    violations: Vec<Violation>,
}

/// Operands and arm values *built* from run-time components (a container literal that mentions a
/// parameter is not a constant: the comparison meets an expression, not a folded value): every
/// built shape x every scrutinee, in a match value arm (bare and parenthesised) and on either
/// side of == / !=; expected = content equality with the shape evaluated on its own.
fn built_operands() -> (u64, Vec<Violation>) {
    const SHAPES: &[&str] = &[
        "(x, 2)", "(x, 2, 3)", "(2, x)", "((x, 2), 3)", "((x, 2, 3), 3)", "(x, (2, 3))", "(x, (2, 3, 4))", "(x, [2])", "(x, [2, 3])",
        "[x, 2]", "[x, 2, 3]", "[x]", "[[x], [2]]", "[[x, 2]]", "[(x, 2)]", "[(x, 2, 3)]",
        "struct{ a := x }", "struct{ a := x, b := 2 }", "struct{ b := x }", "struct{ a := (x, 2) }", "struct{ a := (x, 2, 3) }",
        "(x * 2, 2)", "[x, 2.5]",
    ];
    let interp = Interpreter::with_stdlib();
    // scrutinees: every shape at x = 1 and x = 7, built elsewhere, plus a few plain values
    let mut scrut_src: Vec<String> = Vec::new();
    for s in SHAPES {
        for x in ["1", "7"] {
            scrut_src.push(format!("x := {x}; {s}"));
        }
    }
    scrut_src.extend(["1", "()", "[]", "(1, 2.0)", "[1.0, 2]", "\"(1, 2)\""].iter().map(|s| s.to_string()));
    let scrut: Vec<Variable> = scrut_src.iter().map(|s| eval(&interp, s).expect("C19 scrutinee")).collect();
    let mut out = Vec::new();
    let mut n = 0u64;
    for shape in SHAPES {
        let own = eval(&interp, &format!("x := 1; {shape}")).expect("C19 shape");
        let bare_ok = shape.starts_with('(');
        let mut forms: Vec<(&str, String)> = vec![
            ("match-arm", format!("f := (t: any, x: int) -> any {{ return match t {{ ({shape}) => true, => false, }} }}")),
            ("match-arm-after-another", format!("f := (t: any, x: int) -> any {{ return match t {{ (\"no\") => false, ({shape}) => true, => false, }} }}")),
            ("eq-left", format!("f := (t: any, x: int) -> any {{ return {shape} == t }}")),
            ("eq-right", format!("f := (t: any, x: int) -> any {{ return t == {shape} }}")),
            ("ne-right", format!("f := (t: any, x: int) -> any {{ return !(t != {shape}) }}")),
        ];
        if bare_ok {
            forms.push(("match-arm-bare", format!("f := (t: any, x: int) -> any {{ return match t {{ {shape} => true, => false, }} }}")));
        }
        for (form, text) in forms {
            let f = match eval(&interp, &text) {
                Ok(Variable::Function(f)) => f,
                other => {
                    out.push(Violation { sig: format!("C19|built-operands|program-fails|{form}|{shape}"), detail: json!({"kind": "program", "stdlib": true, "text": text, "observed": format!("{:?}", other.map(|v| canon(&v)))}) });
                    continue;
                }
            };
            for (k, t) in scrut.iter().enumerate() {
                n += 1;
                let want = content_eq(t, &own).to_string();
                let got = match call(&f, vec![t.clone(), Variable::Int(1)]) {
                    Ok(v) => canon(&v),
                    Err(e) => e,
                };
                if got != want {
                    out.push(Violation {
                        sig: format!("C19|built-operands|{form}|shape={shape}|scrutinee={}", scrut_src[k]),
                        detail: json!({"kind": "host_call", "program": text, "args": [format!("({})", if scrut_src[k].contains(";") { format!("{{ {} }}", scrut_src[k]) } else { scrut_src[k].clone() }), "1".to_string()], "expected": want, "observed": got}),
                    });
                }
            }
        }
    }
    // two built operands against each other: every ordered pair of shapes, == and !=
    let owns: Vec<Variable> = SHAPES.iter().map(|s| eval(&interp, &format!("x := 1; {s}")).expect("C19 shape")).collect();
    for (i, s1) in SHAPES.iter().enumerate() {
        for (j, s2) in SHAPES.iter().enumerate() {
            let eq = content_eq(&owns[i], &owns[j]);
            let want = format!("({eq}, {})", !eq);
            for (form, text, args) in [
                ("run-time-components", format!("f := (x: int) -> any {{ return ({s1} == {s2}, {s1} != {s2}) }}"), vec![Variable::Int(1)]),
                ("any-typed-components", format!("f := (x: any) -> any {{ return ({s1} == {s2}, {s1} != {s2}) }}"), vec![Variable::Int(1)]),
                ("two-parameters", format!("f := (x: int, y: int) -> any {{ return ({s1} == {}, {s1} != {}) }}", s2.replace('x', "y"), s2.replace('x', "y")), vec![Variable::Int(1), Variable::Int(1)]),
            ] {
                n += 1;
                let got = match eval(&interp, &text) {
                    Ok(Variable::Function(f)) => match call(&f, args) {
                        Ok(v) => canon(&v),
                        Err(e) => e,
                    },
                    // operands of unrelated static types may be rejected by the checker (and `x * 2` on any is)
                    Err(e) if e.starts_with("rejected") && !(i == j && form == "run-time-components") => continue,
                    Ok(other) => format!("not a function: {}", canon(&other)),
                    Err(e) => e,
                };
                if got != want {
                    out.push(Violation {
                        sig: format!("C19|built-operands|pair|{form}|{s1} ; {s2}"),
                        detail: json!({"kind": "host_call", "program": text, "args": ["1"], "expected": want, "observed": got}),
                    });
                }
            }
        }
    }
    (n, out)
}

/// Equality is by content at every nesting depth: for depths 1..=40 and every container kind
/// (array, tuple, struct, the three alternating), two values of equal content built separately
/// are equal, and two that differ only at the innermost position are not - written as one
/// program (folded), and with the innermost value passed at run time; `==`, `!=` and a match
/// value arm.
fn depth_ladder() -> (u64, Vec<Violation>) {
    let wrap = |kind: usize, level: usize, inner: String| -> String {
        match (kind + if kind == 3 { level } else { 0 }) % 3 {
            0 => format!("[{inner}]"),
            1 => format!("({inner}, 0)"),
            _ => format!("struct{{ a := {inner} }}"),
        }
    };
    let nest = |kind: usize, depth: usize, core: &str| -> String {
        let mut t = core.to_string();
        for level in 0..depth {
            t = wrap(kind, level, t);
        }
        t
    };
    let mut n = 0u64;
    let mut out = Vec::new();
    for kind in 0..4usize {
        for depth in 1..=40usize {
            for (route, mk) in [("literal", false), ("run-time core", true)] {
                let (pre, c1, c2) = if mk { ("k := mut 1; one := *k; k += 1; two := *k; ", "one", "two") } else { ("", "1", "2") };
                let a = nest(kind, depth, c1);
                let b = nest(kind, depth, c2);
                let text = format!("{pre}x := {a}; y := {a}; z := {b}; m1 := match x {{ (y) => 1, => 0, }}; m2 := match x {{ (z) => 1, => 0, }}; (x == y, x != y, x == z, x != z, m1, m2)");
                n += 6;
                let o = core::run_text(&text, true, core::QUICK_FUEL);
                let got = match &o {
                    core::Outcome::Value(v) => crate::val::canon(v),
                    other => other.tag(),
                };
                if got != "(true, false, false, true, 1, 0)" {
                    out.push(Violation {
                        sig: format!("C19|equality-at-depth|kind={}|{route}|depth={depth}", ["array", "tuple", "struct", "alternating"][kind]),
                        detail: json!({"kind": "program", "stdlib": true, "text": text, "expected": "(true, false, false, true, 1, 0)", "observed": got}),
                    });
                }
            }
        }
    }
    (n, out)
}

pub fn run(tier: &str) -> i32 {
    let thorough = tier == "thorough";
    let mut report = Report::new("C19", tier);
    let mut samples = Samples::new(8);
    let ps = producers(thorough);
    let n = ps.len();
    // evaluate every producer once (reference operands)
    let values: Vec<Variable> = core::on_big_stack(|| {
        let interp = Interpreter::with_stdlib();
        ps.iter()
            .map(|p| match eval(&interp, p) {
                Ok(v) => v,
                Err(e) => {
                    eprintln!("MACHINERY ERROR: C19 producer {p} does not evaluate: {e}");
                    std::process::exit(2);
                }
            })
            .collect()
    });
    let accs = par_fold(
        n * n,
        || {
            let interp = Interpreter::with_stdlib();
            let eq_any = define(&interp, "f := (a: any, b: any) -> any { m := match a { (b) => 1, => 0, }; return (a == b, a != b, m) }");
            (Acc::default(), interp, eq_any)
        },
        |(acc, interp, eq_any), idx| {
            let (i, j) = (idx / n, idx % n);
            let (a, b) = (&values[i], &values[j]);
            let expect = content_eq(a, b);
            if expect {
                acc.equal_pairs += 1;
            }
            let want = format!("({expect}, {}, {})", !expect, if expect { 1 } else { 0 });
            let label = format!("lhs={}|rhs={}|expected-equal={expect}", kind(a), kind(b));
            // literal form
            let text = format!("x := {}; y := {}; m := match x {{ (y) => 1, => 0, }}; (x == y, x != y, m)", ps[i], ps[j]);
            let inline = format!("m := match {} {{ ({}) => 1, => 0, }}; ({} == {}, {} != {}, m)", ps[i], ps[j], ps[i], ps[j], ps[i], ps[j]);
            let typed = format!(
                "f := (a: {}, b: {}) -> any {{ m := match a {{ (b) => 1, => 0, }}; return (a == b, a != b, m) }}",
                Ty::from_impl(&a.as_type()).print(),
                Ty::from_impl(&b.as_type()).print()
            );
            let mut forms: Vec<(&str, String, Result<Variable, String>)> = vec![
                ("bound-literal", text.clone(), eval(interp, &text)),
                ("inline-literal", inline.clone(), eval(interp, &inline)),
                ("run-time-any", "eq_any(a, b)".into(), call(eq_any, vec![a.clone(), b.clone()])),
            ];
            match eval(interp, &typed) {
                Ok(Variable::Function(f)) => forms.push(("run-time-typed", typed.clone(), call(&f, vec![a.clone(), b.clone()]))),
                Ok(_) => {}
                Err(e) => forms.push(("run-time-typed", typed.clone(), Err(e))),
            }
            // one operand a constant for the folder, the other a run-time value of static type any / a union
            for (form, text, arg) in [
                ("run-time-any-vs-literal", format!("f := (a: any) -> any {{ m := match a {{ ({}) => 1, => 0, }}; return (a == {}, a != {}, m) }}", ps[j], ps[j], ps[j]), a.clone()),
                ("literal-vs-run-time-any", format!("f := (b: any) -> any {{ m := match {} {{ (b) => 1, => 0, }}; return ({} == b, {} != b, m) }}", ps[i], ps[i], ps[i]), b.clone()),
                ("run-time-union-vs-bound-constant", format!("f := (a: {}|()) -> any {{ k := {}; m := match a {{ (k) => 1, => 0, }}; return (a == k, a != k, m) }}", Ty::from_impl(&a.as_type()).print(), ps[j]), a.clone()),
            ] {
                match eval(interp, &text) {
                    Ok(Variable::Function(f)) => forms.push((form, text.clone(), call(&f, vec![arg]))),
                    Ok(_) => {}
                    Err(e) => forms.push((form, text.clone(), Err(e))),
                }
            }
            // both operands spelled with the same name: still compared by content (a value
            // holding a NaN differs from itself whatever its static type says)
            if i == j {
                let own = Ty::from_impl(&a.as_type()).print();
                let body = "{ m := match a { (a) => 1, => 0, }; return (a == a, a != a, m) }";
                for (form, text) in [
                    ("same-name-any", format!("f := (a: any) -> any {body}")),
                    ("same-name-typed", format!("f := (a: {own}) -> any {body}")),
                    ("same-name-union", format!("f := (a: {own}|()) -> any {body}")),
                    ("same-name-closure", format!("f := (a: {own}) -> any {{ g := () -> any {body}; return g() }}")),
                ] {
                    match eval(interp, &text) {
                        Ok(Variable::Function(f)) => forms.push((form, text.clone(), call(&f, vec![a.clone()]))),
                        Ok(_) => {}
                        Err(e) => forms.push((form, text.clone(), Err(e))),
                    }
                }
                let bound = format!("id := (q: any) -> any {{ return q }}; x := id({}); m := match x {{ (x) => 1, => 0, }}; (x == x, x != x, m)", ps[i]);
                forms.push(("same-name-bound", bound.clone(), eval(interp, &bound)));
            }
            for (form, program, got) in forms {
                acc.comparisons += 1;
                let got_s = match &got {
                    Ok(v) => canon(v),
                    Err(e) => e.clone(),
                };
                acc.outcomes.insert(got_s.chars().take(16).collect());
                if got_s != want {
                    // which of the three disagrees
                    let part = match &got {
                        Ok(Variable::Tuple(t)) if t.len() == 3 => {
                            let e = canon(&t[0]) == format!("{expect}");
                            let ne = canon(&t[1]) == format!("{}", !expect);
                            let m = canon(&t[2]) == format!("{}", if expect { 1 } else { 0 });
                            format!("{}{}{}", if e { "" } else { "==" }, if ne { "" } else { " !=" }, if m { "" } else { " match" })
                        }
                        _ => "failure".into(),
                    };
                    acc.violations.push(Violation {
                        sig: format!("C19|{}|form={form}|{label}", part.trim()),
                        detail: json!({"kind": "program", "stdlib": true, "text": program, "lhs": ps[i], "rhs": ps[j], "expected": want, "observed": got_s}),
                    });
                }
            }
            // reflexivity for NaN-free values
            if i == j && !has_nan(a) && !expect {
                acc.violations.push(Violation {
                    sig: format!("C19|reference-not-reflexive|{label}"),
                    detail: json!({"kind": "machinery", "producer": ps[i]}),
                });
            }
        },
    );
    let mut acc = Acc::default();
    for (a, _, _) in accs {
        acc.comparisons += a.comparisons;
        acc.equal_pairs += a.equal_pairs;
        acc.outcomes.extend(a.outcomes);
        acc.violations.extend(a.violations);
    }

    // identity cases: functions and cells
    let id_viol = core::on_big_stack(|| {
        let interp = Interpreter::with_stdlib();
        let mut out = Vec::new();
        let cases: &[(&str, &str)] = &[
            ("f := () -> int { return 1 }; g := f; (f == f, f == g, f != g)", "(true, true, false)"),
            ("f := () -> int { return 1 }; g := () -> int { return 1 }; (f == g, f != g, g == f)", "(false, true, false)"),
            ("mk := () -> () -> int { return () -> int { return 1 } }; a := mk(); b := mk(); (a == a, a == b, a != b)", "(true, false, true)"),
            ("c := mut 1; d := c; (c == c, c == d, c != d)", "(true, true, false)"),
            ("c := mut 1; d := mut 1; (c == d, c != d, *c == *d)", "(false, true, true)"),
            ("c := mut 1; arr := [c]; s := struct{ f := c }; (arr[0] == c, s.f == c, arr == [c], (c, 1) == (c, 1))", "(true, true, true, true)"),
            ("c := mut 1; d := mut 1; ([c] == [d], (c, 1) == (d, 1), struct{ f := c } == struct{ f := d })", "(false, false, false)"),
            ("c := mut [1]; c += []; d := *c; m := match *c { ([1]) => 1, => 0, }; (d == [1], *c == [0, 1][1:], m)", "(true, true, 1)"),
            ("f := () -> int { return 1 }; match f { (f) => 1, => 0, }", "1"),
            ("c := mut 1; (c == 1, 1 == c, c == *c, std.len == std.len, () == [], \"\" == [], 0 == false, 1 == 1.0, (1, 2) == [1, 2])", "(false, false, false, true, false, false, false, false, false)"),
            ("it := [1]~; jt := it; (it == jt, it == [1]~)", "(true, false)"),
            // a function value is itself whichever way it is reached: its own name inside its body,
            // a parameter, a capture, a container, deeper recursion, a declaration inside a function
            ("same := (g: any) -> bool { return g == same }; (same(same), same(1))", "(true, false)"),
            ("same := (g: any) -> any { m := match g { (same) => 1, => 0, }; return (g == same, g != same, same == g, m, [g] == [same], (g, 1) == (same, 1)) }; same(same)", "(true, false, true, 1, true, true)"),
            ("same := (g: any, n: int) -> bool { if n > 0 { return same(g, n - 1) }; return g == same }; (same(same, 0), same(same, 2))", "(true, true)"),
            ("mk := () -> (any) -> bool { inner := (g: any) -> bool { return g == inner }; return inner }; h := mk(); k := mk(); (h(h), h == h, h(k), h == k)", "(true, true, false, false)"),
            ("f := (g: any) -> bool { h := () -> bool { return g == f }; return h() }; (f(f), f(1))", "(true, false)"),
            ("keep := mut any (); reg := (g: any) -> () { keep = g }; chk := (g: any) -> bool { return *keep == g && g == chk }; reg(chk); chk(chk)", "true"),
            ("arr := [(g: any) -> bool { return true }]; f := arr[0]; (f == arr[0], [f] == arr, arr == [f])", "(true, true, true)"),
        ];
        for (prog, want) in cases {
            let got = match eval(&interp, prog) {
                Ok(v) => canon(&v),
                Err(e) => e,
            };
            if got != *want {
                out.push(Violation {
                    sig: format!("C19|identity|{}", prog.chars().take(50).collect::<String>()),
                    detail: json!({"kind": "program", "stdlib": true, "text": prog, "expected": want, "observed": got}),
                });
            }
        }
        // the same through the host API: a function value handed to itself
        for (def, want) in [
            ("same := (g: any) -> bool { return g == same }", "true"),
            ("same := (g: any) -> any { m := match g { (same) => 1, => 0, }; return (g == same, m) }", "(true, 1)"),
            ("same := (g: any) -> bool { h := () -> bool { return g == same }; return h() }", "true"),
        ] {
            let got = match eval(&interp, def) {
                Ok(Variable::Function(f)) => match call(&f, vec![Variable::Function(f.clone())]) {
                    Ok(v) => canon(&v),
                    Err(e) => e,
                },
                Ok(other) => format!("not a function: {}", canon(&other)),
                Err(e) => e,
            };
            if got != want {
                out.push(Violation {
                    sig: format!("C19|identity|host-call|{}", def.chars().take(50).collect::<String>()),
                    detail: json!({"kind": "host_call", "program": def, "args": ["the function value itself"], "expected": want, "observed": got}),
                });
            }
        }
        (out, cases.len() + 3)
    });
    acc.comparisons += id_viol.1 as u64;
    report.violations(id_viol.0);
    let built = core::on_big_stack(built_operands);
    acc.comparisons += built.0;
    report.violations(built.1);
    let ladder = core::on_big_stack(depth_ladder);
    acc.comparisons += ladder.0;
    report.violations(ladder.1);
    samples.push(|| json!({"pair": [ps[15], ps[24]], "program": format!("({} == {}, ...)", ps[15], ps[24])}));
    samples.push(|| json!({"pair": [ps[n - 1], ps[n - 5]]}));
    samples.push(|| json!({"identity_case": "c := mut 1; d := mut 1; (c == d, c != d, *c == *d)"}));
    let Acc { comparisons, equal_pairs, outcomes, violations } = acc;
    report.violations(violations);
    let coverage = json!({
        "states": n * n,
        "transitions": comparisons,
        "traces_validated_against_impl": comparisons,
        "producers": n,
        "pairs": n * n,
        "pairs_with_equal_content": equal_pairs,
        "built_operand_comparisons (container literals with run-time components as arm values and operands x scrutinees)": built.0,
        "depth_ladder_comparisons (4 container kinds x depth 1..=40 x literal / run-time core x == != match)": ladder.0,
        "distinct_outcomes": outcomes.len(),
        "samples": samples.items,
        "exhaustive": true,
        "rule": "every ordered pair of producer expressions is compared with ==, != and a match value arm, bound/inline literal and at run time (any-typed and own-typed parameters); expected = structural content equality of the separately evaluated operands (IEEE for floats); symmetry follows from covering both orders",
    });
    report.finish("model_checking", coverage, &["function and cell identity is exercised by a fixed list of aliasing programs"])
}
