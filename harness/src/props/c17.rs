//! C17 — embedding API: REPL equals batch for every statement history and every
//! splitting into REPL inputs; exec is isolated and repeatable; host calls accept
//! exactly what in-language calls accept and return the same.
use crate::core::{self, guard, par_fold, Stop};
use crate::palette::{Values, RECIPES};
use crate::report::{Report, Samples, Violation};
use crate::ty::Ty;
use crate::val::{canon_typed, Canon};
use serde_json::json;
use simplesl::variable::{Type, Typed, Variable};
use simplesl::{verif, Code, Interpreter};
use std::collections::{BTreeMap, BTreeSet};
use std::sync::Arc;

/// (statement text, names it declares at top level)
const STATEMENTS: &[(&str, &[&str])] = &[
    ("x := 1", &["x"]),
    ("x := 2.5", &["x"]),
    ("y := x", &["y"]),
    ("y := x + x", &["y"]),
    ("x := [x]", &["x"]),
    ("x := (x, 1)", &["x"]),
    ("c := mut 0", &["c"]),
    ("c := mut [any] []", &["c"]),
    ("c += 1", &[]),
    ("c += [x]", &[]),
    ("y := *c", &["y"]),
    ("f := () -> any { return x }", &["f"]),
    ("f := (a: any) -> any { return (a, x) }", &["f"]),
    ("f := () -> any { c += 1; return *c }", &["f"]),
    ("y := f()", &["y"]),
    ("y := f(x)", &["y"]),
    ("(x, y) := (y, x)", &["x", "y"]),
    ("(x, y) := (1, \"s\")", &["x", "y"]),
    ("for e in [1, 2]~ { c += e }", &[]),
    ("{ x := 5; z := x; z }", &[]),
    ("x == y", &[]),
    ("y := if x == 1 { \"one\" } else { x }", &["y"]),
    ("y := [1, 2]~ @ (v: int) -> any { return (v, x) } $]", &["y"]),
    ("g := f", &["g"]),
    ("y := g()", &["y"]),
    ("x := match x { 1 => 10, v: float => v, => 0, }", &["x"]),
    ("x := 2", &["x"]),
    ("y := [10, 20][x]", &["y"]),
    ("y := 7 / (x - 1)", &["y"]),
    ("c := mut 2", &["c"]),
    ("y := [10, 20][*c]", &["y"]),
    ("y", &[]),
    ("y := ([1]~ ? mut int)().1", &["y"]),
    ("y += 5", &[]),
    ("x := *y", &["x"]),
    // an iterator kept in a top-level variable: later inputs see the value itself, with its position
    ("it := [1, 2, 3]~", &["it"]),
    ("y := it()", &["y"]),
    ("y := it $]", &["y"]),
    ("y := (it $+, it $*)", &["y"]),
    ("f := () -> any { return it $] }", &["f"]),
    ("f := () -> any { return it() }", &["f"]),
    // a run-time value whose declared type is wider than its own, placed in a container later:
    // the incremental route sees the value (a constant), the batch route its declared type
    // an array of an earlier input under `~` in code that runs more than once
    ("a := [1, 2, 3]", &["a"]),
    ("f := () -> any { return a~ $+ }", &["f"]),
    ("y := (f(), f())", &["y"]),
    // a container literal with effectful elements, indexed by an int of an earlier input
    ("x := *c", &["x"]),
    ("y := [(c += 1), (c += 10)][x]", &["y"]),
    ("c := mut int|float 0", &["c"]),
    ("x := [y, y]", &["x"]),
    ("y := match x { v: [int] => 1, v: [int|float] => 2, v: [any] => 3, => 4, }", &["y"]),
    // binders spelled like a top-level name, in an input of their own: the name they bind is gone
    // after the construct, on both routes
    ("if x: int = 7 { }", &[]),
    ("y := if x: int = 7 { x } else { 0 }", &["y"]),
    ("while x: int = 7 { break }", &[]),
    ("y := match 7 { x: int => x, => 0, }", &["y"]),
    ("for x in [7]~ { }", &[]),
    ("{ (x, y) := (7, 1) }", &[]),
    ("y := [7]~ @ (x: int) -> int { return x } $]", &["y"]),
    // a computed bool of an earlier input next to an operand with an effect: the later input sees a
    // constant where the batch sees a name (the effect happens on both routes)
    ("b := std.len([0]) > 5", &["b"]),
    ("y := (c += 1) > 0 && b", &["y"]),
    ("y := (c += 1) > 0 || !b", &["y"]),
    ("y := if (c += 1) > 0 && b { 1 } else { 2 }", &["y"]),
    // a function of an earlier input whose parameters are spelled like top-level names, called with
    // arguments that read those names while they hold run-time values of the same input: every
    // argument is evaluated in the caller's scope, whatever the parser knows about the callee
    ("h := (x: int, y: int) -> int { return x * 10 + y }", &["h"]),
    ("x := std.len([0, 0])", &["x"]),
    ("y := h(7, x)", &["y"]),
    ("y := h(x + 1, h(2, x))", &["y"]),
    // a file that reads a name of the importing program, imported more than once with the name
    // re-bound in between: every import site is checked and folded where it stands
    ("x := 1; m := import \"/verif/harness/corpus/uses_outer.ssl\"", &["x", "m"]),
    ("n := import \"/verif/harness/corpus/uses_outer.ssl\"; y := (m.y, n.y, n.z(1))", &["n", "y"]),
    ("y := { x := 5; k := import \"/verif/harness/corpus/uses_outer.ssl\"; k.y }", &["y"]),
];

fn dump_vars(interp: &Interpreter, names: &BTreeSet<String>) -> String {
    // one Canon for the whole dump so that aliasing between variables is part of it
    let mut c = Canon::new(true);
    let mut parts = Vec::new();
    for n in names {
        match interp.get_variable(n) {
            // with the run-time type tag: it is observable (type arms, if-set, exhausted iterators)
            Some(v) => parts.push(format!("{n}={} :: {}", c.dump(v), Ty::from_impl(&simplesl::variable::Typed::as_type(v)).print())),
            None => parts.push(format!("{n}=<missing>")),
        }
    }
    parts.join("; ")
}

#[derive(Debug, Clone, PartialEq)]
enum Route {
    /// (last result, variable dump, top-layer names)
    Done(String, String, Vec<String>),
    Rejected(String),
    Error(String),
    Panic(String),
    Exhausted,
}

/// feeds the groups one at a time to one interpreter, as the REPL does
fn run_groups(groups: &[String], names: &BTreeSet<String>) -> Route {
    verif::set_fuel(Some(core::QUICK_FUEL), Some(core::DEPTH));
    let mut interp = Interpreter::with_stdlib();
    let mut last = String::from("()");
    let mut result = None;
    for g in groups {
        let code = match guard(|| Code::parse(&interp, g)) {
            Ok(Ok(c)) => c,
            Ok(Err(e)) => {
                result = Some(Route::Rejected(core::error_kind(&e)));
                break;
            }
            Err(Stop::Panic(p)) => {
                result = Some(Route::Panic(format!("parse {} @{}", p.short_msg(), p.file())));
                break;
            }
            Err(Stop::Exhausted) => {
                result = Some(Route::Exhausted);
                break;
            }
        };
        match guard(|| code.exec_unscoped(&mut interp)) {
            Ok(Ok(v)) => last = format!("{} :: {}", canon_typed(&v), Ty::from_impl(&v.as_type()).print()),
            Ok(Err(e)) => {
                result = Some(Route::Error(core::exec_error_kind(&e)));
                break;
            }
            Err(Stop::Panic(p)) => {
                result = Some(Route::Panic(format!("exec {} @{}", p.short_msg(), p.file())));
                break;
            }
            Err(Stop::Exhausted) => {
                result = Some(Route::Exhausted);
                break;
            }
        }
    }
    verif::set_fuel(None, None);
    if let Some(r) = result {
        return r;
    }
    let mut top: Vec<String> = interp.verif_names().iter().map(|s| s.to_string()).collect();
    top.sort();
    Route::Done(last, dump_vars(&interp, names), top)
}

#[derive(Default)]
struct Acc {
    histories: u64,
    batch_complete: u64,
    splits_run: u64,
    splits_compared: u64,
    repl_stricter: u64,
    isolation_checks: u64,
    outcomes: BTreeSet<String>,
    violations: Vec<Violation>,
}

fn merge(a: &mut Acc, b: Acc) {
    a.histories += b.histories;
    a.batch_complete += b.batch_complete;
    a.splits_run += b.splits_run;
    a.splits_compared += b.splits_compared;
    a.repl_stricter += b.repl_stricter;
    a.isolation_checks += b.isolation_checks;
    a.outcomes.extend(b.outcomes);
    a.violations.extend(b.violations);
}

fn cells_of(v: &Variable, out: &mut Vec<usize>, depth: usize) {
    if depth > 10 {
        return;
    }
    match v {
        Variable::Mut(m) => {
            out.push(Arc::as_ptr(m) as usize);
            if let Ok(g) = m.variable.read() {
                cells_of(&g.clone(), out, depth + 1);
            }
        }
        Variable::Array(a) => a.iter().for_each(|x| cells_of(x, out, depth + 1)),
        Variable::Tuple(t) => t.iter().for_each(|x| cells_of(x, out, depth + 1)),
        Variable::Struct(s) => s.values().for_each(|x| cells_of(x, out, depth + 1)),
        _ => {}
    }
}

fn check_history(h: &[usize], acc: &mut Acc) {
    acc.histories += 1;
    let stmts: Vec<&str> = h.iter().map(|&i| STATEMENTS[i].0).collect();
    let mut names: BTreeSet<String> = BTreeSet::new();
    for &i in h {
        for n in STATEMENTS[i].1 {
            names.insert(n.to_string());
        }
    }
    let label = |what: &str| format!("C17|{what}|history={}", h.iter().map(|i| i.to_string()).collect::<Vec<_>>().join(","));
    let batch_text = stmts.join(";\n");
    let batch = run_groups(&[batch_text.clone()], &names);
    let Route::Done(b_last, b_vars, b_top) = &batch else {
        if let Route::Panic(p) = &batch {
            acc.violations.push(Violation {
                sig: format!("C17|panic|batch|{}", p.chars().take(70).collect::<String>()),
                detail: json!({"kind": "repl", "groups": [batch_text], "outcome": format!("{batch:?}")}),
            });
        }
        return;
    };
    acc.batch_complete += 1;
    acc.outcomes.insert(b_vars.chars().take(60).collect());
    // top-layer names are exactly the declared ones (plus std)
    let mut expected_top: Vec<String> = names.iter().cloned().collect();
    expected_top.push("std".into());
    expected_top.sort();
    if *b_top != expected_top {
        acc.violations.push(Violation {
            sig: label("names-leaked-or-missing(batch)"),
            detail: json!({"kind": "repl", "groups": [batch_text], "expected_names": expected_top, "observed_names": b_top}),
        });
    }
    // every split into REPL inputs
    let n = h.len();
    for mask in 0..(1u32 << (n - 1)) {
        if mask == 0 {
            continue; // the batch route itself
        }
        let mut groups: Vec<String> = Vec::new();
        let mut cur: Vec<&str> = vec![stmts[0]];
        for k in 1..n {
            if mask & (1 << (k - 1)) != 0 {
                groups.push(cur.join(";\n"));
                cur = Vec::new();
            }
            cur.push(stmts[k]);
        }
        groups.push(cur.join(";\n"));
        acc.splits_run += 1;
        let r = run_groups(&groups, &names);
        match &r {
            Route::Done(last, vars, top) => {
                acc.splits_compared += 1;
                if last != b_last || vars != b_vars {
                    acc.violations.push(Violation {
                        sig: label("repl-differs-from-batch"),
                        detail: json!({"kind": "repl", "groups": groups, "batch": {"last": b_last, "vars": b_vars}, "repl": {"last": last, "vars": vars}}),
                    });
                }
                if *top != expected_top {
                    acc.violations.push(Violation {
                        sig: label("names-leaked-or-missing(repl)"),
                        detail: json!({"kind": "repl", "groups": groups, "expected_names": expected_top, "observed_names": top}),
                    });
                }
            }
            // the incremental route may accept fewer (or fail where actual values differ from declared types)
            Route::Rejected(_) | Route::Error(_) | Route::Exhausted => acc.repl_stricter += 1,
            Route::Panic(p) => acc.violations.push(Violation {
                sig: format!("C17|panic|repl|{}", p.chars().take(70).collect::<String>()),
                detail: json!({"kind": "repl", "groups": groups, "outcome": format!("{r:?}")}),
            }),
        }
    }
    // isolation and repeatability of Code::exec
    acc.isolation_checks += 1;
    let iso = guard(|| {
        let mut interp = Interpreter::with_stdlib();
        // a parse-time interpreter that already holds state: the first statement executed unscoped
        let first = Code::parse(&interp, stmts[0]).ok()?;
        first.exec_unscoped(&mut interp).ok()?;
        let pre_names: BTreeSet<String> = names.iter().cloned().collect();
        let rest = if n > 1 { stmts[1..].join(";\n") } else { "x".to_string() };
        let code = Code::parse(&interp, &rest).ok()?;
        let before = dump_vars(&interp, &pre_names);
        let mut top_before: Vec<String> = interp.verif_names().iter().map(|s| s.to_string()).collect();
        top_before.sort();
        let r1 = code.exec().ok()?;
        let mid = dump_vars(&interp, &pre_names);
        let r2 = code.exec().ok()?;
        let after = dump_vars(&interp, &pre_names);
        let mut top_after: Vec<String> = interp.verif_names().iter().map(|s| s.to_string()).collect();
        top_after.sort();
        // cells created by the program must be fresh in every execution; cells that already
        // existed in the parse-time interpreter are shared by design
        let mut pre_cells = Vec::new();
        for nme in &pre_names {
            if let Some(v) = interp.get_variable(nme) {
                cells_of(v, &mut pre_cells, 0);
            }
        }
        // an iterator held by the parse-time interpreter is pre-existing mutable state too (its
        // position): shared by design, like a cell
        let pre_iterators = pre_names.iter().any(|nme| interp.get_variable(nme).is_some_and(|v| matches!(v, Variable::Function(_)) && simplesl::variable::Typed::as_type(v).is_iterator()));
        let (mut c1, mut c2) = (Vec::new(), Vec::new());
        cells_of(&r1, &mut c1, 0);
        cells_of(&r2, &mut c2, 0);
        let shared: Vec<usize> = c1.iter().filter(|p| c2.contains(p) && !pre_cells.contains(p)).copied().collect();
        Some((before, mid, after, top_before, top_after, canon_typed(&r1), canon_typed(&r2), shared.len(), pre_cells.is_empty() && !pre_iterators, rest))
    });
    if let Ok(Some((before, mid, after, tb, ta, r1, r2, shared, no_pre_cells, rest))) = iso {
        if tb != ta {
            acc.violations.push(Violation {
                sig: label("exec-changed-the-names-of-its-parse-time-interpreter"),
                detail: json!({"kind": "exec_isolation", "first": stmts[0], "program": rest, "names_before": tb, "names_after": ta}),
            });
        }
        // with pre-existing cells the program may legitimately write to them; otherwise nothing may change
        if no_pre_cells && (before != mid || mid != after) {
            acc.violations.push(Violation {
                sig: label("exec-modified-its-parse-time-interpreter"),
                detail: json!({"kind": "exec_isolation", "first": stmts[0], "program": rest, "before": before, "after_first_exec": mid, "after_second_exec": after}),
            });
        }
        if no_pre_cells && r1 != r2 {
            acc.violations.push(Violation {
                sig: label("second-exec-differs"),
                detail: json!({"kind": "exec_isolation", "first": stmts[0], "program": rest, "first_result": r1, "second_result": r2}),
            });
        }
        if shared > 0 {
            acc.violations.push(Violation {
                sig: label("mutable-state-shared-between-executions"),
                detail: json!({"kind": "exec_isolation", "first": stmts[0], "program": rest, "shared_cells": shared}),
            });
        }
    }
}

// --------------------------------------------------------------------- host calls

const EXTRA_FUNCTIONS: &[&str] = &[
    "std.len",
    "std.math.ilog",
    "std.math.count_ones",
    "std.string.replace",
    "std.convert.to_string",
    "{ rec := (n: int) -> int { if n <= 0 { return 0 }; return n + rec(n - 1) }; rec }",
    "{ f := (f: int) -> int { return f + 1 }; f }",
    // functions that mention their own name, of every arity (the call binds it)
    "{ c := mut 3; down := () -> int { if *c <= 0 { return 0 }; c -= 1; return 1 + down() }; down }",
    "{ me := () -> any { return me == me }; me }",
    "{ rec2 := (a: int, b: int) -> int { if a <= 0 { return b }; return rec2(a - 1, b + 1) }; rec2 }",
    "{ c := mut 0; it := () -> (bool, int) { c += 1; if *c % 2 == 1 { return it() }; return (*c < 9, *c) }; it }",
    "{ c := mut 0; () -> int { c += 1; return *c } }",
    "(a: int | string, b: [int]) -> any { return (a, b) }",
    "(m: mut int) -> int { m += 1; return *m }",
    "(m: mut (int | float)) -> any { return *m }",
    "(p: (int) -> int) -> int { return p(1) }",
    "(s: struct{a: int}) -> int { return s.a }",
    "() -> () { }",
];

fn host_calls(thorough: bool) -> (u64, u64, Vec<Violation>, Vec<serde_json::Value>) {
    let mut values = Values::new();
    let mut viol = Vec::new();
    let mut samples = Vec::new();
    let mut calls = 0u64;
    let mut accepted = 0u64;
    let mut fn_sources: Vec<String> = RECIPES.iter().filter(|r| r.src.contains("->") || r.src.ends_with('~')).map(|r| r.src.to_string()).collect();
    fn_sources.extend(EXTRA_FUNCTIONS.iter().map(|s| s.to_string()));
    let arg_recipes: Vec<usize> = (0..RECIPES.len()).filter(|&i| RECIPES[i].rank <= if thorough { 1 } else { 0 }).collect();
    for fsrc in &fn_sources {
        let Ok(Variable::Function(f0)) = values.eval(fsrc) else { continue };
        let arity = match f0.as_type() {
            Type::Function(ft) => ft.params.len(),
            _ => continue,
        };
        let lens: Vec<usize> = [arity.saturating_sub(1), arity, arity + 1].into_iter().collect::<BTreeSet<_>>().into_iter().collect();
        for len in lens {
            let total = arg_recipes.len().pow(len as u32).min(if thorough { 4000 } else { 400 });
            for k in 0..total {
                let mut kk = k;
                let idx: Vec<usize> = (0..len)
                    .map(|_| {
                        let r = arg_recipes[kk % arg_recipes.len()];
                        kk /= arg_recipes.len();
                        r
                    })
                    .collect();
                calls += 1;
                // fresh function value and arguments for each route
                let mk = |values: &mut Values| -> Option<(Arc<simplesl::function::Function>, Vec<Variable>)> {
                    let Ok(Variable::Function(f)) = values.eval(fsrc) else { return None };
                    let mut args = Vec::new();
                    for &i in &idx {
                        args.push(values.make(i)?);
                    }
                    Some((f, args))
                };
                let Some((f1, a1)) = mk(&mut values) else { continue };
                let Some((f2, a2)) = mk(&mut values) else { continue };
                verif::set_fuel(Some(core::QUICK_FUEL), Some(core::DEPTH));
                // host route
                let host = match guard(|| f1.clone().create_call(a1)) {
                    Ok(Ok(code)) => match guard(|| code.exec()) {
                        Ok(Ok(v)) => format!("value:{}", canon_typed(&v)),
                        Ok(Err(e)) => format!("error:{}", core::exec_error_kind(&e)),
                        Err(Stop::Panic(p)) => format!("PANIC exec {} @{}", p.short_msg(), p.file()),
                        Err(Stop::Exhausted) => "exhausted".into(),
                    },
                    Ok(Err(e)) => format!("rejected:{}", if matches!(e, simplesl::Error::WrongNumberOfArguments(..)) { "arity" } else { "type" }),
                    Err(Stop::Panic(p)) => format!("PANIC create_call {} @{}", p.short_msg(), p.file()),
                    Err(Stop::Exhausted) => "exhausted".into(),
                };
                // in-language route: the same values bound as interpreter variables
                let mut interp = Interpreter::with_stdlib();
                interp.insert("callee".into(), Variable::Function(f2));
                let names: Vec<String> = (0..a2.len()).map(|i| format!("arg{i}")).collect();
                for (nme, v) in names.iter().zip(a2) {
                    interp.insert(nme.as_str().into(), v);
                }
                let text = format!("callee({})", names.join(", "));
                let lang = match guard(|| Code::parse(&interp, &text)) {
                    Ok(Ok(code)) => match guard(|| code.exec()) {
                        Ok(Ok(v)) => format!("value:{}", canon_typed(&v)),
                        Ok(Err(e)) => format!("error:{}", core::exec_error_kind(&e)),
                        Err(Stop::Panic(p)) => format!("PANIC exec {} @{}", p.short_msg(), p.file()),
                        Err(Stop::Exhausted) => "exhausted".into(),
                    },
                    Ok(Err(e)) => format!("rejected:{}", if matches!(e, simplesl::Error::WrongNumberOfArguments(..)) { "arity" } else { "type" }),
                    Err(Stop::Panic(p)) => format!("PANIC parse {} @{}", p.short_msg(), p.file()),
                    Err(Stop::Exhausted) => "exhausted".into(),
                };
                verif::set_fuel(None, None);
                if host.starts_with("value") {
                    accepted += 1;
                }
                if samples.len() < 3 && host.starts_with("value") && len > 0 {
                    samples.push(json!({"function": fsrc, "args": idx.iter().map(|&i| RECIPES[i].src).collect::<Vec<_>>(), "host": host, "in_language": lang}));
                }
                if host == "exhausted" || lang == "exhausted" {
                    continue;
                }
                if host != lang {
                    let what = if host.starts_with("rejected") != lang.starts_with("rejected") { "acceptance-differs" } else { "result-differs" };
                    viol.push(Violation {
                        sig: format!("C17|host-call|{what}|fn={}|arity={arity}|args={len}", fsrc.chars().take(40).collect::<String>().replace('|', "/")),
                        detail: json!({"kind": "host_call_vs_language", "function": fsrc, "args": idx.iter().map(|&i| RECIPES[i].src).collect::<Vec<_>>(), "host": host, "in_language": lang, "declared": Ty::from_impl(&f1.as_type()).print()}),
                    });
                }
            }
        }
    }
    (calls, accepted, viol, samples)
}

pub fn run(tier: &str) -> i32 {
    let thorough = tier == "thorough";
    let mut report = Report::new("C17", tier);
    let mut samples = Samples::new(8);
    let depth = if thorough { 4 } else { 3 };
    let ns = STATEMENTS.len();
    let mut acc = Acc::default();
    for len in 1..=depth {
        let total = ns.pow(len as u32);
        let accs = par_fold(total, Acc::default, |acc, idx| {
            let mut i = idx;
            let h: Vec<usize> = (0..len)
                .map(|_| {
                    let s = i % ns;
                    i /= ns;
                    s
                })
                .collect();
            check_history(&h, acc);
        });
        for a in accs {
            merge(&mut acc, a);
        }
    }
    let (calls, accepted, hv, hs) = core::on_big_stack(|| host_calls(thorough));
    report.violations(hv);
    for s in hs {
        samples.push(|| s);
    }
    samples.push(|| json!({"history": [STATEMENTS[0].0, STATEMENTS[6].0, STATEMENTS[13].0], "splits": ["a;b;c", "a | b;c", "a;b | c", "a | b | c"]}));
    let Acc { histories, batch_complete, splits_run, splits_compared, repl_stricter, isolation_checks, outcomes, violations } = acc;
    report.violations(violations);
    let mut hist: BTreeMap<&str, u64> = BTreeMap::new();
    hist.insert("histories", histories);
    let coverage = json!({
        "states": histories,
        "transitions": splits_run + histories + calls * 2,
        "traces_validated_against_impl": splits_compared + calls,
        "statement_alphabet": ns,
        "history_depth": depth,
        "histories": histories,
        "histories_completing_in_batch": batch_complete,
        "repl_splits_run": splits_run,
        "repl_splits_compared_with_batch": splits_compared,
        "repl_route_stricter_or_failing": repl_stricter,
        "exec_isolation_checks": isolation_checks,
        "host_call_argument_vectors": calls,
        "host_calls_accepted": accepted,
        "distinct_outcomes": outcomes.len(),
        "samples": samples.items,
        "exhaustive": true,
        "rule": "every statement history up to the depth is run as one program and under every splitting into REPL inputs (parse + exec_unscoped on one interpreter); last result, all top-level variables (cells up to renaming) and the set of top-layer names must agree; Code::exec must leave the parse-time interpreter unchanged and be repeatable with fresh cells; every function value x argument vector of length arity-1..arity+1 is called through create_call and in-language",
    });
    report.finish(
        "model_checking",
        coverage,
        &["the incremental route may reject or fail where the batch route completes (it sees actual values); such splits are counted, not compared"],
    )
}
