//! File-system functions as a model-checked state machine: abstract state = tree
//! over the names {a, b, a/c} in a scratch directory; the reference is an in-memory
//! POSIX model; every reachable state is materialised afresh and every action is
//! executed through the real std.fs functions, then the real tree is compared.
use crate::core::{self, guard, Stop};
use crate::report::Violation;
use crate::ty::{belongs, Ty};
use crate::val::canon;
use serde_json::{json, Value};
use simplesl::function::Function;
use simplesl::variable::Variable;
use std::collections::{BTreeMap, BTreeSet, VecDeque};
use std::path::{Path, PathBuf};
use std::sync::Arc;

#[derive(Clone, Debug, PartialEq, Eq, PartialOrd, Ord, Hash)]
enum Node {
    File(String),
    Dir,
}

/// path ("a", "b", "a/c") -> node; "a/c" only present when "a" is a directory
type Tree = BTreeMap<String, Node>;

const PATHS: &[&str] = &["a", "b", "a/c"];

fn parent(p: &str) -> Option<&str> {
    p.rsplit_once('/').map(|x| x.0)
}

fn parent_is_dir(t: &Tree, p: &str) -> bool {
    match parent(p) {
        None => true,
        Some(q) => t.get(q) == Some(&Node::Dir),
    }
}

fn children(t: &Tree, p: &str) -> Vec<String> {
    let prefix = format!("{p}/");
    t.keys().filter(|k| k.starts_with(&prefix)).cloned().collect()
}

#[derive(Clone, Debug, PartialEq)]
enum Res {
    /// succeeded with this canonical value
    Ok(String),
    Err,
    /// the model does not pin the outcome down: accept either, then re-read the tree
    Either,
}

#[derive(Clone, Debug)]
enum Act {
    Read(&'static str),
    Write(&'static str, &'static str),
    Copy(&'static str, &'static str),
    RemoveFile(&'static str),
    RemoveDir(&'static str),
    RemoveDirAll(&'static str),
    CreateDir(&'static str),
    CreateDirAll(&'static str),
    Rename(&'static str, &'static str),
}

fn all_actions() -> Vec<Act> {
    let mut v = Vec::new();
    for p in PATHS {
        v.push(Act::Read(p));
        v.push(Act::Write(p, "w"));
        v.push(Act::RemoveFile(p));
        v.push(Act::RemoveDir(p));
        v.push(Act::RemoveDirAll(p));
        v.push(Act::CreateDir(p));
        v.push(Act::CreateDirAll(p));
        for q in PATHS {
            if p != q {
                v.push(Act::Copy(p, q));
                v.push(Act::Rename(p, q));
            }
        }
    }
    v.push(Act::Rename("a", "a"));
    v
}

/// POSIX reference: (result, next tree)
fn model(t: &Tree, act: &Act) -> (Res, Tree) {
    let mut n = t.clone();
    let unit = || Res::Ok("()".into());
    match act {
        Act::Read(p) => match t.get(*p) {
            Some(Node::File(c)) => (Res::Ok(format!("{c:?}")), n),
            _ => (Res::Err, n),
        },
        Act::Write(p, c) => {
            if !parent_is_dir(t, p) || t.get(*p) == Some(&Node::Dir) {
                (Res::Err, n)
            } else {
                n.insert(p.to_string(), Node::File(c.to_string()));
                (unit(), n)
            }
        }
        Act::Copy(from, to) => match t.get(*from) {
            Some(Node::File(c)) => {
                if !parent_is_dir(t, to) || t.get(*to) == Some(&Node::Dir) {
                    (Res::Err, n)
                } else {
                    n.insert(to.to_string(), Node::File(c.clone()));
                    (unit(), n)
                }
            }
            // copying a directory fails; whether the target was created first is not pinned down
            Some(Node::Dir) => (Res::Either, n),
            None => (Res::Err, n),
        },
        Act::RemoveFile(p) => match t.get(*p) {
            Some(Node::File(_)) => {
                n.remove(*p);
                (unit(), n)
            }
            _ => (Res::Err, n),
        },
        Act::RemoveDir(p) => match t.get(*p) {
            Some(Node::Dir) if children(t, p).is_empty() => {
                n.remove(*p);
                (unit(), n)
            }
            _ => (Res::Err, n),
        },
        Act::RemoveDirAll(p) => match t.get(*p) {
            Some(Node::Dir) => {
                for c in children(t, p) {
                    n.remove(&c);
                }
                n.remove(*p);
                (unit(), n)
            }
            // remove_dir_all on a regular file: behaviour differs between std versions
            Some(Node::File(_)) => (Res::Either, n),
            None => (Res::Err, n),
        },
        Act::CreateDir(p) => {
            if t.contains_key(*p) || !parent_is_dir(t, p) {
                (Res::Err, n)
            } else {
                n.insert(p.to_string(), Node::Dir);
                (unit(), n)
            }
        }
        Act::CreateDirAll(p) => {
            // every component must be absent or a directory
            let mut comps = Vec::new();
            let mut cur = String::new();
            for part in p.split('/') {
                if !cur.is_empty() {
                    cur.push('/');
                }
                cur.push_str(part);
                comps.push(cur.clone());
            }
            if comps.iter().any(|c| matches!(t.get(c), Some(Node::File(_)))) {
                (Res::Err, n)
            } else {
                for c in comps {
                    n.insert(c, Node::Dir);
                }
                (unit(), n)
            }
        }
        Act::Rename(from, to) => {
            let Some(src) = t.get(*from).cloned() else { return (Res::Err, n) };
            if from == to {
                return (unit(), n);
            }
            if !parent_is_dir(t, to) {
                return (Res::Err, n);
            }
            // a directory cannot be moved into itself; a parent cannot replace its own child's place
            if to.starts_with(&format!("{from}/")) {
                return (Res::Err, n);
            }
            if from.starts_with(&format!("{to}/")) {
                // renaming a/c onto a: a is a non-empty directory (it contains a/c)
                return (Res::Err, n);
            }
            match (&src, t.get(*to)) {
                (Node::File(_), Some(Node::Dir)) => (Res::Err, n),
                (Node::Dir, Some(Node::File(_))) => (Res::Err, n),
                (Node::Dir, Some(Node::Dir)) if !children(t, to).is_empty() => (Res::Err, n),
                _ => {
                    // move the node and its subtree
                    let sub = children(t, from);
                    n.remove(*from);
                    for c in children(t, to) {
                        n.remove(&c);
                    }
                    n.insert(to.to_string(), src);
                    for c in sub {
                        let node = n.remove(&c).unwrap();
                        n.insert(format!("{to}{}", &c[from.len()..]), node);
                    }
                    // only the paths of the model are representable
                    if n.keys().any(|k| !PATHS.contains(&k.as_str())) {
                        return (Res::Either, t.clone());
                    }
                    (unit(), n)
                }
            }
        }
    }
}

fn materialise(root: &Path, t: &Tree) {
    let _ = std::fs::remove_dir_all(root);
    std::fs::create_dir_all(root).expect("scratch dir");
    for (p, node) in t {
        // BTreeMap order puts "a" before "a/c"
        match node {
            Node::Dir => std::fs::create_dir(root.join(p)).expect("mkdir"),
            Node::File(c) => std::fs::write(root.join(p), c).expect("write"),
        }
    }
}

fn read_tree(root: &Path) -> Tree {
    fn walk(root: &Path, rel: &str, out: &mut Tree) {
        let dir = if rel.is_empty() { root.to_path_buf() } else { root.join(rel) };
        let Ok(rd) = std::fs::read_dir(&dir) else { return };
        for e in rd.flatten() {
            let name = e.file_name().to_string_lossy().to_string();
            let p = if rel.is_empty() { name } else { format!("{rel}/{name}") };
            let md = e.metadata().expect("metadata");
            if md.is_dir() {
                out.insert(p.clone(), Node::Dir);
                walk(root, &p, out);
            } else {
                out.insert(p, Node::File(std::fs::read_to_string(e.path()).unwrap_or_else(|_| "<unreadable>".into())));
            }
        }
    }
    let mut t = Tree::new();
    walk(root, "", &mut t);
    t
}

fn tree_text(t: &Tree) -> String {
    if t.is_empty() {
        return "{}".into();
    }
    t.iter()
        .map(|(k, v)| match v {
            Node::Dir => format!("{k}/"),
            Node::File(c) => format!("{k}={c:?}"),
        })
        .collect::<Vec<_>>()
        .join(" ")
}

pub struct FsResult {
    pub states: u64,
    pub transitions: u64,
    pub faults: u64,
    pub violations: Vec<Violation>,
    pub sample: Value,
}

struct Fns {
    map: BTreeMap<&'static str, Arc<Function>>,
}

fn call(f: &Arc<Function>, args: Vec<String>) -> Result<Variable, String> {
    let args: Vec<Variable> = args.into_iter().map(Variable::from).collect();
    match guard(|| f.clone().create_call(args)) {
        Ok(Ok(code)) => match guard(|| code.exec()) {
            Ok(Ok(v)) => Ok(v),
            Ok(Err(e)) => Err(format!("raised:{}", core::exec_error_kind(&e))),
            Err(Stop::Panic(p)) => Err(format!("PANIC {} @{}", p.short_msg(), p.file())),
            Err(Stop::Exhausted) => Err("exhausted".into()),
        },
        Ok(Err(e)) => Err(format!("host-rejected:{}", core::error_kind(&e))),
        Err(_) => Err("create_call failed".into()),
    }
}

fn run_action(fns: &Fns, root: &Path, act: &Act) -> (String, Result<Variable, String>) {
    let abs = |p: &str| root.join(p).to_string_lossy().to_string();
    match act {
        Act::Read(p) => (format!("file_read_to_string({p})"), call(&fns.map["file_read_to_string"], vec![abs(p)])),
        Act::Write(p, c) => (format!("write_to_file({p}, {c:?})"), call(&fns.map["write_to_file"], vec![abs(p), c.to_string()])),
        Act::Copy(a, b) => (format!("copy_file({a}, {b})"), call(&fns.map["copy_file"], vec![abs(a), abs(b)])),
        Act::RemoveFile(p) => (format!("remove_file({p})"), call(&fns.map["remove_file"], vec![abs(p)])),
        Act::RemoveDir(p) => (format!("remove_dir({p})"), call(&fns.map["remove_dir"], vec![abs(p)])),
        Act::RemoveDirAll(p) => (format!("remove_dir_all({p})"), call(&fns.map["remove_dir_all"], vec![abs(p)])),
        Act::CreateDir(p) => (format!("create_dir({p})"), call(&fns.map["create_dir"], vec![abs(p)])),
        Act::CreateDirAll(p) => (format!("create_dir_all({p})"), call(&fns.map["create_dir_all"], vec![abs(p)])),
        Act::Rename(a, b) => (format!("rename({a}, {b})"), call(&fns.map["rename"], vec![abs(a), abs(b)])),
    }
}

fn error_struct_ty() -> Ty {
    Ty::strukt(&[("error_code", Ty::Int), ("msg", Ty::Str)])
}

pub fn explore(thorough: bool) -> FsResult {
    let exports = crate::props::c18::exports();
    let mut map = BTreeMap::new();
    for name in ["file_read_to_string", "write_to_file", "copy_file", "remove_file", "remove_dir", "remove_dir_all", "create_dir", "create_dir_all", "rename"] {
        if let Some((_, Variable::Function(f))) = exports.iter().find(|(p, _)| p == &format!("std.fs.{name}")) {
            map.insert(name, f.clone());
        }
    }
    let mut violations = Vec::new();
    if map.len() != 9 {
        violations.push(Violation {
            sig: "C18|fs|export-missing".into(),
            detail: json!({"kind": "stdlib", "found": map.keys().collect::<Vec<_>>()}),
        });
        return FsResult { states: 0, transitions: 0, faults: 0, violations, sample: json!(null) };
    }
    let fns = Fns { map };
    let root: PathBuf = crate::report::verif_root().join("harness/target/scratch").join(format!("fs-{}", std::process::id()));
    let acts = all_actions();
    let max_depth = if thorough { 6 } else { 4 };
    let mut seen: BTreeSet<Tree> = BTreeSet::new();
    let mut frontier: VecDeque<(Tree, usize)> = VecDeque::new();
    // several initial states (not only the empty directory)
    let mut inits: Vec<Tree> = vec![Tree::new()];
    let mut t = Tree::new();
    t.insert("a".into(), Node::Dir);
    t.insert("a/c".into(), Node::File("x".into()));
    t.insert("b".into(), Node::File("y".into()));
    inits.push(t);
    for t in inits {
        seen.insert(t.clone());
        frontier.push_back((t, 0));
    }
    let mut transitions = 0u64;
    let mut sample = json!(null);
    while let Some((state, depth)) = frontier.pop_front() {
        for act in &acts {
            transitions += 1;
            materialise(&root, &state);
            let (label, got) = run_action(&fns, &root, act);
            let real = read_tree(&root);
            let (want, next) = model(&state, act);
            let got_class = match &got {
                Ok(v) if belongs(v, &error_struct_ty()) => Res::Err,
                Ok(v) => Res::Ok(canon(v)),
                Err(e) => {
                    violations.push(Violation {
                        sig: format!("C18|fs|raised-or-panicked|{}", label.split('(').next().unwrap()),
                        detail: json!({"kind": "fs", "state": tree_text(&state), "action": label, "observed": e}),
                    });
                    continue;
                }
            };
            let next = if want == Res::Either { real.clone() } else { next };
            if want != Res::Either && got_class != want {
                violations.push(Violation {
                    sig: format!("C18|fs|wrong-result|{}|expected={}", label.split('(').next().unwrap(), if want == Res::Err { "error-struct" } else { "success" }),
                    detail: json!({"kind": "fs", "state": tree_text(&state), "action": label, "expected": format!("{want:?}"), "observed": format!("{got_class:?}")}),
                });
            }
            if want != Res::Either && real != next {
                violations.push(Violation {
                    sig: format!("C18|fs|tree-differs-from-model|{}", label.split('(').next().unwrap()),
                    detail: json!({"kind": "fs", "state": tree_text(&state), "action": label, "expected_tree": tree_text(&next), "observed_tree": tree_text(&real)}),
                });
            }
            if sample.is_null() && want != Res::Err && !state.is_empty() {
                sample = json!({"state": tree_text(&state), "action": label, "result": format!("{got_class:?}"), "next": tree_text(&next)});
            }
            let representable = next.keys().all(|k| PATHS.contains(&k.as_str()));
            if representable && depth + 1 <= max_depth && seen.insert(next.clone()) {
                frontier.push_back((next, depth + 1));
            }
        }
    }
    // fault paths: never raise, always the documented error struct
    let mut faults = 0u64;
    materialise(&root, &Tree::new());
    let long = "n".repeat(300);
    let fault_args: Vec<(&str, Vec<String>)> = vec![
        ("file_read_to_string", vec!["a\u{0}b".into()]),
        ("write_to_file", vec!["a\u{0}b".into(), "w".into()]),
        ("create_dir", vec!["a\u{0}b".into()]),
        ("remove_file", vec!["\u{0}".into()]),
        ("rename", vec!["a\u{0}".into(), "b".into()]),
        ("copy_file", vec!["a".into(), "b\u{0}".into()]),
        ("file_read_to_string", vec![root.join(&long).to_string_lossy().to_string()]),
        ("write_to_file", vec![root.join(&long).to_string_lossy().to_string(), "w".into()]),
        ("create_dir", vec![root.join(&long).to_string_lossy().to_string()]),
        ("create_dir_all", vec![root.join(&long).join("x").to_string_lossy().to_string()]),
        ("write_to_file", vec!["/proc/sslverif_no_such_entry".into(), "w".into()]),
        ("create_dir", vec!["/proc/sslverif_no_such_dir".into()]),
        ("remove_file", vec!["/proc/version".into()]),
        ("remove_dir", vec!["/proc".into()]),
        ("rename", vec!["/proc/version".into(), root.join("v").to_string_lossy().to_string()]),
        ("file_read_to_string", vec!["".into()]),
        ("write_to_file", vec!["".into(), "w".into()]),
        ("create_dir", vec!["".into()]),
        ("remove_dir_all", vec!["".into()]),
        ("file_read_to_string", vec![root.to_string_lossy().to_string()]),
        ("copy_file", vec![root.join("missing").to_string_lossy().to_string(), root.join("t").to_string_lossy().to_string()]),
    ];
    let mut fault_args = fault_args;
    // failures of the write itself, after the target was opened successfully (a device that is full)
    if std::path::Path::new("/dev/full").exists() {
        for len in [1usize, 5, 4096, 8191, 8192, 8193, 100_000] {
            fault_args.push(("write_to_file", vec!["/dev/full".into(), "x".repeat(len)]));
        }
        let src = root.join("copy_source.txt");
        let _ = std::fs::write(&src, "some contents");
        fault_args.push(("copy_file", vec![src.to_string_lossy().to_string(), "/dev/full".into()]));
    }
    for (name, args) in fault_args {
        faults += 1;
        let shown: Vec<String> = args.iter().map(|a| if a.len() > 60 { format!("{}…", &a[..40]) } else { a.clone() }).collect();
        match call(&fns.map[name], args) {
            Ok(v) if belongs(&v, &error_struct_ty()) => {}
            Ok(v) => violations.push(Violation {
                sig: format!("C18|fs|fault-not-reported|{name}"),
                detail: json!({"kind": "fs_fault", "function": name, "args": shown, "observed": canon(&v)}),
            }),
            Err(e) => violations.push(Violation {
                sig: format!("C18|fs|fault-raised-or-panicked|{name}"),
                detail: json!({"kind": "fs_fault", "function": name, "args": shown, "observed": e}),
            }),
        }
    }
    let _ = std::fs::remove_dir_all(&root);
    FsResult { states: seen.len() as u64, transitions, faults, violations, sample }
}
