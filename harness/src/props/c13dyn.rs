//! C13, second model: the aliasing graph itself changes. Names are re-bound to
//! existing cells (`x := y`), to fresh cells (`x := mut *y`), cells are copied into
//! tuples, destructured out of them and captured by closures; writes go through
//! every path. Breadth-first search over action histories: a state is the reference
//! heap (cell contents + which cell every name / tuple slot / closure holds),
//! canonicalised by renumbering the reachable cells; every transition runs the whole
//! history on the real interpreter and compares the step result, the contents seen
//! through every path and the identity relations (`==` on cells) with the reference.
use crate::core::{self, guard, par_fold, Stop};
use crate::report::Violation;
use crate::val::canon;
use serde_json::json;
use simplesl::variable::{Mut, Type, Variable};
use simplesl::{verif, Code, Interpreter};
use std::collections::BTreeSet;
use std::sync::Arc;

#[derive(Clone, Debug, PartialEq, Eq, PartialOrd, Ord, Hash)]
struct Heap {
    /// contents; cell 0 is c1 (created by the host)
    cells: Vec<i64>,
    x: usize,
    y: usize,
    p0: usize,
    p1: usize,
    /// the cell the closure h captured
    h: usize,
}

const SETUP: &str = "x := c1; y := mut 5; p := (x, y); h := () -> int { x += 100; return *x };";
const OBSERVE: &str = "(*c1, *x, *y, *(p.0), *(p.1), x == c1, x == y, y == c1, p.0 == x, p.1 == y, p.0 == p.1)";

fn initial() -> Heap {
    Heap { cells: vec![0, 5], x: 0, y: 1, p0: 0, p1: 1, h: 0 }
}

/// (statement text, is an expression with a result)
const ACTIONS: &[(&str, bool)] = &[
    ("x = 1", true),
    ("x += 2", true),
    ("y = 3", true),
    ("y *= 2", true),
    ("c1 -= 1", true),
    ("c1 = 9", true),
    ("x := c1", false),
    ("x := y", false),
    ("y := x", false),
    ("x := mut *y", false),
    ("y := mut 7", false),
    ("p := (x, y)", false),
    ("p.0 += 1", true),
    ("p.1 = 4", true),
    ("h := () -> int { x += 100; return *x }", false),
    ("h()", true),
    ("(q, w) := p; q += 1; w -= 1", false),
    ("t := *x; x = *y; y = t", false),
    ("*x + *y", true),
];

/// reference semantics of one action: new heap and the result dump (for expressions)
fn apply(s: &Heap, a: usize) -> (Heap, Option<String>) {
    let mut n = s.clone();
    let mut res = None;
    match a {
        0 => {
            n.cells[s.x] = 1;
            res = Some(1);
        }
        1 => {
            n.cells[s.x] = s.cells[s.x].wrapping_add(2);
            res = Some(n.cells[s.x]);
        }
        2 => {
            n.cells[s.y] = 3;
            res = Some(3);
        }
        3 => {
            n.cells[s.y] = s.cells[s.y].wrapping_mul(2);
            res = Some(n.cells[s.y]);
        }
        4 => {
            n.cells[0] = s.cells[0].wrapping_sub(1);
            res = Some(n.cells[0]);
        }
        5 => {
            n.cells[0] = 9;
            res = Some(9);
        }
        6 => n.x = 0,
        7 => n.x = s.y,
        8 => n.y = s.x,
        9 => {
            n.cells.push(s.cells[s.y]);
            n.x = n.cells.len() - 1;
        }
        10 => {
            n.cells.push(7);
            n.y = n.cells.len() - 1;
        }
        11 => {
            n.p0 = s.x;
            n.p1 = s.y;
        }
        12 => {
            n.cells[s.p0] = s.cells[s.p0].wrapping_add(1);
            res = Some(n.cells[s.p0]);
        }
        13 => {
            n.cells[s.p1] = 4;
            res = Some(4);
        }
        14 => n.h = s.x,
        15 => {
            n.cells[s.h] = s.cells[s.h].wrapping_add(100);
            res = Some(n.cells[s.h]);
        }
        16 => {
            n.cells[s.p0] = n.cells[s.p0].wrapping_add(1);
            n.cells[s.p1] = n.cells[s.p1].wrapping_sub(1);
        }
        17 => {
            let t = s.cells[s.x];
            n.cells[s.x] = s.cells[s.y];
            // y may be the same cell as x: the second store wins
            n.cells[s.y] = t;
        }
        18 => res = Some(s.cells[s.x].wrapping_add(s.cells[s.y])),
        _ => unreachable!(),
    }
    (canonical(&n), res.map(|v| v.to_string()))
}

/// renumbers the cells reachable from (c1, x, y, p.0, p.1, h) in that order and drops the rest:
/// an unreachable cell can never be read or written again, so merged states have the same futures
fn canonical(s: &Heap) -> Heap {
    let roots = [0, s.x, s.y, s.p0, s.p1, s.h];
    let mut map: Vec<Option<usize>> = vec![None; s.cells.len()];
    let mut cells = Vec::new();
    for r in roots {
        if map[r].is_none() {
            map[r] = Some(cells.len());
            cells.push(s.cells[r]);
        }
    }
    let m = |i: usize| map[i].unwrap();
    Heap { cells, x: m(s.x), y: m(s.y), p0: m(s.p0), p1: m(s.p1), h: m(s.h) }
}

fn observation(s: &Heap) -> String {
    let c = |i: usize| s.cells[i];
    format!(
        "({}, {}, {}, {}, {}, {}, {}, {}, {}, {}, {})",
        c(0),
        c(s.x),
        c(s.y),
        c(s.p0),
        c(s.p1),
        s.x == 0,
        s.x == s.y,
        s.y == 0,
        s.p0 == s.x,
        s.p1 == s.y,
        s.p0 == s.p1
    )
}

enum Got {
    Ran { result: String, observed: String, c1: String },
    Other(String),
    Exhausted,
}

fn run_impl(history: &[u8]) -> (String, Got) {
    let mut body = String::from(SETUP);
    let mut last_result = "()".to_string();
    for (k, &a) in history.iter().enumerate() {
        let (text, is_expr) = ACTIONS[a as usize];
        if is_expr {
            body.push_str(&format!(" r{k} := ({text});"));
            last_result = format!("r{k}");
        } else {
            body.push_str(&format!(" {text};"));
            last_result = "()".into();
        }
    }
    let text = format!("run := (c1: mut int) -> any {{ {body} return ({last_result}, {OBSERVE}) }}");
    verif::set_fuel(Some(core::QUICK_FUEL), Some(core::DEPTH));
    let interp = Interpreter::with_stdlib();
    let got = (|| {
        let code = match guard(|| Code::parse(&interp, &text)) {
            Ok(Ok(c)) => c,
            Ok(Err(e)) => return Got::Other(format!("rejected:{}", core::error_kind(&e))),
            Err(Stop::Panic(p)) => return Got::Other(format!("PANIC parse {} @{}", p.short_msg(), p.file())),
            Err(Stop::Exhausted) => return Got::Exhausted,
        };
        let f = match guard(|| code.exec()) {
            Ok(Ok(Variable::Function(f))) => f,
            _ => return Got::Other("define failed".into()),
        };
        let c1 = Arc::new(Mut { var_type: Type::Int, variable: Variable::Int(0).into() });
        let call = match guard(|| f.clone().create_call(vec![Variable::Mut(c1.clone())])) {
            Ok(Ok(c)) => c,
            _ => return Got::Other("create_call failed".into()),
        };
        match guard(|| call.exec()) {
            Ok(Ok(Variable::Tuple(t))) if t.len() == 2 => Got::Ran {
                result: canon(&t[0]),
                observed: canon(&t[1]),
                c1: c1.variable.read().map(|g| canon(&g)).unwrap_or_else(|_| "<poisoned>".into()),
            },
            Ok(Ok(v)) => Got::Other(format!("unexpected value {}", canon(&v))),
            Ok(Err(e)) => Got::Other(format!("error:{}", core::exec_error_kind(&e))),
            Err(Stop::Panic(p)) => Got::Other(format!("PANIC exec {} @{}", p.short_msg(), p.file())),
            Err(Stop::Exhausted) => Got::Exhausted,
        }
    })();
    verif::set_fuel(None, None);
    (text, got)
}

/// The same history as a REPL session: the setup and every action are separate inputs, each
/// parsed against the interpreter that holds the cells made by earlier inputs (names bound there
/// are values the parser sees), each input ending with the observation - so writes and reads
/// through names of an earlier input stand in one input.
fn run_repl(history: &[u8]) -> (Vec<String>, Got) {
    verif::set_fuel(Some(core::QUICK_FUEL), Some(core::DEPTH));
    let mut interp = Interpreter::with_stdlib();
    let mut inputs = vec![format!("c1 := mut 0; {SETUP} ()")];
    for &a in history {
        let (text, is_expr) = ACTIONS[a as usize];
        inputs.push(if is_expr { format!("r := ({text}); (r, {OBSERVE})") } else { format!("{text}; ((), {OBSERVE})") });
    }
    let got = (|| {
        let mut last = Variable::Void;
        for input in &inputs {
            let code = match guard(|| Code::parse(&interp, input)) {
                Ok(Ok(c)) => c,
                Ok(Err(e)) => return Got::Other(format!("rejected:{}", core::error_kind(&e))),
                Err(Stop::Panic(p)) => return Got::Other(format!("PANIC parse {} @{}", p.short_msg(), p.file())),
                Err(Stop::Exhausted) => return Got::Exhausted,
            };
            last = match guard(|| code.exec_unscoped(&mut interp)) {
                Ok(Ok(v)) => v,
                Ok(Err(e)) => return Got::Other(format!("error:{}", core::exec_error_kind(&e))),
                Err(Stop::Panic(p)) => return Got::Other(format!("PANIC exec {} @{}", p.short_msg(), p.file())),
                Err(Stop::Exhausted) => return Got::Exhausted,
            };
        }
        let c1 = match interp.get_variable("c1") {
            Some(Variable::Mut(m)) => m.variable.read().map(|g| canon(&g)).unwrap_or_else(|_| "<poisoned>".into()),
            _ => "<c1 is not a cell>".into(),
        };
        match last {
            Variable::Tuple(t) if t.len() == 2 => Got::Ran { result: canon(&t[0]), observed: canon(&t[1]), c1 },
            v => Got::Other(format!("unexpected value {}", canon(&v))),
        }
    })();
    verif::set_fuel(None, None);
    (inputs, got)
}

pub struct Stats {
    pub states: u64,
    pub transitions: u64,
    pub depth: usize,
    pub actions: usize,
    pub distinct_observations: usize,
    pub max_cells: usize,
}

pub fn explore(depth: usize) -> (Stats, Vec<Violation>) {
    // frontier: (state, one history reaching it)
    let mut seen: BTreeSet<Heap> = BTreeSet::new();
    let init = canonical(&initial());
    seen.insert(init.clone());
    let mut frontier: Vec<(Heap, Vec<u8>)> = vec![(init, vec![])];
    let mut violations = Vec::new();
    let mut transitions = 0u64;
    let mut observations: BTreeSet<String> = BTreeSet::new();
    let mut max_cells = 0usize;
    for _level in 0..depth {
        let n = frontier.len() * ACTIONS.len();
        let results = par_fold(
            n,
            Vec::<(usize, usize, Heap, Option<Violation>, String)>::new,
            |acc, idx| {
                let (si, a) = (idx / ACTIONS.len(), idx % ACTIONS.len());
                let (state, hist) = &frontier[si];
                let (next, want_res) = apply(state, a);
                let mut history = hist.clone();
                history.push(a as u8);
                let (text, got) = run_impl(&history);
                let want_obs = observation(&next);
                let want_r = want_res.unwrap_or_else(|| "()".into());
                let want_c1 = next.cells[0].to_string();
                let hist_text: Vec<&str> = history.iter().map(|&i| ACTIONS[i as usize].0).collect();
                let v = match got {
                    Got::Exhausted => None,
                    Got::Ran { result, observed, c1 } => {
                        if result != want_r || observed != want_obs || c1 != want_c1 {
                            let what = if observed != want_obs { "aliasing-or-content-differs" } else if result != want_r { "wrong-result-of-step" } else { "host-cell-differs" };
                            Some(Violation {
                                sig: format!("C13|dynamic-aliasing|{what}|action={}", ACTIONS[a].0),
                                detail: json!({"kind": "host_call", "program": text, "args": ["mut 0 (a cell created by the host)"], "history": hist_text, "expected": format!("({want_r}, {want_obs}); c1 = {want_c1}"), "observed": format!("({result}, {observed}); c1 = {c1}")}),
                            })
                        } else {
                            None
                        }
                    }
                    Got::Other(o) => Some(Violation {
                        sig: format!("C13|dynamic-aliasing|history-does-not-run|action={}|{}", ACTIONS[a].0, o.chars().take(40).collect::<String>()),
                        detail: json!({"kind": "host_call", "program": text, "history": hist_text, "observed": o}),
                    }),
                };
                // second route: the history as a REPL session
                let v = v.or_else(|| {
                    let (inputs, got) = run_repl(&history);
                    match got {
                        Got::Exhausted => None,
                        Got::Ran { result, observed, c1 } => (result != want_r || observed != want_obs || c1 != want_c1).then(|| Violation {
                            sig: format!("C13|dynamic-aliasing|repl-session-differs|action={}", ACTIONS[a].0),
                            detail: json!({"kind": "repl", "groups": inputs, "expected": format!("({want_r}, {want_obs}); c1 = {want_c1}"), "observed": format!("({result}, {observed}); c1 = {c1}")}),
                        }),
                        Got::Other(o) => Some(Violation {
                            sig: format!("C13|dynamic-aliasing|repl-session-does-not-run|action={}|{}", ACTIONS[a].0, o.chars().take(40).collect::<String>()),
                            detail: json!({"kind": "repl", "groups": inputs, "observed": o}),
                        }),
                    }
                });
                acc.push((si, a, next, v, want_obs));
            },
        );
        let mut next_frontier: Vec<(Heap, Vec<u8>)> = Vec::new();
        let mut all: Vec<(usize, usize, Heap, Option<Violation>, String)> = results.into_iter().flatten().collect();
        all.sort_by_key(|r| (r.0, r.1));
        for (si, a, next, v, obs) in all {
            transitions += 1;
            observations.insert(obs);
            max_cells = max_cells.max(next.cells.len());
            if let Some(v) = v {
                violations.push(v);
                continue; // do not search on from a state the implementation does not agree with
            }
            if seen.insert(next.clone()) {
                let mut h = frontier[si].1.clone();
                h.push(a as u8);
                next_frontier.push((next, h));
            }
        }
        frontier = next_frontier;
    }
    (
        Stats { states: seen.len() as u64, transitions, depth, actions: ACTIONS.len(), distinct_observations: observations.len(), max_cells },
        violations,
    )
}
