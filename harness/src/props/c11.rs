//! C11 — iterator operators equal their sequence definitions, with event traces:
//! each source element pulled exactly once and in order, `@` / `?` lazy, callbacks
//! applied exactly once per element they must examine.
use crate::core::{self, guard, par_fold, Stop};
use crate::report::{Report, Samples, Violation};
use crate::val::canon;
use serde_json::json;
use std::collections::BTreeSet;

#[derive(Clone, Debug, PartialEq)]
enum V {
    I(i64),
    B(bool),
    S(&'static str),
}

impl V {
    fn lit(&self) -> String {
        match self {
            V::I(i) => i.to_string(),
            V::B(b) => b.to_string(),
            V::S(s) => format!("{s:?}"),
        }
    }
    fn canon(&self) -> String {
        self.lit()
    }
}

#[derive(Clone, Debug)]
enum Source {
    /// user-written counting closure yielding 1..=n, logging 100+i on the i-th pull
    Counter(i64),
    Array(Vec<V>),
    /// user-written closure over an int array, logging 100+i on the i-th pull
    Logged(Vec<i64>),
}

#[derive(Clone, Copy, Debug, PartialEq)]
enum Stage {
    MapAdd10,   // f1: logs 200+x, x+10
    MapDouble,  // f2: logs 200+x, x*2
    FilterGt1,  // p1: logs 300+x, x > 1
    FilterEven, // p2: logs 300+x, x % 2 == 0
    MapToBool,  // b1: logs 500+x, x > 1
    TypeInt,
    TypeString,
    TypeIntBool,
    /// `$] ~`: collected (everything upstream is pulled when this stage is built), then enumerated
    Snapshot,
}

#[derive(Clone, Copy, Debug, PartialEq)]
enum Consumer {
    Collect,
    PartitionGt1,
    ReduceG,
    /// the folding function is the result of an effectful expression: evaluated once, before the first pull
    ReduceFactory,
    /// the fold stands in a function that captured the iterator and the folding function by
    /// name; nothing is pulled when the function is created, it is called twice
    ReduceCapturedTwice,
    Sum,
    Product,
    BitAnd,
    BitOr,
    All,
    Any,
    For,
    /// `for` whose body has no effect (empty, a constant), skips (`continue`) or stops (`break`):
    /// the elements are pulled all the same, resp. exactly one is
    ForEmptyBody,
    ForConstantBody,
    ForContinue,
    ForBreak,
    Manual,
}

const PRELUDE: &str = "log := mut [int] [];
counter := (n: int) -> () -> (bool, int) { i := mut 0; return () -> (bool, int) { log += [100 + *i]; if *i < n { i += 1; return (true, *i) }; return (false, 0) } };
lsrc := (a: [int]) -> () -> (bool, int) { i := mut 0; return () -> (bool, int) { log += [100 + *i]; if *i < std.len(a) { i += 1; return (true, a[*i - 1]) }; return (false, 0) } };
f1 := (x: int) -> int { log += [200 + x]; return x + 10 };
f2 := (x: int) -> int { log += [200 + x]; return x * 2 };
p1 := (x: int) -> bool { log += [300 + x]; return x > 1 };
p2 := (x: int) -> bool { log += [300 + x]; return x % 2 == 0 };
b1 := (x: int) -> bool { log += [500 + x]; return x > 1 };
g := (acc: int, x: int) -> int { log += [400 + x]; return acc * 10 + x };
q1 := (x: int) -> bool { log += [600 + x]; return x > 1 };
";

/// pull-based reference of a pipeline, with the event log
struct RefIter {
    source: Source,
    pos: usize,
    stages: Vec<Stage>,
    /// per level: the array a Snapshot stage collected when it was built, and the read position
    snapshots: Vec<Option<(Vec<V>, usize)>>,
}

impl RefIter {
    fn pull_source(&mut self, log: &mut Vec<i64>) -> Option<V> {
        match &self.source {
            Source::Counter(n) => {
                log.push(100 + self.pos.min(*n as usize) as i64);
                if (self.pos as i64) < *n {
                    self.pos += 1;
                    Some(V::I(self.pos as i64))
                } else {
                    None
                }
            }
            Source::Array(a) => {
                if self.pos < a.len() {
                    self.pos += 1;
                    Some(a[self.pos - 1].clone())
                } else {
                    None
                }
            }
            Source::Logged(a) => {
                log.push(100 + self.pos.min(a.len()) as i64);
                if self.pos < a.len() {
                    self.pos += 1;
                    Some(V::I(a[self.pos - 1]))
                } else {
                    None
                }
            }
        }
    }

    /// pulls stage `level` (0 = source, stages.len() = the whole pipeline)
    fn pull_level(&mut self, level: usize, log: &mut Vec<i64>) -> Option<V> {
        if level == 0 {
            return self.pull_source(log);
        }
        let stage = self.stages[level - 1];
        match stage {
            Stage::MapAdd10 | Stage::MapDouble | Stage::MapToBool => {
                let x = self.pull_level(level - 1, log)?;
                let V::I(i) = x else { unreachable!() };
                Some(match stage {
                    Stage::MapAdd10 => {
                        log.push(200 + i);
                        V::I(i + 10)
                    }
                    Stage::MapDouble => {
                        log.push(200 + i);
                        V::I(i * 2)
                    }
                    _ => {
                        log.push(500 + i);
                        V::B(i > 1)
                    }
                })
            }
            Stage::FilterGt1 | Stage::FilterEven => loop {
                let x = self.pull_level(level - 1, log)?;
                let V::I(i) = x else { unreachable!() };
                log.push(300 + i);
                let keep = if stage == Stage::FilterGt1 { i > 1 } else { i % 2 == 0 };
                if keep {
                    return Some(V::I(i));
                }
            },
            Stage::Snapshot => {
                let (buf, pos) = self.snapshots[level].as_mut().expect("snapshot stage built");
                if *pos < buf.len() {
                    *pos += 1;
                    Some(buf[*pos - 1].clone())
                } else {
                    None
                }
            }
            Stage::TypeInt | Stage::TypeString | Stage::TypeIntBool => loop {
                let x = self.pull_level(level - 1, log)?;
                let keep = match (&x, stage) {
                    (V::I(_), Stage::TypeInt) | (V::I(_), Stage::TypeIntBool) | (V::B(_), Stage::TypeIntBool) | (V::S(_), Stage::TypeString) => true,
                    _ => false,
                };
                if keep {
                    return Some(x);
                }
            },
        }
    }

    fn pull(&mut self, log: &mut Vec<i64>) -> Option<V> {
        let n = self.stages.len();
        self.pull_level(n, log)
    }
}

fn list(xs: &[V]) -> String {
    format!("[{}]", xs.iter().map(V::canon).collect::<Vec<_>>().join(", "))
}

/// expected (result dump, log) by the sequence definitions
fn reference(source: &Source, stages: &[Stage], consumer: Consumer, pulls: usize) -> (String, Vec<i64>) {
    let mut it = RefIter { source: source.clone(), pos: 0, stages: stages.to_vec(), snapshots: vec![None; stages.len() + 1] };
    let mut log = Vec::new();
    // the stages are built in order; building a Snapshot stage drains everything below it
    for level in 1..=stages.len() {
        if stages[level - 1] == Stage::Snapshot {
            let mut buf = Vec::new();
            while let Some(x) = it.pull_level(level - 1, &mut log) {
                buf.push(x);
            }
            it.snapshots[level] = Some((buf, 0));
        }
    }
    let int_of = |v: &V| if let V::I(i) = v { *i } else { unreachable!() };
    let result = match consumer {
        Consumer::Collect => {
            let mut out = Vec::new();
            while let Some(x) = it.pull(&mut log) {
                out.push(x);
            }
            list(&out)
        }
        Consumer::PartitionGt1 => {
            let (mut l, mut r) = (Vec::new(), Vec::new());
            while let Some(x) = it.pull(&mut log) {
                let i = int_of(&x);
                log.push(600 + i);
                if i > 1 {
                    l.push(x)
                } else {
                    r.push(x)
                }
            }
            format!("({}, {})", list(&l), list(&r))
        }
        Consumer::ReduceG => {
            let mut acc: i64 = 0;
            while let Some(x) = it.pull(&mut log) {
                let i = int_of(&x);
                log.push(400 + i);
                acc = acc.wrapping_mul(10).wrapping_add(i);
            }
            acc.to_string()
        }
        Consumer::ReduceCapturedTwice => {
            let before = log.len();
            let mut folds = Vec::new();
            for _ in 0..2 {
                let mut acc: i64 = 0;
                while let Some(x) = it.pull(&mut log) {
                    let i = int_of(&x);
                    log.push(400 + i);
                    acc = acc.wrapping_mul(10).wrapping_add(i);
                }
                folds.push(acc);
            }
            format!("({before}, {}, {})", folds[0], folds[1])
        }
        Consumer::ReduceFactory => {
            log.push(700);
            let mut acc: i64 = 0;
            while let Some(x) = it.pull(&mut log) {
                let i = int_of(&x);
                log.push(400 + i);
                acc = acc.wrapping_mul(10).wrapping_add(i);
            }
            acc.to_string()
        }
        Consumer::Sum | Consumer::Product | Consumer::BitAnd | Consumer::BitOr => {
            let mut acc: i64 = match consumer {
                Consumer::Sum => 0,
                Consumer::Product => 1,
                Consumer::BitAnd => -1,
                _ => 0,
            };
            while let Some(x) = it.pull(&mut log) {
                let i = int_of(&x);
                acc = match consumer {
                    Consumer::Sum => acc.wrapping_add(i),
                    Consumer::Product => acc.wrapping_mul(i),
                    Consumer::BitAnd => acc & i,
                    _ => acc | i,
                };
            }
            acc.to_string()
        }
        Consumer::All | Consumer::Any => {
            // stops at the first deciding element
            let mut res = consumer == Consumer::All;
            while let Some(x) = it.pull(&mut log) {
                let V::B(b) = x else { unreachable!() };
                if consumer == Consumer::All && !b {
                    res = false;
                    break;
                }
                if consumer == Consumer::Any && b {
                    res = true;
                    break;
                }
            }
            res.to_string()
        }
        Consumer::For => {
            let mut out = Vec::new();
            while let Some(x) = it.pull(&mut log) {
                out.push(x);
            }
            list(&out)
        }
        Consumer::ForEmptyBody | Consumer::ForConstantBody | Consumer::ForContinue => {
            while it.pull(&mut log).is_some() {}
            "()".to_string()
        }
        Consumer::ForBreak => {
            let _ = it.pull(&mut log);
            "()".to_string()
        }
        Consumer::Manual => {
            // k pulls; the value after exhaustion is not compared (left to C01)
            let mut out = Vec::new();
            for _ in 0..pulls {
                match it.pull(&mut log) {
                    Some(x) => out.push(format!("(true, {})", x.canon())),
                    None => out.push("(false, _)".into()),
                }
            }
            format!("({})", out.join(", "))
        }
    };
    let result = if consumer == Consumer::Manual && pulls == 1 { format!("({result}, 0)") } else { result };
    // what the consumer left in the source (nothing, unless it may stop early)
    let mut rest = Vec::new();
    while let Some(x) = it.pull_level(0, &mut log) {
        rest.push(x);
    }
    (format!("({result}, {})", list(&rest)), log)
}

fn source_text(s: &Source) -> String {
    match s {
        Source::Counter(n) => format!("counter({n})"),
        Source::Array(a) => format!("[{}]~", a.iter().map(V::lit).collect::<Vec<_>>().join(", ")),
        Source::Logged(a) => format!("lsrc([{}])", a.iter().map(|i| i.to_string()).collect::<Vec<_>>().join(", ")),
    }
}

fn stage_text(s: Stage) -> &'static str {
    match s {
        Stage::MapAdd10 => " @ f1",
        Stage::MapDouble => " @ f2",
        Stage::FilterGt1 => " ? p1",
        Stage::FilterEven => " ? p2",
        Stage::MapToBool => " @ b1",
        Stage::TypeInt => " ? int",
        Stage::TypeString => " ? string",
        Stage::TypeIntBool => " ? int | bool",
        Stage::Snapshot => " $] ~",
    }
}

fn program(source: &Source, stages: &[Stage], consumer: Consumer, pulls: usize, twice: bool) -> String {
    program_in(source, stages, consumer, pulls, twice, 0)
}

/// form 0: every stage bound to a name, the source drained at the end (what `reference` models);
/// form 1: the same without the final drain; form 2: the whole pipeline written in place, as one
/// expression where the consumer stands (forms 1 and 2 must agree: naming a stage changes nothing)
fn program_in(source: &Source, stages: &[Stage], consumer: Consumer, pulls: usize, twice: bool, form: u8) -> String {
    // every stage is bound to a name so that `? T` (which binds tighter) and the others compose as written
    let mut text = String::from(PRELUDE);
    if twice {
        text.push_str("once := () -> any {\n");
    }
    let it = if form == 2 {
        let mut e = source_text(source);
        for st in stages {
            e = format!("({e}{})", stage_text(*st));
        }
        e
    } else {
        text.push_str(&format!("s0 := {};\n", source_text(source)));
        for (i, st) in stages.iter().enumerate() {
            text.push_str(&format!("s{} := s{}{};\n", i + 1, i, stage_text(*st)));
        }
        format!("s{}", stages.len())
    };
    let body = match consumer {
        Consumer::Collect => format!("r := {it} $];"),
        Consumer::PartitionGt1 => format!("r := {it} \\ q1;"),
        Consumer::ReduceG => format!("r := {it} $ 0 g;"),
        Consumer::Sum => format!("r := {it} $+;"),
        Consumer::Product => format!("r := {it} $*;"),
        Consumer::BitAnd => format!("r := {it} $&;"),
        Consumer::BitOr => format!("r := {it} $|;"),
        Consumer::All => format!("r := {it} $&&;"),
        Consumer::Any => format!("r := {it} $||;"),
        Consumer::For => format!("acc := mut [any] []; for x in {it} {{ acc += [x] }}; r := *acc;"),
        Consumer::ReduceCapturedTwice => format!("it0 := {it}; h := () -> int {{ return it0 $ 0 g }}; n0 := std.len(*log); a := h(); b := h(); r := (n0, a, b);"),
        Consumer::ReduceFactory => format!("mkg := () -> (int, int) -> int {{ log += [700]; return g }}; r := {it} $ 0 mkg();"),
        Consumer::ForEmptyBody => format!("for x in {it} {{ }}; r := ();"),
        Consumer::ForConstantBody => format!("for x in {it} {{ 1; \"two\" }}; r := ();"),
        Consumer::ForContinue => format!("for x in {it} {{ continue }}; r := ();"),
        Consumer::ForBreak => format!("for x in {it} {{ break }}; r := ();"),
        Consumer::Manual => {
            let calls: Vec<String> = (0..pulls).map(|_| format!("{it}()")).collect();
            if pulls == 1 {
                format!("r := ({}, 0);", calls[0])
            } else {
                format!("r := ({});", calls.join(", "))
            }
        }
    };
    text.push_str(&body);
    // then drain the source: only a consumer that may stop early leaves anything in it
    if form == 0 {
        text.push_str("\nr := (r, s0 $]);");
    }
    if twice {
        // the same function value evaluated twice, then the same loop body evaluated twice
        text.push_str("\nreturn r };\nr1 := once(); r2 := once();\nseen := mut [any] []; k := mut 0; while *k < 2 { k += 1; seen += [once()] };\n((r1, r2, *seen), *log)");
    } else {
        text.push_str("\n(r, *log)");
    }
    text
}

/// element alphabet of the int sources: the absorbing elements of `*` / `&` (0) and of `|` (-1)
/// are in it, so a reduction that stops at one of them leaves elements behind
const INTS: [i64; 4] = [0, 1, 2, -1];

struct Job {
    source: Source,
    stages: Vec<Stage>,
    consumer: Consumer,
    pulls: usize,
    /// evaluate the whole pipeline twice through one function value / loop body: the second
    /// evaluation must see a fresh iterator
    twice: bool,
}

fn jobs(thorough: bool) -> Vec<Job> {
    let mut out = Vec::new();
    let int_stages = [Stage::MapAdd10, Stage::MapDouble, Stage::FilterGt1, Stage::FilterEven];
    let mut pipelines: Vec<Vec<Stage>> = vec![vec![]];
    for a in int_stages {
        pipelines.push(vec![a]);
        for b in int_stages {
            pipelines.push(vec![a, b]);
            if thorough {
                for c in [Stage::MapAdd10, Stage::FilterEven] {
                    pipelines.push(vec![a, b, c]);
                }
            }
        }
    }
    // `$] ~` as a stage: alone, after and before each lazy stage
    pipelines.push(vec![Stage::Snapshot]);
    for a in int_stages {
        pipelines.push(vec![a, Stage::Snapshot]);
        pipelines.push(vec![Stage::Snapshot, a]);
        if thorough {
            pipelines.push(vec![a, Stage::Snapshot, a]);
        }
    }
    let mut sources: Vec<Source> = (0..=3).map(Source::Counter).collect();
    let max_len = 3;
    for len in 0..=max_len {
        let n = INTS.len().pow(len as u32);
        for k in 0..n {
            let mut kk = k;
            let a: Vec<V> = (0..len)
                .map(|_| {
                    let v = V::I(INTS[kk % INTS.len()]);
                    kk /= INTS.len();
                    v
                })
                .collect();
            sources.push(Source::Array(a));
        }
    }
    // the same sequences through a user-written source that logs every pull
    let logged_len = if thorough { 3 } else { 2 };
    for len in 0..=logged_len {
        let n = INTS.len().pow(len as u32);
        for k in 0..n {
            let mut kk = k;
            let a: Vec<i64> = (0..len)
                .map(|_| {
                    let v = INTS[kk % INTS.len()];
                    kk /= INTS.len();
                    v
                })
                .collect();
            sources.push(Source::Logged(a));
        }
    }
    let int_consumers = [
        Consumer::Collect, Consumer::PartitionGt1, Consumer::ReduceG, Consumer::ReduceFactory, Consumer::ReduceCapturedTwice, Consumer::Sum, Consumer::Product, Consumer::BitAnd,
        Consumer::BitOr, Consumer::For, Consumer::ForEmptyBody, Consumer::ForConstantBody, Consumer::ForContinue, Consumer::ForBreak, Consumer::Manual,
    ];
    for s in &sources {
        let n = match s {
            Source::Counter(n) => *n as usize,
            Source::Array(a) => a.len(),
            Source::Logged(a) => a.len(),
        };
        for p in &pipelines {
            for c in int_consumers {
                out.push(Job { source: s.clone(), stages: p.clone(), consumer: c, pulls: n + 2, twice: false });
                if matches!(s, Source::Array(_)) && p.len() <= 1 && c != Consumer::ReduceCapturedTwice {
                    out.push(Job { source: s.clone(), stages: p.clone(), consumer: c, pulls: n + 2, twice: true });
                }
            }
            // bool consumers need a bool iterator: map to bool as the last stage
            for c in [Consumer::All, Consumer::Any, Consumer::Collect, Consumer::Manual] {
                let mut st = p.clone();
                st.push(Stage::MapToBool);
                out.push(Job { source: s.clone(), stages: st, consumer: c, pulls: n + 2, twice: false });
            }
        }
    }
    // mixed arrays with type filters
    let alphabet = [V::I(1), V::I(2), V::S("s"), V::B(true)];
    let mixed_len = if thorough { 3 } else { 2 };
    for len in 0..=mixed_len {
        let n = alphabet.len().pow(len as u32);
        for k in 0..n {
            let mut kk = k;
            let a: Vec<V> = (0..len)
                .map(|_| {
                    let v = alphabet[kk % alphabet.len()].clone();
                    kk /= alphabet.len();
                    v
                })
                .collect();
            let s = Source::Array(a);
            for (tf, follow) in [
                (Stage::TypeInt, vec![vec![], vec![Stage::MapAdd10], vec![Stage::FilterGt1], vec![Stage::FilterEven, Stage::MapDouble]]),
                (Stage::TypeString, vec![vec![]]),
                (Stage::TypeIntBool, vec![vec![]]),
            ] {
                for f in follow {
                    let mut st = vec![tf];
                    st.extend(f);
                    for c in [Consumer::Collect, Consumer::For, Consumer::ForEmptyBody, Consumer::ForBreak, Consumer::Manual] {
                        out.push(Job { source: s.clone(), stages: st.clone(), consumer: c, pulls: len + 2, twice: false });
                    }
                    if tf == Stage::TypeInt {
                        for c in [Consumer::Sum, Consumer::ReduceG, Consumer::PartitionGt1] {
                            out.push(Job { source: s.clone(), stages: st.clone(), consumer: c, pulls: 0, twice: false });
                        }
                    }
                }
            }
            // plain collection / for over the mixed array itself
            for c in [Consumer::Collect, Consumer::For, Consumer::Manual] {
                out.push(Job { source: s.clone(), stages: vec![], consumer: c, pulls: len + 2, twice: true });
                out.push(Job { source: s.clone(), stages: vec![], consumer: c, pulls: len + 2, twice: false });
            }
        }
    }
    out
}

/// canonical dump with the second component of exhausted pulls masked
fn mask_exhausted(result: &str) -> String {
    // "(false, <anything up to the matching close>)" -> "(false, _)"
    let mut out = String::new();
    let cs: Vec<char> = result.chars().collect();
    let mut i = 0;
    while i < cs.len() {
        let rest: String = cs[i..].iter().take(8).collect();
        if rest == "(false, " {
            out.push_str("(false, _)");
            // skip to the matching ')'
            let mut depth = 0;
            while i < cs.len() {
                match cs[i] {
                    '(' | '[' => depth += 1,
                    ')' | ']' => {
                        depth -= 1;
                        if depth == 0 {
                            i += 1;
                            break;
                        }
                    }
                    _ => {}
                }
                i += 1;
            }
        } else {
            out.push(cs[i]);
            i += 1;
        }
    }
    out
}

#[derive(Default)]
struct Acc {
    programs: u64,
    events: u64,
    outcomes: BTreeSet<String>,
    violations: Vec<Violation>,
}

/// `$+` / `$*` over floats and `$+` over strings equal the documented left folds *exactly*: every
/// element sequence of length 0..=4 over float alphabets whose sums round, cancel, overflow or
/// underflow, compared bit for bit with Rust's left fold; through an array-derived iterator, a
/// user-written one, behind an `@` stage and through std.operators.
fn float_and_string_folds() -> (u64, Vec<Violation>) {
    use simplesl::variable::Variable;
    use simplesl::{Code, Interpreter};
    let alphabet: [f64; 9] = [0.1, 0.2, 0.3, 1e16, 1.0, -1e16, 1e308, -0.0, 0.5];
    let mut seqs: Vec<Vec<f64>> = vec![vec![]];
    let mut last: Vec<Vec<f64>> = vec![vec![]];
    for _ in 0..4 {
        let mut next = Vec::new();
        for s in &last {
            for a in alphabet {
                let mut t = s.clone();
                t.push(a);
                next.push(t);
            }
        }
        seqs.extend(next.iter().cloned());
        last = next;
    }
    seqs.push(vec![0.1; 10]);
    seqs.push(vec![1e308, 1e308, -1e308, -1e308]);
    seqs.push(vec![f64::INFINITY, 1.0, f64::NEG_INFINITY]);
    let interp = Interpreter::with_stdlib();
    let forms: Vec<(&str, &str)> = vec![
        ("array-iterator", "f := (a: [float]) -> any { return (a~ $+, a~ $*) }"),
        ("user-iterator", "f := (a: [float]) -> any { mk := () -> () -> (bool, float) { i := mut 0; return () -> (bool, float) { if *i < std.len(a) { i += 1; return (true, a[*i - 1]) }; return (false, 0.0) } }; return (mk() $+, mk() $*) }"),
        ("behind-map", "f := (a: [float]) -> any { id := (x: float) -> float { return x }; return (a~ @ id $+, a~ @ id $*) }"),
        ("std.operators", "f := (a: [float]) -> any { return (std.operators.float_sum(a~), std.operators.float_product(a~)) }"),
        // a source whose element type is a union with int, mapped into floats (first element 1 -> 1.0)
        ("mixed-source-mapped-to-floats", "f := (a: [float]) -> any { m := [1] + a; fl := (x: int|float) -> float { if q: float = x { return q }; return 1.0 }; return (m~ @ fl $+, m~ @ fl $*) }"),
        ("mixed-user-iterator-mapped-to-floats", "f := (a: [float]) -> any { mk := () -> () -> (bool, int|float) { i := mut 0; return () -> (bool, int|float) { i += 1; if *i == 1 { return (true, 1) }; if *i - 2 < std.len(a) { return (true, a[*i - 2]) }; return (false, 0) } }; fl := (x: int|float) -> float { if q: float = x { return q }; return 1.0 }; return (mk() @ fl $+, mk() @ fl $*) }"),
    ];
    let mut fs = Vec::new();
    let mut out = Vec::new();
    for (name, text) in &forms {
        match core::guard(|| Code::parse(&interp, text).map(|c| c.exec())) {
            Ok(Ok(Ok(Variable::Function(f)))) => fs.push((*name, *text, f)),
            other => out.push(Violation { sig: format!("C11|float-folds|program-fails|{name}"), detail: json!({"kind": "program", "stdlib": true, "text": text, "observed": format!("{:?}", other.map(|r| r.map(|r| r.map(|v| canon(&v)))))}) }),
        }
    }
    let mut n = 0u64;
    for seq in &seqs {
        let fold = |seq: &[f64]| {
            let sum = seq.iter().fold(0.0f64, |a, x| a + x);
            let prod = seq.iter().fold(1.0f64, |a, x| a * x);
            format!("({}, {})", crate::val::float_canon(sum), crate::val::float_canon(prod))
        };
        let want_plain = fold(seq);
        let with_one: Vec<f64> = std::iter::once(1.0).chain(seq.iter().copied()).collect();
        let want_prefixed = fold(&with_one);
        let arg: Variable = seq.iter().map(|x| Variable::Float(*x)).collect::<Vec<_>>().into();
        let arg = if seq.is_empty() {
            match core::guard(|| Code::parse(&interp, "[0.0; 0]").unwrap().exec().unwrap()) {
                Ok(v) => v,
                Err(_) => continue,
            }
        } else {
            arg
        };
        for (name, text, f) in &fs {
            n += 1;
            let got = match core::guard(|| f.clone().create_call(vec![arg.clone()]).map(|c| c.exec())) {
                Ok(Ok(Ok(v))) => canon(&v),
                Ok(Ok(Err(e))) => format!("error:{}", core::exec_error_kind(&e)),
                Ok(Err(e)) => format!("host-rejected:{}", core::error_kind(&e)),
                Err(core::Stop::Panic(p)) => format!("PANIC {} @{}", p.short_msg(), p.file()),
                Err(core::Stop::Exhausted) => continue,
            };
            let want = if name.starts_with("mixed-") { &want_prefixed } else { &want_plain };
            if got != *want {
                let shown: Vec<String> = seq.iter().map(|x| format!("{x:?}")).collect();
                out.push(Violation {
                    sig: format!("C11|float-folds|{name}|len={}|{}", seq.len(), shown.join(",").chars().take(60).collect::<String>()),
                    detail: json!({"kind": "host_call", "program": text, "args": [format!("[{}]", shown.join(", "))], "expected (sum, product) of the left folds": want, "observed": got}),
                });
            }
        }
    }
    // strings: concatenation in order (also behind a map from a source of int|string elements)
    let mixed = core::guard(|| Code::parse(&interp, "f := (a: [string]) -> any { m := [1] + a; st := (x: int|string) -> string { if q: string = x { return q }; return \"1\" }; return m~ @ st $+ }").map(|c| c.exec()));
    if let Ok(Ok(Ok(Variable::Function(f)))) = mixed {
        for seq in [vec![], vec!["a"], vec!["a", "b"], vec!["", "é", "z"]] {
            n += 1;
            let want = format!("{:?}", format!("1{}", seq.concat()));
            let arg = if seq.is_empty() { core::guard(|| Code::parse(&interp, "[\"\"; 0]").unwrap().exec().unwrap()).ok() } else { Some(seq.iter().map(|x| Variable::from(*x)).collect::<Vec<_>>().into()) };
            let Some(arg) = arg else { continue };
            let got = match core::guard(|| f.clone().create_call(vec![arg]).map(|c| c.exec())) {
                Ok(Ok(Ok(v))) => canon(&v),
                Ok(Ok(Err(e))) => format!("error:{}", core::exec_error_kind(&e)),
                Err(core::Stop::Panic(p)) => format!("PANIC {} @{}", p.short_msg(), p.file()),
                other => format!("{:?}", other.map(|r| r.map(|r| r.map(|v| canon(&v))))),
            };
            if got != want {
                out.push(Violation { sig: format!("C11|string-fold|mixed-source-mapped-to-strings|{}", seq.join(",")), detail: json!({"kind": "host_call", "program": "f := (a: [string]) -> any { m := [1] + a; st := ...; return m~ @ st $+ }", "args": [format!("{seq:?}")], "expected": want, "observed": got}) });
            }
        }
    } else {
        out.push(Violation { sig: "C11|string-fold|program-fails|mixed-source-mapped-to-strings".into(), detail: json!({"kind": "program", "stdlib": true, "text": "m := [1] + a; m~ @ st $+"}) });
    }
    let sf = core::guard(|| Code::parse(&interp, "f := (a: [string]) -> any { return a~ $+ }").map(|c| c.exec()));
    if let Ok(Ok(Ok(Variable::Function(f)))) = sf {
        for seq in [vec![], vec!["a"], vec!["a", "b"], vec!["", "é", "", "z"], vec!["ab", "", "cd", "e"]] {
            n += 1;
            let want = format!("{:?}", seq.concat());
            let arg = if seq.is_empty() { core::guard(|| Code::parse(&interp, "[\"\"; 0]").unwrap().exec().unwrap()).ok() } else { Some(seq.iter().map(|x| Variable::from(*x)).collect::<Vec<_>>().into()) };
            let Some(arg) = arg else { continue };
            let got = match core::guard(|| f.clone().create_call(vec![arg]).map(|c| c.exec())) {
                Ok(Ok(Ok(v))) => canon(&v),
                other => format!("{:?}", other.map(|r| r.map(|r| r.map(|v| canon(&v))))),
            };
            if got != want {
                out.push(Violation { sig: format!("C11|string-fold|{}", seq.join(",")), detail: json!({"kind": "host_call", "program": "f := (a: [string]) -> any { return a~ $+ }", "args": [format!("{seq:?}")], "expected": want, "observed": got}) });
            }
        }
    }
    (n, out)
}

/// A pull that fails: every consumer over a source (or an upstream stage) that fails at the
/// first, a middle or the last pull behaves like its sequence definition written as a loop over
/// `it()` - the same error at the same moment (what was pulled and applied before is in the log,
/// kept in a cell the error does not take away), or the same value when nothing fails.
fn failing_pulls() -> (u64, u64, Vec<Violation>) {
    use simplesl::variable::{Mut, Type, Variable};
    use simplesl::{Code, Interpreter};
    use std::sync::Arc;
    const SRC: &str = "src := (a: [int]) -> () -> (bool, int) { i := mut 0; return () -> (bool, int) { i += 1; log += [100 + *i]; if *i > std.len(a) { return (false, 0) }; return (true, 10 / a[*i - 1]) } };";
    const ARRAYS: &[&str] = &["[1, 2, 5]", "[0, 1, 2]", "[1, 0, 2]", "[1, 2, 0]", "[0; 0]", "[5, 5]", "[10, 1]"];
    const STAGES: &[(&str, &str)] = &[
        ("none", ""),
        ("map failing on 2", " @ (v: int) -> int { log += [200 + v]; return 100 / (v - 2) }"),
        ("filter failing on 10", " ? (v: int) -> bool { log += [300 + v]; return 10 / (v - 10) < 100 }"),
        ("map then filter", " @ (v: int) -> int { log += [200 + v]; return 100 / (v - 2) } ? (v: int) -> bool { log += [300 + v]; return 1000 / (v - 50) < 0 || true }"),
    ];
    // (name, operator form, the definition as a loop over it())
    const CONSUMERS: &[(&str, &str, &str)] = &[
        ("$]", "it $]", "acc := mut [int] []; loop { (c, v) := it(); if !c { break }; acc += [v] }; *acc"),
        ("$+", "it $+", "acc := mut 0; loop { (c, v) := it(); if !c { break }; acc += v }; *acc"),
        ("$*", "it $*", "acc := mut 1; loop { (c, v) := it(); if !c { break }; acc *= v }; *acc"),
        ("$&", "it $&", "acc := mut (0 - 1); loop { (c, v) := it(); if !c { break }; acc &= v }; *acc"),
        ("$|", "it $|", "acc := mut 0; loop { (c, v) := it(); if !c { break }; acc |= v }; *acc"),
        ("$ init f", "it $ 0 (a: int, e: int) -> int { log += [400 + e]; return a * 2 + e }", "acc := mut 0; loop { (c, v) := it(); if !c { break }; log += [400 + v]; acc = *acc * 2 + v }; *acc"),
        ("for", "r := mut [int] []; for e in it { r += [e] }; *r", "r := mut [int] []; loop { (c, v) := it(); if !c { break }; r += [v] }; *r"),
        ("partition", "it \\ (e: int) -> bool { log += [500 + e]; return e > 4 }", "yes := mut [int] []; no := mut [int] []; loop { (c, v) := it(); if !c { break }; log += [500 + v]; if v > 4 { yes += [v] } else { no += [v] } }; (*yes, *no)"),
        ("$] then ~ then $+", "it $] ~ $+", "acc := mut [int] []; loop { (c, v) := it(); if !c { break }; acc += [v] }; s := mut 0; for e in *acc~ { s += e }; *s"),
        ("map then $]", "it @ (e: int) -> int { log += [600 + e]; return e + 1 } $]", "acc := mut [int] []; loop { (c, v) := it(); if !c { break }; log += [600 + v]; acc += [v + 1] }; *acc"),
    ];
    let mut out = Vec::new();
    let (mut n, mut failing) = (0u64, 0u64);
    for arr in ARRAYS {
        for (sname, stage) in STAGES {
            for (cname, op_form, loop_form) in CONSUMERS {
                let mut outcomes = Vec::new();
                for body in [op_form, loop_form] {
                    let log = Arc::new(Mut { var_type: "mut [int]".parse::<Type>().unwrap().mut_element_type().unwrap(), variable: Variable::from(Vec::<Variable>::new()).into() });
                    let mut interp = Interpreter::with_stdlib();
                    interp.insert("log".into(), Variable::Mut(log.clone()));
                    let text = format!("{SRC} it := src({arr}){stage}; {body}");
                    let res = match guard(|| Code::parse(&interp, &text).map(|c| c.exec())) {
                        Ok(Ok(Ok(v))) => crate::val::canon(&v),
                        Ok(Ok(Err(e))) => format!("error:{}", core::exec_error_kind(&e)),
                        Ok(Err(e)) => format!("rejected:{}", core::error_kind(&e)),
                        Err(Stop::Panic(p)) => format!("PANIC {} @{}", p.short_msg(), p.file()),
                        Err(Stop::Exhausted) => "exhausted".into(),
                    };
                    let logged = log.variable.read().map(|g| crate::val::canon(&g)).unwrap_or_else(|_| "<poisoned>".into());
                    outcomes.push((text, res, logged));
                }
                n += 1;
                let (op, def) = (&outcomes[0], &outcomes[1]);
                if def.1.starts_with("rejected") || def.1.starts_with("PANIC") {
                    out.push(Violation { sig: format!("C11|failing-pull|definition-does-not-run|{cname}"), detail: json!({"kind": "program", "stdlib": true, "text": def.0, "observed": def.1}) });
                    continue;
                }
                if def.1.starts_with("error:") {
                    failing += 1;
                }
                if op.1 != def.1 || op.2 != def.2 {
                    out.push(Violation {
                        sig: format!("C11|failing-pull|{cname}|stage={sname}|source={arr}"),
                        detail: json!({"kind": "program", "stdlib": true, "text": op.0, "note": "`log` is a cell the host put into the interpreter before the run", "observed": {"result": op.1, "log": op.2}, "the_definition_as_a_loop": def.0, "expected": {"result": def.1, "log": def.2}}),
                    });
                }
            }
        }
    }
    (n, failing, out)
}

/// `for` (and the operators that call a function per element) visits the elements and nothing
/// else: whatever the iterator's body - the user's or the built-in stage's - declares while it is
/// pulled stays its own. Every source kind x every consumer that runs user code per element x
/// every spelling the sources' bodies use for a local, bound by the caller to a run-time value
/// that the per-element code reads: the visit is the sequence, each time next to the caller's value
fn callers_names_during_visits() -> (u64, Vec<Violation>) {
    const DEFS: &str = "iota := (start: int, end: int) -> () -> (bool, int) { i := mut start; return () -> (bool, int) { val := *i; if (val < end) { i += 1; return (true, val); } return (false, val); } };
gen := () -> () -> (bool, int) { k := mut 0; return () -> (bool, int) { res := *k; con := res < 3; value := res * 2; element := value; result := (con, value); k += 1; return result } };";
    // (source, its elements)
    const SOURCES: &[(&str, &str)] = &[
        ("[1, 2, 3]~", "1, 2, 3"),
        ("iota(0, 3)", "0, 1, 2"),
        ("gen()", "0, 2, 4"),
        ("[1, 2, 3]~ @ (v: int) -> int { return v + 10 }", "11, 12, 13"),
        ("iota(0, 3) @ (v: int) -> int { val := v + 10; return val }", "10, 11, 12"),
        ("[1, 2, 3]~ ? (v: int) -> bool { return v > 1 }", "2, 3"),
        ("gen() ? (v: int) -> bool { res := v > 1; return res }", "2, 4"),
        ("[1, \"a\", 3]~ ? int", "1, 3"),
        ("[1, 2, 3]~ $] ~", "1, 2, 3"),
        ("(gen() $])~", "0, 2, 4"),
    ];
    const NAMES: &[&str] = &["val", "i", "k", "res", "con", "value", "element", "result", "v", "func", "mapper", "default", "predicate", "function", "iterator", "iter", "start", "end", "acc0", "array", "index", "len"];
    // (consumer, program tail over SRC / N, the visit it must report given ELEMS)
    const CONSUMERS: &[(&str, &str)] = &[
        ("for", "acc := mut [any] []; for x in SRC { acc += [(x, N)] }; r := *acc;"),
        ("for, body in a block", "acc := mut [any] []; for x in SRC { { y := N; acc += [(x, y)] } }; r := *acc;"),
        ("for in a function", "h := () -> [any] { acc := mut [any] []; for x in SRC { acc += [(x, N)] }; return *acc }; r := h();"),
        ("nested for", "acc := mut [any] []; for w in [0]~ { for x in SRC { acc += [(x, N)] } }; r := *acc;"),
        ("map then collect", "r := SRC @ (q: any) -> any { return (q, N) } $];"),
        ("reduce", "m := mut [any] []; SRC $ 0 (a: int, q: any) -> int { m += [(q, N)]; return a }; r := *m;"),
        ("filter then collect", "m := mut [any] []; SRC ? (q: any) -> bool { m += [(q, N)]; return true } $]; r := *m;"),
        ("partition", "m := mut [any] []; SRC \\ (q: any) -> bool { m += [(q, N)]; return true }; r := *m;"),
        ("while over it()", "acc := mut [any] []; it0 := SRC; loop { (c0, x) := it0(); if !c0 { break }; acc += [(x, N)] }; r := *acc;"),
    ];
    let mut n = 0u64;
    let mut out = Vec::new();
    for (src, elems) in SOURCES {
        let want: String = elems.split(", ").map(|e| format!("({e}, 100)")).collect::<Vec<_>>().join(", ");
        for (cname, tail) in CONSUMERS {
            for name in NAMES {
                let text = format!("{DEFS}\nbase := mut 100; {name} := *base;\n{}\n(r == [{want}], {name} == 100, r)", tail.replace("SRC", src).replace('N', name));
                n += 1;
                let o = core::run_text(&text, true, core::QUICK_FUEL);
                let shown = match &o {
                    core::Outcome::Value(v) => crate::val::canon(v),
                    other => other.tag(),
                };
                if !shown.starts_with("(true, true, ") {
                    out.push(Violation {
                        sig: format!("C11|visit-next-to-callers-name|{cname}|source={}|name={name}", src.chars().take(24).collect::<String>().replace('|', "/")),
                        detail: json!({"kind": "program", "stdlib": true, "text": text, "expected": format!("(true, true, [{want}])"), "observed": shown}),
                    });
                }
            }
        }
    }
    (n, out)
}

/// `$+` and `$*` over ints are the documented folds with wrapping arithmetic (modulo 2^64), as `+`
/// and `*` themselves: every sequence of length 0..=3 over {MAX_INT, MIN_INT, 2^62, 1, -5, 3} x four
/// routes (array, array behind a map, user-written iterator, the same written as a loop with `+`).
fn wrapping_int_folds() -> (u64, Vec<Violation>) {
    let vals: [i64; 6] = [i64::MAX, i64::MIN, 1 << 62, 1, -5, 3];
    let lit = |v: i64| crate::props::c08::int_lit(v);
    let mut seqs: Vec<Vec<i64>> = vec![vec![]];
    for a in vals {
        seqs.push(vec![a]);
        for b in vals {
            seqs.push(vec![a, b]);
            for c in vals {
                seqs.push(vec![a, b, c]);
            }
        }
    }
    let mut n = 0u64;
    let mut out = Vec::new();
    for seq in &seqs {
        let arr = format!("[{}]", seq.iter().map(|v| lit(*v)).collect::<Vec<_>>().join(", "));
        let arr = if seq.is_empty() { "[0; 0]".to_string() } else { arr };
        let sum = seq.iter().fold(0i64, |a, v| a.wrapping_add(*v));
        let prod = seq.iter().fold(1i64, |a, v| a.wrapping_mul(*v));
        let want = format!("({sum}, {prod})");
        for (route, src) in [
            ("array", format!("{arr}~")),
            ("mapped", format!("{arr}~ @ (v: int) -> int {{ return v }}")),
            ("user-written", format!("{{ a := {arr}; i := mut 0; () -> (bool, int) {{ if *i < std.len(a) {{ i += 1; return (true, a[*i - 1]) }}; return (false, 0) }} }}")),
            ("run-time array", format!("{{ h := (a: [int]) -> () -> (bool, int) {{ return a~ }}; h({arr}) }}")),
        ] {
            let text = format!("mk := () -> () -> (bool, int) {{ return {src} }}; (mk() $+, mk() $*)");
            n += 1;
            let o = core::run_text(&text, true, core::QUICK_FUEL);
            let got = match &o {
                core::Outcome::Value(v) => crate::val::canon(v),
                other => other.tag(),
            };
            if got != want {
                out.push(Violation {
                    sig: format!("C11|int-fold-does-not-wrap|{route}|len={}", seq.len()),
                    detail: json!({"kind": "program", "stdlib": true, "text": text, "expected": want, "observed": got}),
                });
            }
        }
    }
    (n, out)
}

pub fn run(tier: &str) -> i32 {
    let thorough = tier == "thorough";
    let mut report = Report::new("C11", tier);
    let mut samples = Samples::new(8);
    let js = jobs(thorough);
    let accs = par_fold(js.len(), Acc::default, |acc, i| {
        let j = &js[i];
        let text = program(&j.source, &j.stages, j.consumer, j.pulls, j.twice);
        let (want_r, want_log) = reference(&j.source, &j.stages, j.consumer, j.pulls);
        let (want_r, want_log) = if j.twice {
            // four evaluations, each over a fresh iterator
            let mut l = Vec::new();
            for _ in 0..4 {
                l.extend(want_log.iter().copied());
            }
            (format!("({want_r}, {want_r}, [{want_r}, {want_r}])"), l)
        } else {
            (want_r, want_log)
        };
        let want = format!("({want_r}, [{}])", want_log.iter().map(|x| x.to_string()).collect::<Vec<_>>().join(", "));
        acc.programs += 1;
        acc.events += want_log.len() as u64;
        let out = core::run_text(&text, true, core::QUICK_FUEL);
        let got = match &out {
            core::Outcome::Value(v) => {
                let c = canon(v);
                if j.consumer == Consumer::Manual {
                    mask_exhausted(&c)
                } else {
                    c
                }
            }
            other => other.tag(),
        };
        acc.outcomes.insert(got.chars().take(40).collect());
        let want = if j.consumer == Consumer::Manual { want.replace("(false, _)", "(false, _)") } else { want };
        if got != want {
            let stages: Vec<&str> = j.stages.iter().map(|s| stage_text(*s).trim()).collect();
            let what = if got.starts_with("rejected") || got.starts_with("panic") || got.starts_with("error") {
                got.chars().take(40).collect::<String>()
            } else {
                // result or trace?
                let split = |s: &str| s.rfind(", [").map(|k| (s[..k].to_string(), s[k..].to_string()));
                match (split(&got), split(&want)) {
                    (Some((gr, gl)), Some((wr, wl))) => {
                        if gr != wr && gl != wl {
                            "result-and-trace".into()
                        } else if gr != wr {
                            "result".into()
                        } else {
                            "trace".into()
                        }
                    }
                    _ => "shape".into(),
                }
            };
            acc.violations.push(Violation {
                sig: format!("C11|{what}|source={}|stages={}|consumer={:?}", match &j.source { Source::Counter(_) => "counter", Source::Array(_) => "array", Source::Logged(_) => "logged" }, stages.join(" "), j.consumer),
                detail: json!({"kind": "program", "stdlib": true, "text": text, "expected": want, "observed": got}),
            });
        }
        // the pipeline written in place against every stage bound to a name: the same result and trace
        if !j.twice && !j.stages.is_empty() && !matches!(j.consumer, Consumer::Manual) {
            let show = |text: &str| match core::run_text(text, true, core::QUICK_FUEL) {
                core::Outcome::Value(v) => canon(&v),
                other => other.tag(),
            };
            let named = program_in(&j.source, &j.stages, j.consumer, j.pulls, false, 1);
            let inline = program_in(&j.source, &j.stages, j.consumer, j.pulls, false, 2);
            acc.programs += 2;
            let (gn, gi) = (show(&named), show(&inline));
            if gn != gi {
                let stages: Vec<&str> = j.stages.iter().map(|s| stage_text(*s).trim()).collect();
                acc.violations.push(Violation {
                    sig: format!("C11|written-in-place-differs-from-named-stages|source={}|stages={}|consumer={:?}", match &j.source { Source::Counter(_) => "counter", Source::Array(_) => "array", Source::Logged(_) => "logged" }, stages.join(" "), j.consumer),
                    detail: json!({"kind": "program", "stdlib": true, "text": inline, "the same pipeline with every stage bound to a name": named, "expected": gn, "observed": gi}),
                });
            }
        }
    });
    let mut acc = Acc::default();
    for a in accs {
        acc.programs += a.programs;
        acc.events += a.events;
        acc.outcomes.extend(a.outcomes);
        acc.violations.extend(a.violations);
    }
    samples.push(|| {
        let j = &js[js.len() / 3];
        json!({"program": program(&j.source, &j.stages, j.consumer, j.pulls, j.twice), "expected": reference(&j.source, &j.stages, j.consumer, j.pulls).0})
    });
    samples.push(|| {
        let j = &js[17];
        json!({"program_tail": program(&j.source, &j.stages, j.consumer, j.pulls, j.twice).lines().rev().take(4).collect::<Vec<_>>(), "expected_trace": reference(&j.source, &j.stages, j.consumer, j.pulls).1})
    });
    let folds = core::on_big_stack(float_and_string_folds);
    let failing = core::on_big_stack(failing_pulls);
    assert!(failing.1 * 4 > failing.0, "failing-pull family: too few failing cases ({} of {})", failing.1, failing.0);
    report.violations(failing.2);
    let visits = core::on_big_stack(callers_names_during_visits);
    report.violations(visits.1);
    let wraps = core::on_big_stack(wrapping_int_folds);
    report.violations(wraps.1);
    report.violations(folds.1);
    let Acc { programs, events, outcomes, violations } = acc;
    report.violations(violations);
    let coverage = json!({
        "states": programs,
        "transitions": events + programs,
        "traces_validated_against_impl": programs,
        "programs": programs,
        "failing_pull_cases (7 sources x 4 upstream stages x 10 consumers, operator form against its definition as a loop over it(); result and log)": failing.0,
        "failing_pull_cases_in_which_a_pull_fails": failing.1,
        "wrapping_int_fold_programs (sequences of length 0..=3 over 6 boundary ints x 4 routes, $+ and $*)": wraps.0,
        "visits_next_to_callers_names (10 sources x 9 per-element consumers x 22 spellings of the sources' own locals, bound by the caller to a run-time value)": visits.0,
        "float_and_string_fold_cases (sequences of length 0..=4 over 9 floats + 3 long ones x 4 routes, bit-exact against the left fold)": folds.0,
        "reference_events_compared": events,
        "distinct_outcomes": outcomes.len(),
        "samples": samples.items,
        "exhaustive": true,
        "rule": "every (source, pipeline of <= 2 (thorough 3) lazy stages, consumer) is printed to SimpleSL and run; the result and the merged event trace (source pulls, f x, p x, g x) must equal those of a pull-based list reference; manual pulls go 2 past exhaustion",
        "bounds": "sources: counting closure n = 0..3, int arrays of length 0..3 over {0,1,2,-1}, the same through a pull-logging closure (length <= 2, thorough 3); after every consumer the source is drained and the rest compared, mixed arrays of length <= 2 (thorough 3) over {1, 2, \"s\", true}",
    });
    report.finish("model_checking", coverage, &["the second tuple component after exhaustion is not compared here (C01 judges it)"])
}
