//! C05 — outcomes are deterministic: independent of hash order and run. Every
//! hash-collection instance gets its iteration order from the order oracle; all
//! assignments with at most k non-canonical instances are explored and the
//! canonicalised outcome must not change.
use crate::core::{self, guard, par_fold, Stop};
use crate::order;
use crate::report::{Report, Samples, Violation};
use crate::ty::{normal, Ty};
use crate::universe::{self, build};
use crate::val::canon_typed;
use serde_json::json;
use simplesl::variable::{ReturnType, Type, Variable};
use simplesl::{verif, Code, Interpreter};
use std::collections::BTreeSet;

fn tcanon(t: &Type) -> String {
    normal(&Ty::from_impl(t)).print()
}

fn ocanon(t: Option<Type>) -> String {
    t.map(|t| tcanon(&t)).unwrap_or_else(|| "none".into())
}

/// canonical outcome of every public type query on one type
fn unary_api(t: &Ty) -> String {
    let ty = build(t);
    let mut out = Vec::new();
    out.push(format!("index_result={}", ocanon(ty.index_result())));
    out.push(format!("element_type={}", ocanon(ty.element_type())));
    out.push(format!("mut_element_type={}", ocanon(ty.mut_element_type())));
    out.push(format!("return_type={}", ocanon(ty.return_type())));
    out.push(format!("iter_element={}", ocanon(ty.iter_element())));
    out.push(format!(
        "params={}",
        ty.params().map(|p| p.iter().map(tcanon).collect::<Vec<_>>().join(",")).unwrap_or_else(|| "none".into())
    ));
    out.push(format!(
        "flatten_tuple={}",
        ty.clone().flatten_tuple().map(|p| p.iter().map(tcanon).collect::<Vec<_>>().join(",")).unwrap_or_else(|| "none".into())
    ));
    out.push(format!("tuple_len={:?} min={:?}", ty.tuple_len(), ty.min_tuple_len()));
    out.push(format!("tuple0={} tuple1={} tuple2={} tuple3={}", ocanon(ty.tuple_element_at(0)), ocanon(ty.tuple_element_at(1)), ocanon(ty.tuple_element_at(2)), ocanon(ty.tuple_element_at(3))));
    out.push(format!("field_a={} field_b={} has_a={}", ocanon(ty.field_type("a")), ocanon(ty.field_type("b")), ty.has_field("a")));
    out.push(format!(
        "is: fn={} tuple={} mut={} iter={} struct={} indexable={}",
        ty.is_function(),
        ty.is_tuple(),
        ty.is_mut(),
        ty.is_iterator(),
        ty.is_struct(),
        ty.can_be_indexed()
    ));
    out.push(format!("default={}", Variable::of_type(&ty).map(|v| canon_typed(&v)).unwrap_or_else(|| "none".into())));
    // printing then parsing gives an equal type whatever the order
    let printed = ty.to_string();
    let reparsed = printed.parse::<Type>();
    out.push(format!("reparse_equal={}", reparsed.map(|r| r == ty).unwrap_or(false)));
    out.join("; ")
}

/// canonical outcome of the binary type operations on a pair; both types are built twice so
/// that structurally equal types live in different instances
fn binary_api(a: &Ty, b: &Ty) -> String {
    let (ta, tb) = (build(a), build(b));
    let (ta2, tb2) = (a.to_impl(), b.to_impl());
    let mut out = Vec::new();
    out.push(format!("matches={} {}", ta.matches(&tb), tb.matches(&ta)));
    out.push(format!("eq={} self_eq={} {}", ta == tb, ta == ta2, tb == tb2));
    out.push(format!("concat={}", tcanon(&(ta.clone() | tb.clone()))));
    out.push(format!("conjoin={}", tcanon(&ta.conjoin(&tb))));
    let mut acc = ta.clone();
    acc |= tb.clone();
    out.push(format!("bitor_assign={}", tcanon(&acc)));
    let mut set = std::collections::HashSet::new();
    set.insert(ta.clone());
    out.push(format!("hash_lookup={}", set.contains(&ta2)));
    out.join("; ")
}

pub const PROGRAMS: &[&str] = &[
    // Variable::of_type of a union through `~` exhaustion and `? T`
    "x := [1, 2.5]~; (x(), x(), x(), x())",
    "x := [1, \"a\", true]~; x(); x(); x(); x()",
    "x := [1, 2.5, \"a\"]~ ? int | float; (x(), x(), x(), x())",
    "x := [(1, 2), (1.5, 2.5)]~; x(); x(); x()",
    "x := [[1], [\"a\"]]~; x(); x(); x()",
    "f := (v: mut (int | float)) -> any { return v }; c := mut int | float 1; it := [c]~; it(); it()",
    "x := [1, 2.5]~ @ (v: int | float) -> int | string { return 1 }; x(); x(); x()",
    // match over unions, for over union-typed iterators
    "f := (v: int | string | ()) -> int { return match v { i: int => 1, s: string => 2, => 3, } }; (f(1), f(\"a\"), f(()))",
    "f := (v: int | string | float) -> any { return match v { i: int | float => i, s: string => s, } }; (f(1), f(\"a\"), f(2.5))",
    "acc := mut [any] []; for e in [1, \"a\", 2.5]~ { acc += [e] }; *acc",
    "f := (v: int | float) -> any { if i: int = v { return (1, i) } else { return (2, v) } }; (f(1), f(2.5))",
    // calls through a union of function types (parameter meet, result join)
    "h := (g: (any) -> int | (int) -> any) -> any { return g(1) }; h((v: any) -> int { return 7 })",
    "h := (g: (int, int | float) -> int | (int | string, int) -> float) -> any { return g(1, 2) }; h((a: int, b: int | float) -> int { return a })",
    "h := (g: () -> (bool, int) | () -> (bool, float)) -> any { return (g $], g()) }; h([1, 2]~)",
    "h := (g: () -> (bool, int) | () -> (bool, float)) -> any { return g $+ }; (h([1, 2]~), h([1.5]~))",
    // struct / module construction, field access on unions of structs
    "m := mod { a := 1; b := 2.5; c := \"x\"; d := (a, b) }; (m.a, m.b, m.c, m.d)",
    "f := (s: struct{a: int, b: int} | struct{a: float, b: int, c: string}) -> any { return (s.a, s.b) }; (f(struct{a := 1, b := 2}), f(struct{a := 1.5, b := 2, c := \"z\"}))",
    "s := struct{ a := 1, b := \"x\", c := 2.5 }; t := struct{ c := 2.5, a := 1, b := \"x\" }; (s == t, s.b)",
    // equality of union types: mut invariance, conditions
    "f := (p: mut (float | int)) -> any { p = 2.5; return *p }; c := mut int | float 1; f(c)",
    "f := (p: mut struct{a: int, b: string}) -> any { return (*p).a }; c := mut struct{b: string, a: int} struct{a := 1, b := \"x\"}; f(c)",
    "f := (p: mut (struct{a: int, b: string} | int)) -> any { return *p }; c := mut int | struct{b: string, a: int} 5; f(c)",
    "f := (p: [mut (int | string | float)]) -> any { return std.len(p) }; f([mut float | string | int 1])",
    "f := (a: bool, b: bool) -> any { return a && b || a }; f(true, false)",
    // indexing / slicing / destructuring / access on unions
    "f := (v: [int] | string) -> any { return (v[0], v[0:1]) }; (f([1, 2]), f(\"ab\"))",
    "f := (v: [int] | [string] | [float]) -> any { return (v + v, v~ $]) }; (f([1]), f([\"a\"]), f([1.5]))",
    "f := (v: (int, string) | (float, string)) -> any { (p, q) := v; return (q, p, v.0, v.1) }; (f((1, \"a\")), f((1.5, \"b\")))",
    "f := (v: (int, string) | (float, string, bool)) -> any { return v.1 }; (f((1, \"a\")), f((1.5, \"b\", true)))",
    "f := (c: mut int | mut float) -> any { return *c }; (f(mut 1), f(mut 1.5))",
    // array / branch / return types built by concat
    "x := [1, 2.5, \"a\", (), true]; y := if std.len(x) > 2 { 1 } else { \"s\" }; (x, y)",
    "f := (v: int) -> int | string | float { if v > 1 { return 1 }; if v > 0 { return \"s\" }; return 2.5 }; (f(0), f(1), f(2))",
    "c := mut [int | string] []; c += [1]; c += [\"a\"]; *c",
    "f := (it: () -> (bool, int | string)) -> any { return (it ? int $], it $]) }; f([1, \"a\", 2]~)",
    "r := [1, \"a\"]~ $ 0 (acc: int | string, e: int | string) -> int | string { return e }; r",
    "([1, 2.5]~ \\ (v: int | float) -> bool { return match v { i: int => true, => false, } })",
    // evaluation order of struct initialisers (a site where the fields go through a keyed collection):
    // interacting effects and competing failures make the order observable
    "i := mut 1; s := struct{ a := (i += 1), b := (i *= 10), c := (i -= 3) }; (s.a, s.b, s.c, *i)",
    "i := mut 1; g := (v: int) -> int { i *= 2; i += v; return *i }; s := struct{ p := g(1), q := g(2), r := g(3), t := g(4) }; (s.p, s.q, s.r, s.t, *i)",
    "i := mut 0; n := () -> int { i += 1; return *i }; x := [struct{ a := n(), b := n() }, struct{ b := n(), a := n() }]; (x[0].a, x[0].b, x[1].a, x[1].b)",
    "i := mut 1; z := [1]; s := struct{ a := z[*i + 4], b := 10 / (*i - 1), c := 10 % (*i - 1) }; s",
    // reductions over *nothing* whose operand has a union static type: the iterator itself has no
    // element type, so the union decides which reduction (and which identity) is meant
    "x := () -> () -> (bool, int) | () -> (bool, float) | () -> (bool, string) { return []~ }; (x() $+, x() $], x()())",
    "x := () -> () -> (bool, float) | () -> (bool, int) { return []~ }; (x() $+, x() $*)",
    "h := (g: () -> (bool, int) | () -> (bool, float) | () -> (bool, string)) -> any { return (g $+, g $]) }; (h([]~), h([1]~), h([\"a\"]~))",
    "x := () -> () -> (bool, int) | () -> (bool, bool) { return []~ }; (x() $], x()())",
    // default values that contain a cell are fresh every time one is asked for
    "it := [1]~ ? mut int | string; (m, d) := it(); r := match d { c: mut int => { c += 10; *c }, => 0 - 1, }; (m, r)",
    "it := [mut 1][1:]~; (m, c) := it(); c += 10; (m, *c)",
    "it := [1]~ @ (v: int) -> mut int | string { return \"s\" }; it(); (m, d) := it(); r := match d { c: mut int => { c += 10; *c }, => 0 - 1, }; (m, r)",
];

/// programs of the list whose execution is meant to fail (which failure is part of the outcome)
const FAILING: &[&str] = &["i := mut 1; z := [1]; s := struct{ a := z[*i + 4], b := 10 / (*i - 1), c := 10 % (*i - 1) }; s"];

#[derive(Default)]
struct Acc {
    base_cases: u64,
    runs: u64,
    choice_points: u64,
    capped: u64,
    outcomes: BTreeSet<String>,
    violations: Vec<Violation>,
}

fn merge(a: &mut Acc, b: Acc) {
    a.base_cases += b.base_cases;
    a.runs += b.runs;
    a.choice_points += b.choice_points;
    a.capped += b.capped;
    a.outcomes.extend(b.outcomes);
    a.violations.extend(b.violations);
}

fn program_outcome(text: &str) -> String {
    verif::set_fuel(Some(core::QUICK_FUEL), Some(core::DEPTH));
    let interp = Interpreter::with_stdlib();
    let r = (|| {
        let code = match guard(|| Code::parse(&interp, text)) {
            Ok(Ok(c)) => c,
            Ok(Err(e)) => return format!("rejected:{}", core::error_kind(&e)),
            Err(Stop::Panic(p)) => return format!("panic:parse:{}@{}", p.short_msg(), p.file()),
            Err(Stop::Exhausted) => return "exhausted".into(),
        };
        let st = match guard(|| code.return_type()) {
            Ok(t) => tcanon(&t),
            Err(_) => "return_type-panicked".into(),
        };
        match guard(|| code.exec()) {
            Ok(Ok(v)) => format!("static={st}; value={}", canon_typed(&v)),
            Ok(Err(e)) => format!("static={st}; error:{}", core::exec_error_kind(&e)),
            Err(Stop::Panic(p)) => format!("panic:exec:{}@{}", p.short_msg(), p.file()),
            Err(Stop::Exhausted) => "exhausted".into(),
        }
    })();
    verif::set_fuel(None, None);
    r
}

fn explore(acc: &mut Acc, family: &str, label: &str, detail: serde_json::Value, bound: usize, max_runs: usize, f: &mut dyn FnMut() -> String) {
    let ex = order::explore_bounded(bound, max_runs, f);
    acc.base_cases += 1;
    acc.runs += ex.runs.len() as u64;
    acc.choice_points += ex.choice_points as u64;
    if !ex.complete {
        acc.capped += 1;
    }
    let base = ex.runs[0].1.clone();
    if acc.outcomes.len() < 5000 {
        acc.outcomes.insert(base.chars().take(80).collect());
    }
    // the oracle must own every choice: the canonical order run again gives the same outcome
    // (a collection the oracle does not see would show up here as run-to-run variation)
    if family == "program" {
        for _ in 0..6 {
            let again = order::run_with(&[], f).0;
            acc.runs += 1;
            if again != base {
                acc.violations.push(Violation {
                    sig: format!("C05|outcome-varies-under-identical-order-choices|{family}|{label}"),
                    detail: json!({"kind": "order", "case": detail, "canonical_order_outcome": base, "same_choices_again": again}),
                });
                break;
            }
        }
    }
    if let Some((choices, other)) = ex.runs.iter().find(|r| r.1 != base) {
        // replay the deviating run twice: the same choices must give the same outcome
        let again = order::run_with(choices, f).0;
        let stable = again == *other;
        acc.violations.push(Violation {
            sig: format!("C05|outcome-depends-on-hash-order|{family}|{label}"),
            detail: json!({"kind": "order", "case": detail, "canonical_order_outcome": base, "order_choices": choices, "outcome_under_these_choices": other, "replay_stable": stable, "choice_points": ex.choice_points}),
        });
    }
}

fn native_tie_back(repeats: usize, processes: usize) -> (u64, Vec<Violation>) {
    use std::io::Write;
    use std::process::{Command, Stdio};
    let bin = crate::report::verif_root().join("nativecheck/target/release/nativecheck");
    if !bin.exists() {
        eprintln!("MACHINERY ERROR: {} is missing (run ./setup.sh or ./check C05)", bin.display());
        std::process::exit(2);
    }
    let input = PROGRAMS.join("\n----\n");
    let expected: Vec<String> = core::on_big_stack(|| PROGRAMS.iter().map(|p| program_outcome(p)).collect());
    let mut out = Vec::new();
    let mut runs = 0u64;
    for proc_no in 0..processes {
        let mut child = Command::new(&bin)
            .arg(repeats.to_string())
            .stdin(Stdio::piped())
            .stdout(Stdio::piped())
            .spawn()
            .expect("start nativecheck");
        child.stdin.take().unwrap().write_all(input.as_bytes()).unwrap();
        let output = child.wait_with_output().expect("nativecheck output");
        if !output.status.success() {
            eprintln!("MACHINERY ERROR: nativecheck exited with {:?}", output.status);
            std::process::exit(2);
        }
        for line in String::from_utf8_lossy(&output.stdout).lines() {
            let Some((idx, outcome)) = line.split_once('\t') else { continue };
            let i: usize = idx.parse().unwrap();
            runs += 1;
            if outcome != expected[i] {
                out.push(Violation {
                    sig: format!("C05|native-run-differs-from-canonical-order|#{i} {}", PROGRAMS[i].chars().take(50).collect::<String>().replace('|', "/")),
                    detail: json!({"kind": "program", "stdlib": true, "text": PROGRAMS[i], "canonical_order_outcome": expected[i], "native_outcome": outcome, "process": proc_no}),
                });
            }
        }
    }
    if runs as usize != PROGRAMS.len() * repeats * processes {
        eprintln!("MACHINERY ERROR: nativecheck printed {runs} lines, expected {}", PROGRAMS.len() * repeats * processes);
        std::process::exit(2);
    }
    (runs, out)
}

pub fn run(tier: &str) -> i32 {
    let thorough = tier == "thorough";
    let bound = if thorough { 2 } else { 1 };
    let mut report = Report::new("C05", tier);
    let mut samples = Samples::new(8);

    // (A) the type API on every type of the universe that contains a union or a multi-field struct
    fn interesting(t: &Ty) -> bool {
        match t {
            Ty::Union(_) => true,
            Ty::Struct(f) => f.len() >= 2 || f.values().any(interesting),
            Ty::Arr(e) | Ty::Mut(e) => interesting(e),
            Ty::Tup(ts) => ts.iter().any(interesting),
            Ty::Fn(ps, r) => ps.iter().any(interesting) || interesting(r),
            _ => false,
        }
    }
    let u: Vec<Ty> = universe::u2(thorough).into_iter().chain(universe::spines()).filter(interesting).collect();
    // unions of three function types whose parameter types overlap without being comparable, with
    // a third inside their intersection (and tuple / struct / cell / iterator analogues): every query
    // that folds over the members (params, return_type, index_result, tuple_element_at, field_type,
    // iter_element ...) must be the same fold whatever order the members come in
    let mut u = u;
    {
        let ps = [
            Ty::Int,
            Ty::Float,
            Ty::Str,
            Ty::union([Ty::Int, Ty::Float]),
            Ty::union([Ty::Float, Ty::Str]),
            Ty::union([Ty::Int, Ty::Str]),
            Ty::union([Ty::Int, Ty::Float, Ty::Str]),
            Ty::Any,
        ];
        for a in 0..ps.len() {
            for b in a + 1..ps.len() {
                for c in b + 1..ps.len() {
                    let (x, y, z) = (ps[a].clone(), ps[b].clone(), ps[c].clone());
                    u.push(Ty::union([Ty::func(vec![x.clone()], Ty::Int), Ty::func(vec![y.clone()], Ty::Int), Ty::func(vec![z.clone()], Ty::Int)]));
                    u.push(Ty::union([Ty::func(vec![], x.clone()), Ty::func(vec![], y.clone()), Ty::func(vec![], z.clone())]));
                    u.push(Ty::union([Ty::Tup(vec![x.clone(), Ty::Int]), Ty::Tup(vec![y.clone(), Ty::Int]), Ty::Tup(vec![z.clone(), Ty::Int, Ty::Int])]));
                    u.push(Ty::union([Ty::arr(x.clone()), Ty::arr(y.clone()), Ty::arr(z.clone())]));
                    u.push(Ty::union([Ty::strukt(&[("a", x.clone())]), Ty::strukt(&[("a", y.clone()), ("b", Ty::Int)]), Ty::strukt(&[("a", z.clone())])]));
                    u.push(Ty::union([Ty::func(vec![], Ty::Tup(vec![Ty::Bool, x])), Ty::func(vec![], Ty::Tup(vec![Ty::Bool, y])), Ty::func(vec![], Ty::Tup(vec![Ty::Bool, z]))]));
                }
            }
        }
    }
    let set: BTreeSet<Ty> = u.into_iter().collect();
    let u: Vec<Ty> = set.into_iter().collect();
    let accs = par_fold(u.len(), Acc::default, |acc, i| {
        let t = &u[i];
        explore(acc, "type-query", &t.print().replace('|', "/"), json!({"type": t.print()}), bound, 3000, &mut || {
            guard(|| unary_api(t)).unwrap_or_else(|e| format!("{e:?}"))
        });
    });
    let mut acc = Acc::default();
    for a in accs {
        merge(&mut acc, a);
    }
    // pairs: each interesting type against a spread of partners
    let step = if thorough { 7 } else { 29 };
    let partners: Vec<Ty> = u.iter().step_by(step).cloned().collect();
    let np = partners.len();
    let accs = par_fold(u.len() * np, Acc::default, |acc, idx| {
        let (a, b) = (&u[idx / np], &partners[idx % np]);
        explore(
            acc,
            "type-pair",
            &format!("{} ; {}", a.print().replace('|', "/"), b.print().replace('|', "/")),
            json!({"types": [a.print(), b.print()]}),
            bound.min(1),
            400,
            &mut || guard(|| binary_api(a, b)).unwrap_or_else(|e| format!("{e:?}")),
        );
    });
    for a in accs {
        merge(&mut acc, a);
    }
    let type_cases = acc.base_cases;

    // (B) programs exercising every order-sensitive site
    let accs = par_fold(PROGRAMS.len(), Acc::default, |acc, i| {
        let text = PROGRAMS[i];
        explore(acc, "program", &format!("#{i} {}", text.chars().take(50).collect::<String>().replace('|', "/")), json!({"kind": "program", "stdlib": true, "text": text}), bound, if thorough { 40_000 } else { 4000 }, &mut || program_outcome(text));
        // the same parsed program run again, in this process, after the runs above: same outcome
        {
            verif::set_fuel(Some(core::QUICK_FUEL), Some(core::DEPTH));
            let interp = Interpreter::with_stdlib();
            if let Ok(Ok(code)) = guard(|| Code::parse(&interp, text)) {
                let run = |code: &Code| match guard(|| code.exec()) {
                    Ok(Ok(v)) => format!("value={}", canon_typed(&v)),
                    Ok(Err(e)) => format!("error:{}", core::exec_error_kind(&e)),
                    Err(Stop::Panic(p)) => format!("panic:{}@{}", p.short_msg(), p.file()),
                    Err(Stop::Exhausted) => "exhausted".into(),
                };
                let first = run(&code);
                let second = run(&code);
                let third = run(&code.clone());
                acc.runs += 3;
                if first != second || first != third {
                    acc.violations.push(Violation {
                        sig: format!("C05|same-parsed-program-run-again-differs|#{i}"),
                        detail: json!({"kind": "program", "stdlib": true, "text": text, "first_run": first, "second_run": second, "third_run": third}),
                    });
                }
            }
            verif::set_fuel(None, None);
        }
        // every program must be accepted and complete under the canonical order (non-vacuity)
        let base = program_outcome(text);
        if !base.contains("value=") && !(FAILING.contains(&text) && base.contains("error:")) {
            acc.violations.push(Violation {
                sig: format!("C05|family-program-does-not-complete|#{i}"),
                detail: json!({"kind": "program", "stdlib": true, "text": text, "observed": base}),
            });
        }
    });
    for a in accs {
        merge(&mut acc, a);
    }

    // (B3) the checker's own tables are unions too (accepted operand types of the operators):
    //      which declared result types an operator application fits must not depend on their
    //      order - every binary operator x operand type pair (with the degenerate types `!`,
    //      `any`, `[!]`, unions) x declared result type, under the order oracle
    {
        const OPS: &[&str] = &["+", "-", "*", "/", "%", "**", "<<", ">>", "&", "|", "^", "==", "!=", "<", "<=", ">", ">=", "&&", "||"];
        const TYS: &[&str] = &["!", "any", "int", "float", "int|float", "bool", "int|bool", "string", "[int]", "[!]", "[int|float]"];
        const RESULTS: &[&str] = &["int", "float", "bool", "string", "[int]", "[float]", "!"];
        let n = OPS.len() * TYS.len() * TYS.len();
        let accs = par_fold(n, Acc::default, |acc, i| {
            let op = OPS[i / (TYS.len() * TYS.len())];
            let a = TYS[(i / TYS.len()) % TYS.len()];
            let b = TYS[i % TYS.len()];
            let outcome = || {
                let interp = Interpreter::with_stdlib();
                RESULTS
                    .iter()
                    .map(|r| {
                        let text = format!("f := (a: {a}, b: {b}) -> {r} {{ return a {op} b }}");
                        match guard(|| Code::parse(&interp, &text)) {
                            Ok(Ok(_)) => format!("{r}:accepted"),
                            Ok(Err(e)) => format!("{r}:{}", core::error_kind(&e)),
                            Err(Stop::Panic(p)) => format!("{r}:panic:{}@{}", p.short_msg(), p.file()),
                            Err(Stop::Exhausted) => format!("{r}:exhausted"),
                        }
                    })
                    .collect::<Vec<_>>()
                    .join(" ")
            };
            explore(
                acc,
                "operator-typing",
                &format!("{} {op} {}", a.replace('|', "/"), b.replace('|', "/")),
                json!({"kind": "program", "stdlib": true, "text": format!("f := (a: {a}, b: {b}) -> R {{ return a {op} b }}"), "R": RESULTS}),
                bound,
                2000,
                &mut || outcome(),
            );
        });
        for a in accs {
            merge(&mut acc, a);
        }
    }

    // (B4) prior work: what a program answers does not depend on what ran before it on the same
    //      thread (values of the same shape and another type made and dropped just before, at
    //      addresses the allocator hands out again) - every ordered pair (W, P) of probe programs,
    //      W then P on a fresh thread, against P alone on a fresh thread; probes test the
    //      run-time type of temporaries of every container kind
    {
        const CLASSIFY: &str = "f := (v: any) -> any { return match v { q: struct{a: int} => \"struct-int\", q: struct{a: string} => \"struct-string\", q: struct{a: int, b: int} => \"struct-two\", q: struct{} => \"struct-empty\", q: [int] => \"array-int\", q: [string] => \"array-string\", q: (int, int) => \"tuple-int\", q: (string, int) => \"tuple-string\", q: () -> int => \"fn-int\", q: () -> string => \"fn-string\", q: mut int => \"cell-int\", q: mut string => \"cell-string\", => \"other\", } };";
        const VALUES: &[(&str, &str)] = &[
            ("struct{ a := 1 }", "struct-int"), ("struct{ a := \"s\" }", "struct-string"), ("struct{ a := 1, b := 2 }", "struct-int"), ("struct{}", "struct-empty"),
            ("[1]", "array-int"), ("[\"s\"]", "array-string"), ("(1, 2)", "tuple-int"), ("(\"s\", 2)", "tuple-string"),
            ("() -> int { return 1 }", "fn-int"), ("() -> string { return \"s\" }", "fn-string"), ("mut 1", "cell-int"), ("mut \"s\"", "cell-string"),
            ("struct{ a := 2.5 }", "struct-empty"), ("[2.5]", "other"),
        ];
        let probes: Vec<(String, String)> = VALUES
            .iter()
            .flat_map(|(v, want)| {
                vec![
                    (format!("{CLASSIFY} f({v})"), format!("value=\"{want}\"")),
                    (format!("{CLASSIFY} w := {v}; if q: struct{{a: int}} = w {{ \"struct-int\" }} else {{ f(w) }}"), format!("value=\"{want}\"")),
                ]
            })
            .chain([(format!("{CLASSIFY} (f(struct{{ a := 1 }}), f(struct{{ a := \"s\" }}), f(struct{{ a := 2 }}), f(struct{{}}), f([1]), f([\"s\"]), f((1, 2)), f((\"s\", 2)))"), "value=(\"struct-int\", \"struct-string\", \"struct-int\", \"struct-empty\", \"array-int\", \"array-string\", \"tuple-int\", \"tuple-string\")".to_string())])
            .collect();
        let np = probes.len();
        let accs = par_fold(np * (np + 1), Acc::default, |acc, idx| {
            let (wi, pi) = (idx / np, idx % np);
            let (p_text, p_want) = (probes[pi].0.clone(), probes[pi].1.clone());
            // wi == np: P alone
            let w_text = (wi < np).then(|| probes[wi].0.clone());
            let got = core::on_big_stack({
                let (p_text, w_text) = (p_text.clone(), w_text.clone());
                move || {
                    if let Some(w) = &w_text {
                        let _ = program_outcome(w);
                    }
                    program_outcome(&p_text)
                }
            });
            acc.runs += 1;
            if !got.contains(&p_want) {
                acc.violations.push(Violation {
                    sig: format!("C05|outcome-depends-on-prior-work|probe#{pi}|after={}", if wi < np { format!("probe#{wi}") } else { "nothing".into() }),
                    detail: json!({"kind": "program", "stdlib": true, "text": p_text, "run_before_on_the_same_thread": w_text, "expected_to_contain": p_want, "observed": got}),
                });
            }
        });
        for a in accs {
            merge(&mut acc, a);
        }
    }

    // (B4c) constructs whose answer depends on a type written in the program (type filter, match type
    //       arm, if-set), for every ordered pair (T1, T2) of a palette in which many types share
    //       whatever a coarse summary keeps (member count of a union, field names of a struct type,
    //       arity of a tuple): the construct for T1, then the one for T2, one after the other on one
    //       thread of this process - and nothing else running meanwhile, the family is sequential.
    //       The expected answer is computed per element by the reference membership judgement, so a
    //       memory of an earlier type anywhere in the process shows, whichever program left it
    {
        use crate::ty::belongs;
        let st = |f: &[(&str, Ty)]| Ty::strukt(f);
        let types: Vec<Ty> = vec![
            Ty::Int,
            Ty::arr(Ty::Int),
            Ty::union([Ty::Int, Ty::Float]),
            Ty::union([Ty::Str, Ty::Bool]),
            Ty::union([Ty::Int, Ty::Str]),
            Ty::union([Ty::Float, Ty::Bool]),
            Ty::union([Ty::arr(Ty::Int), Ty::arr(Ty::Float)]),
            Ty::union([Ty::arr(Ty::Int), Ty::Str]),
            Ty::arr(Ty::union([Ty::Int, Ty::Float])),
            Ty::arr(Ty::union([Ty::Str, Ty::Bool])),
            st(&[("a", Ty::Int)]),
            st(&[("a", Ty::Str)]),
            st(&[("a", Ty::union([Ty::Int, Ty::Str]))]),
            st(&[("a", Ty::union([Ty::Float, Ty::Bool]))]),
            Ty::Tup(vec![Ty::Int, Ty::Int]),
            Ty::Tup(vec![Ty::Str, Ty::Int]),
            Ty::Tup(vec![Ty::union([Ty::Int, Ty::Str]), Ty::Int]),
            Ty::union([Ty::Int, Ty::Float, Ty::Str]),
            Ty::union([Ty::Bool, Ty::arr(Ty::Int), Ty::Tup(vec![Ty::Int, Ty::Int])]),
            Ty::mutc(Ty::union([Ty::Int, Ty::Float])),
            Ty::mutc(Ty::union([Ty::Str, Ty::Bool])),
        ];
        const ELEMS: &str = "[1, 2.5, \"a\", true, [1], [2.5], [\"s\"], (1, 2), (\"s\", 2), struct{ a := 1 }, struct{ a := \"s\" }, struct{ a := 2.5 }, mut int|float 1, mut string|bool \"s\"]";
        let elems: Vec<Variable> = match Code::parse(&Interpreter::with_stdlib(), ELEMS).ok().and_then(|c| c.exec().ok()) {
            Some(Variable::Array(a)) => a.iter().cloned().collect(),
            _ => Vec::new(),
        };
        let forms: [(&str, fn(&str) -> String); 3] = [
            ("type-filter", |t| format!("{ELEMS}~ ? {t} $]")),
            ("match-arm", |t| format!("{ELEMS}~ ? (v: any) -> bool {{ return match v {{ q: {t} => true, => false, }} }} $]")),
            ("if-set", |t| format!("{ELEMS}~ ? (v: any) -> bool {{ return if q: {t} = v {{ true }} else {{ false }} }} $]")),
        ];
        let mut fam = Acc::default();
        if elems.len() != 14 {
            fam.violations.push(Violation { sig: "C05|type-dependent-after-other-type|element-list-not-built".into(), detail: json!({"kind": "program", "stdlib": true, "text": ELEMS}) });
        }
        let mut seen_outcomes: BTreeSet<String> = BTreeSet::new();
        core::on_big_stack(|| {
            for (fname, form) in forms.iter() {
                for t1 in types.iter() {
                    for t2 in types.iter() {
                        let w = form(&t1.print());
                        let p = form(&t2.print());
                        let _ = program_outcome(&w);
                        let got = program_outcome(&p);
                        fam.runs += 1;
                        fam.base_cases += 1;
                        let want: Vec<String> = elems.iter().filter(|e| belongs(e, t2)).map(crate::val::canon).collect();
                        // the elements themselves, from one more evaluation of P (the outcome text carries type tags)
                        let again = guard(|| Code::parse(&Interpreter::with_stdlib(), &p).ok().and_then(|c| c.exec().ok())).ok().flatten();
                        let again_elems: Option<Vec<String>> = match again {
                            Some(Variable::Array(a)) => Some(a.iter().map(crate::val::canon).collect()),
                            _ => None,
                        };
                        seen_outcomes.insert(format!("{}", want.len()));
                        if again_elems.as_ref() != Some(&want) {
                            fam.violations.push(Violation {
                                sig: format!("C05|type-dependent-after-other-type|{fname}|type={}|after={}", t2.print().replace('|', "/"), t1.print().replace('|', "/")),
                                detail: json!({"kind": "program", "stdlib": true, "text": p, "run_before_on_the_same_thread": w, "expected_elements": want, "observed_elements": again_elems, "observed": got}),
                            });
                        }
                    }
                }
            }
        });
        if seen_outcomes.len() < 3 {
            fam.violations.push(Violation { sig: "C05|type-dependent-after-other-type|vacuous".into(), detail: json!({"kind": "program", "stdlib": true, "text": ELEMS}) });
        }
        merge(&mut acc, fam);
    }

    // (B4b) prior work that ends early: a program that *fails part-way* through a consumer (after
    //       some elements were pulled), or completes, then a probe through every consumer on the
    //       same thread - every (work source x work consumer) x (probe source x probe consumer)
    //       against the probe alone on a fresh thread (scratch state kept from one evaluation to
    //       the next would show as elements or effects of the earlier program)
    {
        const CONSUMERS: &[(&str, &str)] = &[
            ("$]", "IT $]"),
            ("$+", "IT $+"),
            ("$*", "IT $*"),
            ("$&", "IT $&"),
            ("$|", "IT $|"),
            ("for", "acc := mut [int] []; for e in IT { acc += [e] }; *acc"),
            ("$ init f", "IT $ 0 (a: int, e: int) -> int { return a * 10 + e }"),
            ("partition", "IT \\ (e: int) -> bool { return e > 7 }"),
            ("map then $]", "IT @ (e: int) -> int { return e + 1 } $]"),
            ("filter then $]", "IT ? (e: int) -> bool { return e > 0 } $]"),
            ("type filter then $]", "IT ? int $]"),
            ("nested collect", "[IT $], IT $]]"),
            ("string of the collected", "std.convert.to_string(IT $])"),
            ("slice of the collected", "(IT $])[::-1]"),
        ];
        const WORK_SOURCES: &[&str] = &[
            "([1, 2, 0, 4]~ @ (v: int) -> int { return 10 / v })",
            "({ i := mut 3; () -> (bool, int) { i -= 1; return (true, 10 / *i) } })",
            "([5, 6, 99]~ @ (v: int) -> int { return [1, 2, 3, 4, 5, 6, 7][v] })",
            "([1, 2, 3]~)",
        ];
        const PROBE_SOURCES: &[&str] = &["([7, 8, 9]~)", "([7, 8, 9]~ @ (v: int) -> int { return v * 2 })", "([]~ ? int)"];
        let works: Vec<String> = WORK_SOURCES.iter().flat_map(|src| CONSUMERS.iter().map(move |(_, c)| c.replace("IT", src))).collect();
        let probes: Vec<(String, String)> = PROBE_SOURCES
            .iter()
            .flat_map(|src| CONSUMERS.iter().map(move |(cn, c)| (format!("{cn} over {src}"), c.replace("IT", src))))
            .collect();
        let alone: Vec<String> = probes.iter().map(|(_, p)| { let p = p.clone(); core::on_big_stack(move || program_outcome(&p)) }).collect();
        let (nw, np) = (works.len(), probes.len());
        let accs = par_fold(nw * np, Acc::default, |acc, idx| {
            let (wi, pi) = (idx / np, idx % np);
            let got = core::on_big_stack({
                let (w, p) = (works[wi].clone(), probes[pi].1.clone());
                move || {
                    let _ = program_outcome(&w);
                    program_outcome(&p)
                }
            });
            acc.runs += 1;
            if got != alone[pi] {
                acc.violations.push(Violation {
                    sig: format!("C05|outcome-depends-on-prior-work|probe={}|after-work#{wi}", probes[pi].0.replace('|', "/")),
                    detail: json!({"kind": "program", "stdlib": true, "text": probes[pi].1, "run_before_on_the_same_thread": works[wi], "alone_on_a_fresh_thread": alone[pi], "observed": got}),
                });
            }
        });
        for a in accs {
            merge(&mut acc, a);
        }
    }

    // (B2) an imported file is checked and folded in the scope of the program that imports it, and is
    //      an input: the same path imported by different programs, and by the same program after the
    //      file changed, gives each time what a first import gives (no memory of earlier parses)
    {
        let dir = std::env::temp_dir().join(format!("sslverif-c05-{}", std::process::id()));
        let _ = std::fs::create_dir_all(&dir);
        let changing = dir.join("changing.ssl");
        let changing_s = changing.display().to_string();
        let outer = "/verif/harness/corpus/uses_outer.ssl";
        let steps: Vec<(Option<&str>, String, &str)> = vec![
            (None, format!("x := 10; m := import \"{outer}\"; (m.y, m.z(1))"), "value=(11, 11)"),
            (None, format!("x := 1; m := import \"{outer}\"; (m.y, m.z(1))"), "value=(2, 2)"),
            (None, format!("m := import \"{outer}\"; m.y"), "rejected:VariableDoesntExist"),
            (None, format!("x := \"s\"; m := import \"{outer}\"; m.y"), "rejected:"),
            (None, format!("x := 10; m := import \"{outer}\"; (m.y, m.z(1))"), "value=(11, 11)"),
            (Some("y := 1;"), format!("m := import \"{changing_s}\"; m.y"), "value=1"),
            (Some("y := \"two\";"), format!("m := import \"{changing_s}\"; m.y"), "value=\"two\""),
            (Some("y := 1 +;"), format!("m := import \"{changing_s}\"; m.y"), "rejected:"),
            (Some("y := 3;"), format!("m := import \"{changing_s}\"; m.y"), "value=3"),
        ];
        let got: Vec<String> = core::on_big_stack(|| {
            steps
                .iter()
                .map(|(content, text, _)| {
                    if let Some(c) = content {
                        std::fs::write(&changing, c).expect("write scratch file");
                    }
                    program_outcome(text)
                })
                .collect()
        });
        let _ = std::fs::remove_dir_all(&dir);
        for (k, ((content, text, want), got)) in steps.iter().zip(&got).enumerate() {
            acc.runs += 1;
            if !got.contains(want) {
                acc.violations.push(Violation {
                    sig: format!("C05|import-depends-on-earlier-parses|step#{k}"),
                    detail: json!({"kind": "program", "stdlib": true, "text": text, "file_content_written_before": content, "earlier_steps": steps[..k].iter().map(|s| s.1.clone()).collect::<Vec<_>>(), "expected_to_contain": want, "observed": got}),
                });
            }
        }
    }

    // (C) tie-back to the real RandomState: the same programs in a build WITHOUT the hooks,
    //     repeated in one process and across processes, must give the canonical-order outcome
    let (native_runs, native_viol) = native_tie_back(if thorough { 40 } else { 8 }, if thorough { 4 } else { 2 });
    report.violations(native_viol);

    samples.push(|| json!({"type_query_case": u[u.len() / 2].print(), "outcome": unary_api(&u[u.len() / 2])}));
    samples.push(|| json!({"program": PROGRAMS[0], "outcome": program_outcome(PROGRAMS[0])}));
    samples.push(|| json!({"program": PROGRAMS[15], "outcome": program_outcome(PROGRAMS[15])}));
    let Acc { base_cases, runs, choice_points, capped, outcomes, violations } = acc;
    report.violations(violations);
    let coverage = json!({
        "states": base_cases,
        "transitions": runs,
        "traces_validated_against_impl": runs,
        "base_cases": base_cases,
        "type_api_cases": type_cases,
        "programs": PROGRAMS.len(),
        "order_assignments_run": runs,
        "native_build_runs_with_real_hashing": native_runs,
        "choice_points_total": choice_points,
        "deviation_bound": bound,
        "cases_whose_exploration_was_capped": capped,
        "distinct_outcomes": outcomes.len(),
        "samples": samples.items,
        "exhaustive": capped == 0,
        "rule": "for each base case every assignment of iteration orders to hash-collection instances with at most k non-canonical instances is run on the real code; the canonicalised outcome (acceptance, error kind, static type and value with unions / fields sorted) must be identical",
    });
    report.finish(
        "model_checking",
        coverage,
        &[
            "the seed of a hash collection is observable only through its iteration order and through Hash impls that iterate; both go through the oracle",
            "the crates use no other source of nondeterminism (no time, randomness or pointer formatting): by inspection",
            "iteration order of struct *values* (HashMap<name, Variable>) is not under the oracle; outcomes are compared on sorted dumps",
        ],
    )
}
