//! C08 — scalar operators are total and follow the documented arithmetic.
//! Every operator x the full boundary grid G x G x {folded literal, parameter,
//! compound assignment}, against big-integer / IEEE reference arithmetic.
use crate::core::{self, guard, par_fold, Stop};
use crate::report::{Report, Samples, Violation};
use crate::val::canon;
use serde_json::json;
use simplesl::function::Function;
use simplesl::variable::Variable;
use simplesl::{Code, Interpreter};
use std::collections::BTreeSet;
use std::sync::Arc;

pub fn int_grid(thorough: bool) -> Vec<i64> {
    let mut s: BTreeSet<i64> = BTreeSet::new();
    for v in [
        i64::MIN, i64::MIN + 1, -(1i64 << 32), -65, -64, -63, -2, -1, 0, 1, 2, 3, 62, 63, 64, 65, (1i64 << 32) - 1,
        1i64 << 32, (1i64 << 32) + 1, i64::MAX - 1, i64::MAX,
    ] {
        s.insert(v);
    }
    if thorough {
        for k in [0u32, 1, 2, 3, 4, 5, 6, 7, 8, 15, 16, 17, 30, 31, 32, 33, 47, 52, 53, 61, 62] {
            let p = 1i64 << k;
            for d in [-1i64, 0, 1] {
                s.insert(p.wrapping_add(d));
                s.insert((-p).wrapping_add(d));
            }
        }
        for v in [10, 100, 1000, -10, 7, -7, 255, 256, 257, 3037000499, 3037000500, -3037000500, 6700417, 641] {
            s.insert(v);
        }
    }
    s.into_iter().collect()
}

pub fn float_grid() -> Vec<f64> {
    vec![
        0.0, -0.0, 1.0, -1.0, 0.5, 1.5, -2.5, f64::INFINITY, f64::NEG_INFINITY, f64::NAN, 5e-324, f64::MIN_POSITIVE,
        f64::MAX, 1e308, 9007199254740993.0, 2.0, 3.0,
    ]
}

pub fn int_lit(v: i64) -> String {
    if v == i64::MIN {
        "(-9223372036854775807 - 1)".into()
    } else if v < 0 {
        format!("(0 - {})", -(v as i128))
    } else {
        format!("{v}")
    }
}

pub fn float_lit(v: f64) -> Option<String> {
    if !v.is_finite() {
        return None;
    }
    let s = format!("{:?}", v.abs());
    let s = if s.contains('.') || s.contains('e') { s } else { format!("{s}.0") };
    // the grammar needs digits on both sides of '.', or an exponent
    Some(if v.is_sign_negative() { format!("(-{s})") } else { s })
}

#[derive(Clone, Debug, PartialEq)]
pub enum Ref {
    Val(String),
    Err(&'static str),
}

fn wrap(v: i128) -> i64 {
    v as i64 // two's complement truncation = reduction mod 2^64
}

fn pow_mod(base: i64, exp: i64) -> i64 {
    // square-and-multiply over the full 63-bit exponent, in Z / 2^64 (u128 products of residues < 2^64)
    let m: u128 = 1u128 << 64;
    let mut acc: u128 = 1;
    let mut b: u128 = (base as i128).rem_euclid(m as i128) as u128;
    let mut e = exp as u64;
    while e > 0 {
        if e & 1 == 1 {
            acc = (acc * b) % m;
        }
        b = (b * b) % m;
        e >>= 1;
    }
    acc as u64 as i64
}

/// reference for int operators, from docs/operators.md and the property statement
pub fn ref_int(op: &str, a: i64, b: i64) -> Ref {
    let (x, y) = (a as i128, b as i128);
    let v = |i: i64| Ref::Val(format!("{i}"));
    let t = |c: bool| Ref::Val(format!("{c}"));
    match op {
        "+" => v(wrap(x + y)),
        "-" => v(wrap(x - y)),
        "*" => v(wrap(x * y)),
        "/" => {
            if b == 0 {
                Ref::Err("ZeroDivision")
            } else {
                v(wrap(x / y)) // i128 division truncates toward zero; MIN / -1 = 2^63 wraps to MIN
            }
        }
        "%" => {
            if b == 0 {
                Ref::Err("ZeroModulo")
            } else {
                v(wrap(x % y)) // sign of the dividend
            }
        }
        "**" => {
            if b < 0 {
                Ref::Err("NegativeExponent")
            } else {
                v(pow_mod(a, b))
            }
        }
        "<<" => {
            if !(0..=63).contains(&b) {
                Ref::Err("OverflowShift")
            } else {
                v(wrap(x << (b as u32)))
            }
        }
        ">>" => {
            if !(0..=63).contains(&b) {
                Ref::Err("OverflowShift")
            } else {
                v(wrap(x >> (b as u32))) // arithmetic on a signed value
            }
        }
        "&" => v(a & b),
        "|" => v(a | b),
        "^" => v(a ^ b),
        "==" => t(a == b),
        "!=" => t(a != b),
        "<" => t(a < b),
        "<=" => t(a <= b),
        ">" => t(a > b),
        ">=" => t(a >= b),
        _ => unreachable!(),
    }
}

pub fn ref_float(op: &str, a: f64, b: f64) -> Ref {
    let v = |f: f64| Ref::Val(crate::val::float_canon(f));
    let t = |c: bool| Ref::Val(format!("{c}"));
    match op {
        "+" => v(a + b),
        "-" => v(a - b),
        "*" => v(a * b),
        "/" => v(a / b),
        "**" => v(a.powf(b)),
        "==" => t(a == b),
        "!=" => t(a != b),
        "<" => t(a < b),
        "<=" => t(a <= b),
        ">" => t(a > b),
        ">=" => t(a >= b),
        _ => unreachable!(),
    }
}

const INT_OPS: &[&str] = &["+", "-", "*", "/", "%", "**", "<<", ">>", "&", "|", "^", "==", "!=", "<", "<=", ">", ">="];
const INT_ASSIGN_OPS: &[&str] = &["+", "-", "*", "/", "%", "**", "<<", ">>", "&", "|", "^"];
const FLOAT_OPS: &[&str] = &["+", "-", "*", "/", "**", "==", "!=", "<", "<=", ">", ">="];
const FLOAT_ASSIGN_OPS: &[&str] = &["+", "-", "*", "/", "**"];

fn define(interp: &Interpreter, src: &str) -> Arc<Function> {
    match Code::parse(interp, src).map(|c| c.exec()) {
        Ok(Ok(Variable::Function(f))) => f,
        other => {
            eprintln!("MACHINERY ERROR: C08 operator function not accepted: {src}: {other:?}");
            std::process::exit(2);
        }
    }
}

fn observe(r: Result<Result<Variable, simplesl::ExecError>, Stop>) -> Ref {
    match r {
        Ok(Ok(v)) => Ref::Val(canon(&v)),
        Ok(Err(e)) => Ref::Err(leak(core::exec_error_kind(&e))),
        Err(Stop::Panic(p)) => Ref::Err(leak(format!("PANIC {} @{}", p.short_msg(), p.file()))),
        Err(Stop::Exhausted) => Ref::Err("EXHAUSTED"),
    }
}

fn leak(s: String) -> &'static str {
    // bounded: only error-kind strings
    thread_local! { static POOL: std::cell::RefCell<std::collections::HashMap<String, &'static str>> = Default::default(); }
    POOL.with(|p| {
        let mut p = p.borrow_mut();
        if let Some(x) = p.get(&s) {
            return *x;
        }
        let l: &'static str = Box::leak(s.clone().into_boxed_str());
        p.insert(s, l);
        l
    })
}

fn call(f: &Arc<Function>, args: Vec<Variable>) -> Ref {
    let code = match f.clone().create_call(args) {
        Ok(c) => c,
        Err(e) => return Ref::Err(leak(format!("HOST-REJECTED {}", core::error_kind(&e)))),
    };
    observe(guard(|| code.exec()))
}

fn literal(interp: &Interpreter, text: &str) -> Ref {
    match guard(|| Code::parse(interp, text)) {
        Ok(Ok(code)) => observe(guard(|| code.exec())),
        Ok(Err(e)) => {
            if core::is_exec_kind(&e) {
                // a failing constant operation may be reported at parse time: same error kind
                Ref::Err(leak(core::error_kind(&e)))
            } else {
                Ref::Err(leak(format!("REJECTED {}", core::error_kind(&e))))
            }
        }
        Err(Stop::Panic(p)) => Ref::Err(leak(format!("PANIC {} @{}", p.short_msg(), p.file()))),
        Err(Stop::Exhausted) => Ref::Err("EXHAUSTED"),
    }
}

struct OpFns {
    op: &'static str,
    param: Arc<Function>,
    compound: Option<Arc<Function>>,
}

#[derive(Default)]
struct Acc {
    evals: u64,
    errors: u64,
    outcomes: BTreeSet<String>,
    violations: Vec<Violation>,
}

fn class_of(a: i64) -> &'static str {
    match a {
        i64::MIN => "MIN",
        i64::MAX => "MAX",
        0 => "0",
        -1 => "-1",
        x if x < 0 => "neg",
        x if x >= (1 << 32) => "big",
        _ => "pos",
    }
}

/// Nested forms: `a op1 b op2 c` is two operations in source order (left to right for these
/// operators), each rounded / wrapped on its own, whichever operands are constants - a folder
/// that combines constants across a run-time operand changes rounding, overflow and underflow.
/// Every operator pair x operand triple on a small grid x {all run-time, each single operand
/// run-time, all literal}; chains whose reference fails are not compared (C04, C12 own those).
fn chains(thorough: bool) -> (u64, Vec<Violation>) {
    let fvals: Vec<f64> = vec![0.0, -0.0, 1.0, 0.1, 0.2, 0.3, -2.5, 3.0, f64::INFINITY, 5e-324, 1e-300, 1e200, 1e308, f64::MAX];
    let ivals: Vec<i64> = if thorough { vec![0, 1, -1, 2, 3, 7, 63, 64, i64::MAX, i64::MIN, 3037000500, -10] } else { vec![0, 1, -1, 2, 3, 7, 64, i64::MAX, i64::MIN] };
    const FOPS: &[&str] = &["+", "-", "*", "/"];
    const IOPS: &[&str] = &["+", "-", "*", "/", "%", "<<", ">>", "&", "|", "^"];
    let fnum = |r: &Ref| -> Option<f64> {
        match r {
            Ref::Val(v) if v == "NaN" => Some(f64::NAN),
            Ref::Val(v) => v.trim_start_matches('f').parse().ok(),
            _ => None,
        }
    };
    // work items: (is_float, op1, op2, index of a)
    let mut items: Vec<(bool, bool, &str, &str, usize)> = Vec::new();
    for o1 in FOPS {
        for o2 in FOPS {
            for ia in 0..fvals.len() {
                items.push((true, true, o1, o2, ia));
                items.push((true, false, o1, o2, ia));
            }
        }
    }
    for o1 in IOPS {
        for o2 in IOPS {
            for ia in 0..ivals.len() {
                items.push((false, true, o1, o2, ia));
                items.push((false, false, o1, o2, ia));
            }
        }
    }
    let accs = par_fold(items.len(), || (Interpreter::with_stdlib(), Acc::default()), |(interp, acc), i| {
        let (is_float, left, o1, o2, ia) = items[i];
        // explicit parentheses: grouping is C14's subject, not this check's
        let shape = |x: &str, y: &str, z: &str| if left { format!("({x} {o1} {y}) {o2} {z}") } else { format!("{x} {o1} ({y} {o2} {z})") };
        let n = if is_float { fvals.len() } else { ivals.len() };
        let ty = if is_float { "float" } else { "int" };
        let all_rt = define(interp, &format!("f := (a: {ty}, b: {ty}, c: {ty}) -> any {{ return {} }}", shape("a", "b", "c")));
        for ib in 0..n {
            for ic in 0..n {
                let (expect, lits, args): (Ref, [Option<String>; 3], Vec<Variable>) = if is_float {
                    let (a, b, c) = (fvals[ia], fvals[ib], fvals[ic]);
                    let e = if left {
                        let Some(x) = fnum(&ref_float(o1, a, b)) else { continue };
                        ref_float(o2, x, c)
                    } else {
                        let Some(x) = fnum(&ref_float(o2, b, c)) else { continue };
                        ref_float(o1, a, x)
                    };
                    (e, [float_lit(a), float_lit(b), float_lit(c)], vec![a.into(), b.into(), c.into()])
                } else {
                    let (a, b, c) = (ivals[ia], ivals[ib], ivals[ic]);
                    let e = if left {
                        let Ref::Val(x) = ref_int(o1, a, b) else { continue };
                        let Ok(x) = x.parse::<i64>() else { continue };
                        ref_int(o2, x, c)
                    } else {
                        let Ref::Val(x) = ref_int(o2, b, c) else { continue };
                        let Ok(x) = x.parse::<i64>() else { continue };
                        ref_int(o1, a, x)
                    };
                    (e, [Some(int_lit(a)), Some(int_lit(b)), Some(int_lit(c))], vec![a.into(), b.into(), c.into()])
                };
                if matches!(expect, Ref::Err(_)) {
                    continue;
                }
                // masks: bit k set = operand k is a literal
                for mask in [0b000usize, 0b110, 0b101, 0b011, 0b111] {
                    if (0..3).any(|k| mask & (1 << k) != 0 && lits[k].is_none()) {
                        continue;
                    }
                    let got = if mask == 0 {
                        call(&all_rt, args.clone())
                    } else if mask == 0b111 {
                        literal(interp, &shape(lits[0].as_ref().unwrap(), lits[1].as_ref().unwrap(), lits[2].as_ref().unwrap()))
                    } else {
                        let rt = (0..3).find(|k| mask & (1 << k) == 0).unwrap();
                        let name = |k: usize| if k == rt { "x".to_string() } else { lits[k].clone().unwrap() };
                        let text = format!("f := (x: {ty}) -> any {{ return {} }}", shape(&name(0), &name(1), &name(2)));
                        match guard(|| Code::parse(interp, &text)) {
                            Ok(Ok(code)) => match guard(|| code.exec()) {
                                Ok(Ok(Variable::Function(g))) => call(&g, vec![args[rt].clone()]),
                                _ => Ref::Err("DEFINE FAILED"),
                            },
                            Ok(Err(e)) => Ref::Err(leak(format!("REJECTED {}", core::error_kind(&e)))),
                            Err(Stop::Panic(p)) => Ref::Err(leak(format!("PANIC {} @{}", p.short_msg(), p.file()))),
                            Err(Stop::Exhausted) => Ref::Err("EXHAUSTED"),
                        }
                    };
                    acc.evals += 1;
                    if got != expect && got != Ref::Err("EXHAUSTED") {
                        let shown: Vec<String> = args.iter().map(|v| canon(v)).collect();
                        acc.violations.push(Violation {
                            sig: format!("C08|{ty} chain {}|literal-operands={mask:03b}|a={}|b={}|c={}", shape("a", "b", "c"), shown[0], shown[1], shown[2]),
                            detail: json!({"kind": "scalar", "expression": shape("a", "b", "c"), "a": shown[0], "b": shown[1], "c": shown[2], "literal_operand_mask (bit k = operand k)": format!("{mask:03b}"), "expected": format!("{expect:?}"), "observed": format!("{got:?}")}),
                        });
                    }
                }
            }
        }
    });
    let mut n = 0u64;
    let mut out = Vec::new();
    for (_, a) in accs {
        n += a.evals;
        out.extend(a.violations);
    }
    (n, out)
}

/// Unary minus around, inside and on both sides of every binary operator (arithmetic and
/// comparisons): `-(a op b)`, `(-a) op b`, `a op (-b)`, `(-a) op (-b)`, `-(-a op b)` over the
/// boundary values (equal operands, zeros of both signs, NaN, infinities, MIN_INT), with the
/// operands run-time values, literals, and one of each. Reference: the operator's own result on
/// the negated value(s), negation being IEEE sign flip / wrapping negation.
fn prefix_over_binary() -> (u64, Vec<Violation>) {
    let fvals: Vec<f64> = vec![0.0, -0.0, 1.5, -1.5, 0.25, 2.0, f64::INFINITY, f64::NEG_INFINITY, f64::NAN, 5e-324, 1e308];
    let ivals: Vec<i64> = vec![0, 1, -1, 2, 5, -5, 63, i64::MAX, i64::MIN, i64::MIN + 1];
    const FOPS: &[&str] = &["+", "-", "*", "/", "==", "!=", "<", "<=", ">", ">="];
    const IOPS: &[&str] = &["+", "-", "*", "/", "%", "<<", ">>", "&", "|", "^", "==", "!=", "<", "<=", ">", ">="];
    // (shape text, negate a first, negate b first, negate the result, negate a again inside)
    const SHAPES: &[(&str, bool, bool, bool)] = &[
        ("-(A OP B)", false, false, true),
        ("(-A) OP B", true, false, false),
        ("A OP (-B)", false, true, false),
        ("(-A) OP (-B)", true, true, false),
        ("-((-A) OP B)", true, false, true),
        ("-A OP -B", true, true, false),
    ];
    let mut items: Vec<(bool, usize, usize)> = Vec::new();
    for si in 0..SHAPES.len() {
        for oi in 0..FOPS.len() {
            items.push((true, si, oi));
        }
        for oi in 0..IOPS.len() {
            items.push((false, si, oi));
        }
    }
    let fnum = |r: &Ref| -> Option<f64> {
        match r {
            Ref::Val(v) if v == "NaN" => Some(f64::NAN),
            Ref::Val(v) => v.trim_start_matches('f').parse().ok(),
            _ => None,
        }
    };
    let accs = par_fold(items.len(), || (Interpreter::with_stdlib(), Acc::default()), |(interp, acc), i| {
        let (is_float, si, oi) = items[i];
        let (shape, neg_a, neg_b, neg_r) = SHAPES[si];
        let op = if is_float { FOPS[oi] } else { IOPS[oi] };
        let is_cmp = ["==", "!=", "<", "<=", ">", ">="].contains(&op);
        if neg_r && is_cmp {
            return; // minus of a bool is not an operation
        }
        // `-A OP -B` without parentheses is the same grouping for every operator below prefix minus
        let ty = if is_float { "float" } else { "int" };
        let text_of = |a: &str, b: &str| shape.replace("OP", op).replace('A', a).replace('B', b);
        let rt = define(interp, &format!("f := (a: {ty}, b: {ty}) -> any {{ return {} }}", text_of("a", "b")));
        let n = if is_float { fvals.len() } else { ivals.len() };
        for ia in 0..n {
            for ib in 0..n {
                let (expect, lits, args): (Ref, [Option<String>; 2], Vec<Variable>) = if is_float {
                    let (a, b) = (fvals[ia], fvals[ib]);
                    let (x, y) = (if neg_a { -a } else { a }, if neg_b { -b } else { b });
                    let r = ref_float(op, x, y);
                    let r = if neg_r { match fnum(&r) { Some(v) => Ref::Val(crate::val::float_canon(-v)), None => continue } } else { r };
                    (r, [float_lit(a), float_lit(b)], vec![a.into(), b.into()])
                } else {
                    let (a, b) = (ivals[ia], ivals[ib]);
                    let (x, y) = (if neg_a { a.wrapping_neg() } else { a }, if neg_b { b.wrapping_neg() } else { b });
                    let r = ref_int(op, x, y);
                    let r = if neg_r {
                        match &r {
                            Ref::Val(v) => match v.parse::<i64>() { Ok(v) => Ref::Val(v.wrapping_neg().to_string()), Err(_) => continue },
                            _ => r,
                        }
                    } else { r };
                    (r, [Some(int_lit(a)), Some(int_lit(b))], vec![a.into(), b.into()])
                };
                for mask in [0b00usize, 0b01, 0b10, 0b11] {
                    if (0..2).any(|k| mask & (1 << k) != 0 && lits[k].is_none()) {
                        continue;
                    }
                    let got = if mask == 0 {
                        call(&rt, args.clone())
                    } else if mask == 0b11 {
                        literal(interp, &text_of(lits[0].as_ref().unwrap(), lits[1].as_ref().unwrap()))
                    } else {
                        let k_rt = if mask == 0b01 { 1 } else { 0 };
                        let name = |k: usize| if k == k_rt { "x".to_string() } else { lits[k].clone().unwrap() };
                        let text = format!("f := (x: {ty}) -> any {{ return {} }}", text_of(&name(0), &name(1)));
                        match guard(|| Code::parse(interp, &text)) {
                            Ok(Ok(code)) => match guard(|| code.exec()) {
                                Ok(Ok(Variable::Function(g))) => call(&g, vec![args[k_rt].clone()]),
                                _ => Ref::Err("DEFINE FAILED"),
                            },
                            Ok(Err(e)) if core::is_exec_kind(&e) => Ref::Err(leak(core::error_kind(&e))),
                            Ok(Err(e)) => Ref::Err(leak(format!("REJECTED {}", core::error_kind(&e)))),
                            Err(Stop::Panic(p)) => Ref::Err(leak(format!("PANIC {} @{}", p.short_msg(), p.file()))),
                            Err(Stop::Exhausted) => Ref::Err("EXHAUSTED"),
                        }
                    };
                    acc.evals += 1;
                    if got != expect && got != Ref::Err("EXHAUSTED") {
                        let shown: Vec<String> = args.iter().map(|v| canon(v)).collect();
                        acc.violations.push(Violation {
                            sig: format!("C08|{ty} prefix minus with {op}|{shape}|literal-operands={mask:02b}|a={}|b={}", shown[0], shown[1]),
                            detail: json!({"kind": "scalar", "expression": text_of("a", "b"), "a": shown[0], "b": shown[1], "literal_operand_mask (bit k = operand k)": format!("{mask:02b}"), "expected": format!("{expect:?}"), "observed": format!("{got:?}")}),
                        });
                    }
                }
            }
        }
    });
    let mut n = 0u64;
    let mut out = Vec::new();
    for (_, a) in accs {
        n += a.evals;
        out.extend(a.violations);
    }
    (n, out)
}

pub fn run(tier: &str) -> i32 {
    let thorough = tier == "thorough";
    let mut report = Report::new("C08", tier);
    let grid = int_grid(thorough);
    let quick_grid = int_grid(false);
    let fgrid = float_grid();
    let mut samples = Samples::new(8);

    // ---------------- ints: G x G x ops x 3 forms
    let n = grid.len() * grid.len();
    let states = par_fold(
        n,
        || {
            let interp = Interpreter::with_stdlib();
            let fns: Vec<OpFns> = INT_OPS
                .iter()
                .map(|op| OpFns {
                    op,
                    param: define(&interp, &format!("f := (a: int, b: int) -> any {{ return a {op} b }}")),
                    compound: INT_ASSIGN_OPS.contains(op).then(|| {
                        define(&interp, &format!("f := (a: int, b: int) -> any {{ c := mut a; r := c {op}= b; return (r, *c) }}"))
                    }),
                })
                .collect();
            // failing compound assignment must leave the cell unchanged
            let failing: Vec<(&'static str, Arc<Function>)> = ["/", "%", "**", "<<", ">>"]
                .iter()
                .map(|op| {
                    (*op, define(&interp, &format!(
                        "f := (c: mut int, b: int) -> any {{ c {op}= b; return *c }}"
                    )))
                })
                .collect();
            (interp, fns, failing, Acc::default())
        },
        |(interp, fns, failing, acc), i| {
            let (a, b) = (grid[i / grid.len()], grid[i % grid.len()]);
            for f in fns.iter() {
                let expect = ref_int(f.op, a, b);
                if let Ref::Err(_) = expect {
                    acc.errors += 1;
                }
                let got_param = call(&f.param, vec![a.into(), b.into()]);
                let got_lit = literal(interp, &format!("{} {} {}", int_lit(a), f.op, int_lit(b)));
                acc.evals += 2;
                let mut check = |form: &str, got: &Ref, expect: &Ref| {
                    acc.outcomes.insert(format!("{:?}", got).chars().take(24).collect());
                    if got != expect {
                        acc.violations.push(Violation {
                            sig: format!("C08|int {}|form={form}|a={}|b={}|expected={}", f.op, class_of(a), class_of(b), match expect { Ref::Err(e) => e.to_string(), Ref::Val(_) => "value".into() }),
                            detail: json!({"kind": "scalar", "op": f.op, "a": a, "b": b, "form": form, "expected": format!("{expect:?}"), "observed": format!("{got:?}")}),
                        });
                    }
                };
                check("parameter", &got_param, &expect);
                check("literal", &got_lit, &expect);
                // one operand constant, the other passed at run time (where one-sided folds would sit)
                if quick_grid.contains(&a) && quick_grid.contains(&b) {
                    for (form, text, arg) in [
                        ("parameter-literal", format!("f := (a: int) -> any {{ return a {} {} }}", f.op, int_lit(b)), a),
                        ("literal-parameter", format!("f := (b: int) -> any {{ return {} {} b }}", int_lit(a), f.op), b),
                        ("parameter-bound-constant", format!("f := (a: int) -> any {{ k := {}; return a {} k }}", int_lit(b), f.op), a),
                    ] {
                        acc.evals += 1;
                        let got = match guard(|| Code::parse(interp, &text)) {
                            Ok(Ok(code)) => match guard(|| code.exec()) {
                                Ok(Ok(Variable::Function(g))) => call(&g, vec![arg.into()]),
                                _ => Ref::Err("DEFINE FAILED"),
                            },
                            Ok(Err(e)) if core::is_exec_kind(&e) => Ref::Err(leak(core::error_kind(&e))),
                            Ok(Err(e)) => Ref::Err(leak(format!("REJECTED {}", core::error_kind(&e)))),
                            Err(Stop::Panic(p)) => Ref::Err(leak(format!("PANIC {} @{}", p.short_msg(), p.file()))),
                            Err(Stop::Exhausted) => Ref::Err("EXHAUSTED"),
                        };
                        check(form, &got, &expect);
                    }
                }
                if let Some(cf) = &f.compound {
                    let got = call(cf, vec![a.into(), b.into()]);
                    acc.evals += 1;
                    let expect_c = match &expect {
                        Ref::Val(v) => Ref::Val(format!("({v}, {v})")),
                        e => e.clone(),
                    };
                    check("compound", &got, &expect_c);
                }
            }
            for (op, f) in failing.iter() {
                if let Ref::Err(kind) = ref_int(op, a, b) {
                    let cell = Variable::Mut(Arc::new(simplesl::variable::Mut {
                        var_type: simplesl::variable::Type::Int,
                        variable: Variable::Int(a).into(),
                    }));
                    let got = call(f, vec![cell.clone(), b.into()]);
                    acc.evals += 1;
                    let after = match &cell {
                        Variable::Mut(m) => m.variable.read().map(|g| canon(&g)).unwrap_or_else(|_| "<poisoned>".into()),
                        _ => unreachable!(),
                    };
                    if got != Ref::Err(kind) || after != format!("{a}") {
                        acc.violations.push(Violation {
                            sig: format!("C08|int {op}=|failed-update|a={}|b={}", class_of(a), class_of(b)),
                            detail: json!({"kind": "scalar", "op": format!("{op}="), "a": a, "b": b, "expected": format!("error {kind}, cell unchanged"), "observed": format!("{got:?}, cell = {after}")}),
                        });
                    }
                }
            }
        },
    );
    let mut acc = Acc::default();
    for (_, _, _, a) in states {
        acc.evals += a.evals;
        acc.errors += a.errors;
        acc.outcomes.extend(a.outcomes);
        acc.violations.extend(a.violations);
    }
    samples.push(|| json!({"int_case": format!("{} ** {}", int_lit(grid[3]), int_lit(grid[grid.len() - 2]))}));

    // ---------------- unary int, bool ops, floats (sequential; small)
    let small = core::on_big_stack(|| {
        let mut acc = Acc::default();
        let interp = Interpreter::with_stdlib();
        let neg = define(&interp, "f := (a: int) -> any { return -a }");
        let not = define(&interp, "f := (a: int) -> any { return !a }");
        for &a in &grid {
            for (name, f, lit, expect) in [
                ("-", &neg, format!("-{}", int_lit(a)), a.wrapping_neg()),
                ("!", &not, format!("!{}", int_lit(a)), !a),
            ] {
                let e = Ref::Val(format!("{expect}"));
                for (form, got) in [("parameter", call(f, vec![a.into()])), ("literal", literal(&interp, &lit))] {
                    acc.evals += 1;
                    if got != e {
                        acc.violations.push(Violation {
                            sig: format!("C08|int unary {name}|form={form}|a={}", class_of(a)),
                            detail: json!({"kind": "scalar", "op": name, "a": a, "form": form, "expected": format!("{e:?}"), "observed": format!("{got:?}")}),
                        });
                    }
                }
            }
        }
        // bools
        for op in ["&", "|", "^", "&&", "||", "==", "!="] {
            let f = define(&interp, &format!("f := (a: bool, b: bool) -> any {{ return a {op} b }}"));
            let cf = ["&", "|", "^"].contains(&op).then(|| {
                define(&interp, &format!("f := (a: bool, b: bool) -> any {{ c := mut a; r := c {op}= b; return (r, *c) }}"))
            });
            for a in [false, true] {
                for b in [false, true] {
                    let expect = match op {
                        "&" | "&&" => a & b,
                        "|" | "||" => a | b,
                        "^" | "!=" => a ^ b,
                        "==" => a == b,
                        _ => unreachable!(),
                    };
                    let e = Ref::Val(format!("{expect}"));
                    let mut forms = vec![
                        ("parameter", call(&f, vec![a.into(), b.into()]), e.clone()),
                        ("literal", literal(&interp, &format!("{a} {op} {b}")), e.clone()),
                    ];
                    if let Some(cf) = &cf {
                        forms.push(("compound", call(cf, vec![a.into(), b.into()]), Ref::Val(format!("({expect}, {expect})"))));
                    }
                    for (form, got, e) in forms {
                        acc.evals += 1;
                        if got != e {
                            acc.violations.push(Violation {
                                sig: format!("C08|bool {op}|form={form}|{a},{b}"),
                                detail: json!({"kind": "scalar", "op": op, "a": a, "b": b, "form": form, "expected": format!("{e:?}"), "observed": format!("{got:?}")}),
                            });
                        }
                    }
                }
            }
        }
        let bnot = define(&interp, "f := (a: bool) -> any { return !a }");
        for a in [false, true] {
            for (form, got) in [("parameter", call(&bnot, vec![a.into()])), ("literal", literal(&interp, &format!("!{a}")))] {
                acc.evals += 1;
                if got != Ref::Val(format!("{}", !a)) {
                    acc.violations.push(Violation {
                        sig: format!("C08|bool unary !|form={form}|{a}"),
                        detail: json!({"kind": "scalar", "op": "!", "a": a, "form": form, "observed": format!("{got:?}")}),
                    });
                }
            }
        }
        // floats
        let fneg = define(&interp, "f := (a: float) -> any { return -a }");
        for op in FLOAT_OPS {
            let f = define(&interp, &format!("f := (a: float, b: float) -> any {{ return a {op} b }}"));
            let cf = FLOAT_ASSIGN_OPS.contains(op).then(|| {
                define(&interp, &format!("f := (a: float, b: float) -> any {{ c := mut a; r := c {op}= b; return (r, *c) }}"))
            });
            for &a in &fgrid {
                for &b in &fgrid {
                    let expect = ref_float(op, a, b);
                    let mut forms = vec![("parameter", call(&f, vec![a.into(), b.into()]), expect.clone())];
                    if let (Some(la), Some(lb)) = (float_lit(a), float_lit(b)) {
                        forms.push(("literal", literal(&interp, &format!("{la} {op} {lb}")), expect.clone()));
                    }
                    if let Some(cf) = &cf {
                        let e = match &expect {
                            Ref::Val(v) => Ref::Val(format!("({v}, {v})")),
                            e => e.clone(),
                        };
                        forms.push(("compound", call(cf, vec![a.into(), b.into()]), e));
                    }
                    // one operand constant, the other passed at run time
                    let mixed = |text: String, arg: f64| match guard(|| Code::parse(&interp, &text)) {
                        Ok(Ok(code)) => match guard(|| code.exec()) {
                            Ok(Ok(Variable::Function(g))) => call(&g, vec![arg.into()]),
                            _ => Ref::Err("DEFINE FAILED"),
                        },
                        Ok(Err(e)) => Ref::Err(leak(format!("REJECTED {}", core::error_kind(&e)))),
                        Err(Stop::Panic(p)) => Ref::Err(leak(format!("PANIC {} @{}", p.short_msg(), p.file()))),
                        Err(Stop::Exhausted) => Ref::Err("EXHAUSTED"),
                    };
                    if let Some(lb) = float_lit(b) {
                        forms.push(("parameter-literal", mixed(format!("f := (a: float) -> any {{ return a {op} {lb} }}"), a), expect.clone()));
                    }
                    if let Some(la) = float_lit(a) {
                        forms.push(("literal-parameter", mixed(format!("f := (b: float) -> any {{ return {la} {op} b }}"), b), expect.clone()));
                    }
                    // a comparison under `!` is the logical negation of its IEEE answer
                    if ["<", "<=", ">", ">=", "==", "!="].contains(op) {
                        if let Ref::Val(v) = &expect {
                            let negated = Ref::Val(if v == "true" { "false".into() } else { "true".into() });
                            let neg2 = match guard(|| Code::parse(&interp, &format!("f := (a: float, b: float) -> any {{ return !(a {op} b) }}"))) {
                                Ok(Ok(code)) => match guard(|| code.exec()) {
                                    Ok(Ok(Variable::Function(g))) => call(&g, vec![a.into(), b.into()]),
                                    _ => Ref::Err("DEFINE FAILED"),
                                },
                                _ => Ref::Err("REJECTED"),
                            };
                            forms.push(("negated-parameter", neg2, negated.clone()));
                            if let Some(lb) = float_lit(b) {
                                forms.push(("negated-parameter-literal", mixed(format!("f := (a: float) -> any {{ return !(a {op} {lb}) }}"), a), negated.clone()));
                            }
                        }
                    }
                    for (form, got, e) in forms {
                        acc.evals += 1;
                        acc.outcomes.insert(format!("{:?}", got).chars().take(24).collect());
                        if got != e {
                            acc.violations.push(Violation {
                                sig: format!("C08|float {op}|form={form}|a={a:?}|b={b:?}"),
                                detail: json!({"kind": "scalar", "op": op, "a": format!("{a:?}"), "b": format!("{b:?}"), "form": form, "expected": format!("{e:?}"), "observed": format!("{got:?}")}),
                            });
                        }
                    }
                }
            }
        }
        // the same operand on both sides (a peephole for `x op x` must still be IEEE / wrapping)
        for op in FLOAT_OPS {
            let f = define(&interp, &format!("f := (a: float) -> any {{ return a {op} a }}"));
            let g = define(&interp, &format!("f := (c: mut float) -> any {{ return *c {op} *c }}"));
            for &a in &fgrid {
                let expect = ref_float(op, a, a);
                let cell = Variable::Mut(Arc::new(simplesl::variable::Mut { var_type: simplesl::variable::Type::Float, variable: Variable::Float(a).into() }));
                for (form, got) in [("same-parameter-twice", call(&f, vec![a.into()])), ("same-cell-twice", call(&g, vec![cell]))] {
                    acc.evals += 1;
                    if got != expect {
                        acc.violations.push(Violation {
                            sig: format!("C08|float {op}|form={form}|a={a:?}"),
                            detail: json!({"kind": "scalar", "op": op, "a": format!("{a:?}"), "b": "the same operand", "form": form, "expected": format!("{expect:?}"), "observed": format!("{got:?}")}),
                        });
                    }
                }
            }
        }
        for op in INT_OPS {
            let f = define(&interp, &format!("f := (a: int) -> any {{ return a {op} a }}"));
            for &a in &quick_grid {
                let expect = ref_int(op, a, a);
                let got = call(&f, vec![a.into()]);
                acc.evals += 1;
                if got != expect {
                    acc.violations.push(Violation {
                        sig: format!("C08|int {op}|form=same-parameter-twice|a={}", class_of(a)),
                        detail: json!({"kind": "scalar", "op": op, "a": a, "b": "the same operand", "form": "same-parameter-twice", "expected": format!("{expect:?}"), "observed": format!("{got:?}")}),
                    });
                }
            }
        }
        for &a in &fgrid {
            let e = Ref::Val(crate::val::float_canon(-a));
            let mut forms = vec![("parameter", call(&fneg, vec![a.into()]))];
            if let Some(la) = float_lit(a) {
                forms.push(("literal", literal(&interp, &format!("-{la}"))));
            }
            for (form, got) in forms {
                acc.evals += 1;
                if got != e {
                    acc.violations.push(Violation {
                        sig: format!("C08|float unary -|form={form}|a={a:?}"),
                        detail: json!({"kind": "scalar", "op": "-", "a": format!("{a:?}"), "form": form, "expected": format!("{e:?}"), "observed": format!("{got:?}")}),
                    });
                }
            }
        }
        acc
    });
    acc.evals += small.evals;
    acc.outcomes.extend(small.outcomes);
    acc.violations.extend(small.violations);
    samples.push(|| json!({"float_case": "NaN == NaN, -0.0 / 0.0, 5e-324 * 0.5 ..."}));
    samples.push(|| json!({"compound_case": "c := mut MIN; c /= -1  ->  (MIN, MIN)"}));

    let chain = chains(thorough);
    let prefixed = prefix_over_binary();
    report.violations(chain.1);
    report.violations(prefixed.1);
    let Acc { evals, errors, outcomes, violations } = acc;
    let evals = evals + chain.0 + prefixed.0;
    report.violations(violations);
    let coverage = json!({
        "states": (grid.len() * grid.len() * INT_OPS.len() + fgrid.len() * fgrid.len() * FLOAT_OPS.len()),
        "transitions": evals,
        "traces_validated_against_impl": evals,
        "int_grid_size": grid.len(),
        "float_grid_size": fgrid.len(),
        "prefix_minus_evaluations (6 placements of unary minus around every binary operator x operand pairs x which operands are literals)": prefixed.0,
        "chain_evaluations ((a op1 b) op2 c and a op1 (b op2 c); every operator pair x operand triple x which operands are literals)": chain.0,
        "int_operators": INT_OPS.len(),
        "forms": ["literal (folded)", "parameter (run time)", "compound assignment"],
        "reference_error_cases": errors,
        "distinct_outcomes": outcomes.len(),
        "samples": samples.items,
        "exhaustive": true,
        "rule": "a state is (operator, a, b) on the grid; every state is executed in each applicable form on the real interpreter and compared with big-integer arithmetic mod 2^64 / IEEE doubles",
        "bounds": "exhaustive on the boundary grid only; operands outside the grid are not decided (the 'random elsewhere' part of the quantifier is sampling and is not used)",
    });
    report.finish(
        "model_checking",
        coverage,
        &["Rust's f64 operations are the IEEE reference for floats", "i128 arithmetic is the big-integer reference for ints"],
    )
}
