//! Type universes closed under every constructor to a bounded depth (E3).
use crate::ty::Ty;
use simplesl::variable::{FunctionType, StructType, Type};
use std::collections::{BTreeSet, HashMap};
use std::sync::Arc;

pub fn bases() -> Vec<Ty> {
    vec![Ty::Bool, Ty::Int, Ty::Float, Ty::Void, Ty::Any, Ty::Never]
}

fn core3() -> Vec<Ty> {
    vec![Ty::Int, Ty::Float, Ty::Any]
}

/// depth-1 universe: every constructor applied once to the bases, unions of 2-3 bases
pub fn u1() -> Vec<Ty> {
    let b = bases();
    let mut s: BTreeSet<Ty> = b.iter().cloned().collect();
    s.insert(Ty::Str);
    for x in &b {
        s.insert(Ty::arr(x.clone()));
        s.insert(Ty::mutc(x.clone()));
        s.insert(Ty::func(vec![], x.clone()));
        s.insert(Ty::strukt(&[("a", x.clone())]));
        for y in &b {
            s.insert(Ty::Tup(vec![x.clone(), y.clone()]));
            s.insert(Ty::func(vec![x.clone()], y.clone()));
            s.insert(Ty::strukt(&[("a", x.clone()), ("b", y.clone())]));
        }
    }
    for x in core3() {
        for y in core3() {
            for r in &b {
                s.insert(Ty::func(vec![x.clone(), y.clone()], r.clone()));
            }
        }
    }
    s.insert(Ty::Struct(Default::default()));
    // structs whose field-name sets are nested, overlapping and disjoint
    for x in core3() {
        s.insert(Ty::strukt(&[("b", x.clone())]));
        for y in [Ty::Int, Ty::Str] {
            s.insert(Ty::strukt(&[("a", x.clone()), ("c", y.clone())]));
            s.insert(Ty::strukt(&[("b", x.clone()), ("c", y.clone())]));
            s.insert(Ty::strukt(&[("a", x.clone()), ("b", Ty::Int), ("c", y.clone())]));
        }
    }
    // cells and iterators over unions (meet / join of cell types, iterator element folds)
    s.insert(Ty::mutc(Ty::union([Ty::Int, Ty::Float])));
    s.insert(Ty::mutc(Ty::union([Ty::Int, Ty::Bool])));
    s.insert(Ty::func(vec![], Ty::Tup(vec![Ty::Bool, Ty::Int])));
    s.insert(Ty::func(vec![], Ty::Tup(vec![Ty::Bool, Ty::Any])));
    s.insert(Ty::func(vec![Ty::mutc(Ty::Int)], Ty::Void));
    s.insert(Ty::func(vec![Ty::mutc(Ty::union([Ty::Int, Ty::Float]))], Ty::Void));
    let ub = [Ty::Bool, Ty::Int, Ty::Float, Ty::Void];
    for i in 0..ub.len() {
        for j in i + 1..ub.len() {
            s.insert(Ty::union([ub[i].clone(), ub[j].clone()]));
            for k in j + 1..ub.len() {
                s.insert(Ty::union([ub[i].clone(), ub[j].clone(), ub[k].clone()]));
            }
        }
    }
    s.into_iter().collect()
}

/// a core of depth-1 types used as union members and as nesting material
pub fn d1_core() -> Vec<Ty> {
    let i = Ty::Int;
    let f = Ty::Float;
    vec![
        Ty::arr(i.clone()),
        Ty::arr(f.clone()),
        Ty::arr(Ty::Any),
        Ty::arr(Ty::Never),
        Ty::mutc(i.clone()),
        Ty::mutc(f.clone()),
        Ty::Tup(vec![i.clone(), i.clone()]),
        Ty::Tup(vec![f.clone(), f.clone()]),
        Ty::Tup(vec![i.clone(), f.clone()]),
        Ty::func(vec![], i.clone()),
        Ty::func(vec![], f.clone()),
        Ty::func(vec![i.clone()], i.clone()),
        Ty::func(vec![Ty::Any], i.clone()),
        Ty::func(vec![i.clone()], Ty::Any),
        Ty::func(vec![], Ty::Never),
        Ty::strukt(&[("a", i.clone())]),
        Ty::strukt(&[("a", f.clone())]),
        Ty::strukt(&[("a", i.clone()), ("b", i.clone())]),
        Ty::strukt(&[("a", i.clone()), ("b", f.clone())]),
        Ty::strukt(&[("a", i.clone()), ("c", Ty::Str)]),
        Ty::strukt(&[("b", i.clone())]),
        Ty::Str,
        i,
        f,
        Ty::Void,
        Ty::func(vec![], Ty::Tup(vec![Ty::Bool, Ty::Int])),
        Ty::func(vec![], Ty::Tup(vec![Ty::Bool, Ty::Any])),
        Ty::func(vec![], Ty::Tup(vec![Ty::Bool, Ty::Never])),
        Ty::mutc(Ty::union([Ty::Int, Ty::Float])),
        Ty::Tup(vec![Ty::Int, Ty::Int, Ty::Int]),
    ]
}

/// depth-2 universe: U1 + unions of depth-1 types + one more level of nesting
pub fn u2(thorough: bool) -> Vec<Ty> {
    let mut s: BTreeSet<Ty> = u1().into_iter().collect();
    let core = d1_core();
    let mut unions: Vec<Ty> = Vec::new();
    for i in 0..core.len() {
        for j in i + 1..core.len() {
            unions.push(Ty::union([core[i].clone(), core[j].clone()]));
        }
    }
    let tri = if thorough { 10 } else { 6 };
    for i in 0..tri {
        for j in i + 1..tri {
            for k in j + 1..tri {
                unions.push(Ty::union([core[i].clone(), core[j].clone(), core[k].clone()]));
            }
        }
    }
    for u in &unions {
        s.insert(u.clone());
    }
    let nest_material: Vec<Ty> = core
        .iter()
        .cloned()
        .chain(unions.iter().step_by(if thorough { 5 } else { 17 }).cloned())
        .collect();
    for x in &nest_material {
        s.insert(Ty::arr(x.clone()));
        s.insert(Ty::mutc(x.clone()));
        s.insert(Ty::func(vec![], x.clone()));
        s.insert(Ty::func(vec![x.clone()], Ty::Int));
        s.insert(Ty::func(vec![x.clone()], x.clone()));
        s.insert(Ty::Tup(vec![x.clone(), Ty::Int]));
        s.insert(Ty::strukt(&[("a", x.clone())]));
        s.insert(Ty::union([Ty::func(vec![], x.clone()), Ty::Int]));
        s.insert(Ty::union([Ty::mutc(x.clone()), Ty::Str]));
    }
    s.extend(fold_sensitive());
    s.extend(nested_unions());
    s.extend(function_unions());
    s.extend(tuple_length_unions());
    s.into_iter().collect()
}

/// Unions over which the folds of the type API (element, result, component, field, cell
/// content) combine three members A, B, C with A below B and C unrelated to both: a fold
/// that absorbs covered members gives {B, C} or {A, B, C} depending on the order it meets them in.
pub fn fold_sensitive() -> Vec<Ty> {
    let i = Ty::Int;
    let u = Ty::union([Ty::Int, Ty::Float]);
    let triples: Vec<[Ty; 3]> = vec![
        [Ty::arr(i.clone()), Ty::arr(u.clone()), i.clone()],
        [Ty::arr(i.clone()), Ty::arr(Ty::Any), Ty::mutc(i.clone())],
        [Ty::strukt(&[("a", i.clone()), ("b", i.clone())]), Ty::strukt(&[("a", i.clone())]), Ty::Str],
        [Ty::func(vec![], i.clone()), Ty::func(vec![], u.clone()), Ty::Str],
        [Ty::Tup(vec![i.clone(), i.clone()]), Ty::Tup(vec![i.clone(), u.clone()]), Ty::Void],
    ];
    let wrappers: Vec<Box<dyn Fn(Ty) -> Ty>> = vec![
        Box::new(Ty::mutc),
        Box::new(Ty::arr),
        Box::new(|t| Ty::func(vec![], t)),
        Box::new(|t| Ty::func(vec![], Ty::Tup(vec![Ty::Bool, t]))),
        Box::new(|t| Ty::Tup(vec![t, Ty::Int])),
        Box::new(|t| Ty::strukt(&[("a", t)])),
    ];
    let mut out = Vec::new();
    for [a, b, c] in &triples {
        out.push(Ty::union([a.clone(), b.clone(), c.clone()]));
        for w in &wrappers {
            out.push(Ty::union([w(a.clone()), w(b.clone()), w(c.clone())]));
        }
    }
    out
}

/// Unions nested in unions through a constructor, whose inner members print differently under
/// different iteration orders (structs with two fields, unions): anything that orders or
/// hashes members by their printed text is unstable on these.
pub fn nested_unions() -> Vec<Ty> {
    let i = Ty::Int;
    let inner: Vec<Ty> = vec![
        Ty::union([Ty::strukt(&[("a", i.clone()), ("c", i.clone())]), Ty::strukt(&[("b", i.clone())])]),
        Ty::union([Ty::arr(Ty::union([Ty::Int, Ty::Str])), Ty::arr(Ty::Str)]),
        Ty::union([Ty::Tup(vec![Ty::union([Ty::Int, Ty::Str]), i.clone()]), Ty::Tup(vec![Ty::Str, i.clone()])]),
        Ty::union([Ty::func(vec![], Ty::union([Ty::Int, Ty::Str])), Ty::func(vec![], Ty::Str)]),
    ];
    let wrappers: Vec<Box<dyn Fn(Ty) -> Ty>> = vec![
        Box::new(Ty::mutc),
        Box::new(Ty::arr),
        Box::new(|t| Ty::Tup(vec![t, Ty::Int])),
        Box::new(|t| Ty::func(vec![], t)),
        Box::new(|t| Ty::func(vec![t], Ty::Int)),
    ];
    let mut out = Vec::new();
    for u in &inner {
        for w in &wrappers {
            out.push(Ty::union([w(u.clone()), Ty::Bool]));
            out.push(Ty::mutc(Ty::union([w(u.clone()), Ty::Bool])));
        }
    }
    out
}

/// Function types whose parameters have structure (structs of different widths, callbacks with
/// different results, unions, containers) and every union of two of them: a union lies below
/// exactly what both members lie below, also when the members' parameter types have no
/// expressible greatest lower bound.
pub fn function_unions() -> Vec<Ty> {
    let i = Ty::Int;
    let params: Vec<Ty> = vec![
        Ty::strukt(&[("a", i.clone())]),
        Ty::strukt(&[("a", i.clone()), ("b", i.clone())]),
        Ty::strukt(&[("b", i.clone())]),
        Ty::func(vec![], Ty::Int),
        Ty::func(vec![], Ty::Str),
        Ty::func(vec![], Ty::Never),
        Ty::Int,
        Ty::union([Ty::Int, Ty::Float]),
        Ty::Any,
        Ty::arr(Ty::Int),
        Ty::Tup(vec![Ty::Int, Ty::Int]),
        Ty::mutc(Ty::Int),
    ];
    let mut out = Vec::new();
    let fs: Vec<Ty> = params.iter().map(|p| Ty::func(vec![p.clone()], Ty::Int)).collect();
    for (k, f) in fs.iter().enumerate() {
        out.push(f.clone());
        out.push(Ty::func(vec![params[k].clone()], Ty::Void));
        for g in fs.iter().skip(k + 1) {
            out.push(Ty::union([f.clone(), g.clone()]));
        }
    }
    out
}

/// Unions of three and more tuple types of different lengths (and of function types returning
/// them): queries that fold over the members (shortest length, component at an index) must not
/// depend on which member comes first.
pub fn tuple_length_unions() -> Vec<Ty> {
    let tup = |n: usize| Ty::Tup((0..n).map(|k| if k % 2 == 0 { Ty::Int } else { Ty::Str }).collect());
    let mut out = vec![
        Ty::union([tup(2), tup(3), tup(4)]),
        Ty::union([tup(2), tup(3), tup(4), tup(5), tup(6)]),
        Ty::union([tup(2), tup(4), Ty::Tup(vec![Ty::Float, Ty::Float, Ty::Float])]),
        Ty::union([Ty::func(vec![], tup(2)), Ty::func(vec![], tup(3)), Ty::func(vec![], tup(4))]),
        Ty::union([Ty::func(vec![Ty::Int], Ty::Int), Ty::func(vec![Ty::Int, Ty::Int], Ty::Int), Ty::func(vec![Ty::Int, Ty::Int, Ty::Int], Ty::Int)]),
        Ty::union([Ty::arr(tup(2)), Ty::arr(tup(3)), Ty::arr(tup(4))]),
    ];
    out.push(Ty::arr(out[0].clone()));
    out.push(Ty::mutc(out[0].clone()));
    out
}

/// the parenthesisation-critical spine of C15: union inside function result inside union
/// inside mut inside array inside parameter ...
pub fn spines() -> Vec<Ty> {
    let u = Ty::union([Ty::Int, Ty::Float]);
    let mut out = Vec::new();
    let wrappers: Vec<Box<dyn Fn(Ty) -> Ty>> = vec![
        Box::new(|t| Ty::func(vec![], t)),
        Box::new(|t| Ty::union([t, Ty::Str])),
        Box::new(Ty::mutc),
        Box::new(Ty::arr),
        Box::new(|t| Ty::func(vec![t], Ty::Int)),
        Box::new(|t| Ty::Tup(vec![t, Ty::Bool])),
        Box::new(|t| Ty::strukt(&[("a", t)])),
    ];
    // all wrapper sequences of length <= 4
    let mut frontier = vec![u];
    for _ in 0..4 {
        let mut next = Vec::new();
        for t in &frontier {
            for w in &wrappers {
                next.push(w(t.clone()));
            }
        }
        out.extend(next.iter().cloned());
        frontier = next;
    }
    let set: BTreeSet<Ty> = out.into_iter().collect();
    set.into_iter().collect()
}

/// Builds the implementation type directly through its public constructors
/// (unions through `|`, i.e. Type::concat), without going through the parser.
pub fn build(t: &Ty) -> Type {
    match t {
        Ty::Bool => Type::Bool,
        Ty::Int => Type::Int,
        Ty::Float => Type::Float,
        Ty::Str => Type::String,
        Ty::Void => Type::Void,
        Ty::Any => Type::Any,
        Ty::Never => Type::Never,
        Ty::Arr(e) => Type::Array(Arc::new(build(e))),
        Ty::Mut(e) => Type::Mut(Arc::new(build(e))),
        Ty::Tup(ts) => Type::Tuple(ts.iter().map(build).collect()),
        Ty::Fn(ps, r) => FunctionType { params: ps.iter().map(build).collect(), return_type: build(r) }.into(),
        Ty::Struct(fs) => {
            let m: HashMap<Arc<str>, Type> = fs.iter().map(|(k, v)| (Arc::from(k.as_str()), build(v))).collect();
            StructType::from(m).into()
        }
        Ty::Union(ms) => ms.iter().map(build).reduce(|a, b| a | b).unwrap(),
    }
}
