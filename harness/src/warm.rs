//! Touches every lazily built global of the crate once per thread-pool start, so
//! that first-use initialisation never consumes fuel, order-oracle choice points
//! or shows up as a difference between the first and later executions.
use simplesl::{Code, Interpreter};
use std::sync::Once;

static WARM: Once = Once::new();

pub const WARM_PROGRAM: &str = r#"
idf := (x: int) -> int { return x };
tr := (x: int) -> bool { return true };
a := (([1, 2]~ @ idf) ? tr) ? int;
b := a $];
[1]~ $+; [1.5]~ $+; ["a"]~ $+; [1]~ $*; [1.5]~ $*;
[true]~ $&&; [true]~ $||; [1]~ $&; [1]~ $|;
[1]~ \ tr;
[1]~ $ 0 (acc: int, cur: int) -> int { return acc + cur };
h := (p: int, q: float, s: string, t: bool, m: mut int, arr: [int]) -> int {
    p + p; p - p; p * p; p / 1; p % 1; p ** 2; p << 1; p >> 1; p & p; p | p; p ^ p;
    q + q; q - q; q * q; q / q; q ** q; s + s; arr + arr;
    p == p; p != p; p < p; p <= p; p > p; p >= p; t && t; t || t; t & t; t | t; t ^ t;
    -p; -q; !p; !t; *m; m = 1; m += 1; m -= 1; m *= 1; m /= 1; m %= 1; m **= 1; m <<= 1; m >>= 1; m &= 1; m |= 1; m ^= 1;
    arr[0]; arr[0:1]; s[0]; s[0:1:1]; [p; 1]; (p, q).0; struct{f := p}.f;
    for e in arr~ { e };
    if x: int = p { x };
    match p { y: int => y, => 0, };
    while false { };
    return std.len(arr) + std.len(s);
};
h(1, 1.5, "a", true, mut 1, [1]);
std.math.MIN_INT; std.io.print; std.string.trim(" a"); std.convert.to_int(1); std.operators.all;
"#;

pub fn warm() {
    WARM.call_once(|| {
        // best effort and not a verdict about any property: the pieces are warmed independently,
        // a piece the implementation does not accept is left to the checks to judge
        let interp = Interpreter::with_stdlib();
        // a panic while warming is not the warm-up's to report either (the checks will meet it)
        let quiet = |f: &mut dyn FnMut() -> bool| crate::core::guard(f).unwrap_or(false);
        let whole = quiet(&mut || Code::parse(&interp, WARM_PROGRAM).ok().and_then(|code| code.exec().ok()).is_some()).then_some(());
        if whole.is_none() {
            eprintln!("note: the warm-up program is not accepted as a whole; warming its statements one by one");
            let mut interp = Interpreter::with_stdlib();
            for piece in ["idf := (x: int) -> int { return x }", "tr := (x: int) -> bool { return true }", "a := (([1, 2]~ @ idf) ? tr) ? int", "a $]",
                "[1]~ $+", "[1.5]~ $+", "[\"a\"]~ $+", "[1]~ $*", "[1.5]~ $*", "[true]~ $&&", "[true]~ $||", "[1]~ $&", "[1]~ $|", "[1]~ \\ tr",
                "[1]~ $ 0 (acc: int, cur: int) -> int { return acc + cur }", "for e in [1]~ { e }", "std.math.MIN_INT", "std.io.print",
                "std.string.trim(\" a\")", "std.convert.to_int(1)", "std.operators.all", "std.len([1])"] {
                let _ = quiet(&mut || {
                    if let Ok(code) = Code::parse(&interp, piece) {
                        let _ = code.exec_unscoped(&mut interp);
                    }
                    true
                });
            }
        }
        let _ = quiet(&mut || "()->(bool, int)".parse::<simplesl::variable::Type>().is_ok());
        let _ = quiet(&mut || "[1, 2]".parse::<simplesl::variable::Variable>().is_ok());
    });
}
