//! `./check <ID> --replay <path>`: re-executes one recorded case without the explorer.
use crate::core;
use crate::val::canon_typed;
use serde_json::Value;
use simplesl::variable::Variable;
use simplesl::{Code, Interpreter};

fn eval(src: &str) -> Result<Variable, String> {
    let interp = Interpreter::with_stdlib();
    match core::guard(|| Code::parse(&interp, src).map(|c| c.exec())) {
        Ok(Ok(Ok(v))) => Ok(v),
        Ok(Ok(Err(e))) => Err(format!("run-time error {e:?}")),
        Ok(Err(e)) => Err(format!("rejected: {e}")),
        Err(core::Stop::Panic(p)) => Err(format!("PANIC {} at {}", p.msg, p.loc)),
        Err(core::Stop::Exhausted) => Err("resources exhausted".into()),
    }
}

fn replay_case(case: &Value) -> bool {
    // nested cases ("base" + "then")
    if let Some(base) = case.get("base") {
        println!("base case:");
        replay_case(base);
        println!("then: {}", case["then"]);
        return true;
    }
    if let Some(inner) = case.get("case") {
        return replay_case(inner);
    }
    match case["kind"].as_str().unwrap_or("") {
        "program" | "parse" => {
            let text = case["text"].as_str().unwrap_or("");
            if let Some(before) = case.get("run_before_on_the_same_thread").and_then(|b| b.as_str()) {
                println!("run before, on the same thread:\n{before}");
                let _ = core::run_text(before, case["stdlib"].as_bool().unwrap_or(true), core::QUICK_FUEL);
            }
            println!("program:\n{text}");
            let out = core::run_text(text, case["stdlib"].as_bool().unwrap_or(true), core::QUICK_FUEL);
            match &out {
                core::Outcome::Value(v) => println!("=> value {}", canon_typed(v)),
                other => println!("=> {}", other.tag()),
            }
        }
        "host_call" => {
            let text = case["program"].as_str().unwrap_or("");
            println!("program:\n{text}");
            let f = match eval(text) {
                Ok(Variable::Function(f)) => f,
                other => {
                    println!("=> does not evaluate to a function: {:?}", other.map(|v| canon_typed(&v)));
                    return true;
                }
            };
            let mut args = Vec::new();
            for a in case["args"].as_array().cloned().unwrap_or_default() {
                let src = a.as_str().unwrap_or("");
                match eval(src) {
                    Ok(v) => args.push(v),
                    Err(e) => {
                        println!("argument {src}: {e}");
                        return true;
                    }
                }
            }
            println!("host call with ({})", case["args"].as_array().map(|a| a.iter().map(|x| x.as_str().unwrap_or("").to_string()).collect::<Vec<_>>().join(", ")).unwrap_or_default());
            match core::guard(|| f.clone().create_call(args).map(|c| c.exec())) {
                Ok(Ok(Ok(v))) => println!("=> value {}", canon_typed(&v)),
                Ok(Ok(Err(e))) => println!("=> run-time error {e:?}"),
                Ok(Err(e)) => println!("=> host call rejected: {e}"),
                Err(core::Stop::Panic(p)) => println!("=> PANIC {} at {}", p.msg, p.loc),
                Err(core::Stop::Exhausted) => println!("=> resources exhausted"),
            }
        }
        "host_call_history" => {
            // the calls in order; stateful argument values (cells, iterators) are made once per
            // (position, recipe) and persist from call to call
            let text = case["program"].as_str().unwrap_or("");
            println!("program:\n{text}");
            let f = match eval(text) {
                Ok(Variable::Function(f)) => f,
                other => {
                    println!("=> does not evaluate to a function: {:?}", other.map(|v| canon_typed(&v)));
                    return true;
                }
            };
            let mut kept: std::collections::HashMap<(usize, String), Variable> = std::collections::HashMap::new();
            for call in case["calls_so_far_with_persisting_stateful_values"].as_array().cloned().unwrap_or_default() {
                let srcs: Vec<String> = call.as_array().map(|a| a.iter().map(|x| x.as_str().unwrap_or("").to_string()).collect()).unwrap_or_default();
                let mut args = Vec::new();
                for (slot, src) in srcs.iter().enumerate() {
                    if !kept.contains_key(&(slot, src.clone())) {
                        match eval(src) {
                            Ok(v) => {
                                kept.insert((slot, src.clone()), v);
                            }
                            Err(e) => {
                                println!("argument {src}: {e}");
                                return true;
                            }
                        }
                    }
                    args.push(kept[&(slot, src.clone())].clone());
                }
                println!("host call with ({})", srcs.join(", "));
                match core::guard(|| f.clone().create_call(args).map(|c| c.exec())) {
                    Ok(Ok(Ok(v))) => println!("=> value {}", canon_typed(&v)),
                    Ok(Ok(Err(e))) => println!("=> run-time error {e:?}"),
                    Ok(Err(e)) => println!("=> host call rejected: {e}"),
                    Err(core::Stop::Panic(p)) => println!("=> PANIC {} at {}", p.msg, p.loc),
                    Err(core::Stop::Exhausted) => println!("=> resources exhausted"),
                }
                for ((slot, src), v) in &kept {
                    if matches!(v, Variable::Mut(_)) {
                        println!("   argument #{slot} {src} now holds {}", canon_typed(v));
                    }
                }
            }
        }
        "loom" => {
            // one loom harness, all its schedules
            let idx = case["case_index"].as_u64().unwrap_or(0);
            println!("loom harness #{idx} {}: threads {}", case["name"], case["threads"]);
            let bin = crate::report::verif_root().join("loomcheck/target/release/loomcheck");
            match std::process::Command::new(&bin).arg("--case").arg(idx.to_string()).output() {
                Ok(out) => {
                    for l in String::from_utf8_lossy(&out.stderr).lines().filter(|l| l.contains("NOT ") || l.contains("panicked") || l.contains("eadlock")).take(6) {
                        println!("{l}");
                    }
                    println!("=> {}", if out.status.success() { "every schedule agrees with a sequential order" } else { "some schedule does not" });
                }
                Err(e) => println!("cannot start {}: {e}", bin.display()),
            }
        }
        "repl" => {
            let mut interp = Interpreter::with_stdlib();
            for g in case["groups"].as_array().cloned().unwrap_or_default() {
                let text = g.as_str().unwrap_or("");
                println!("> {text}");
                let step = core::guard(|| Code::parse(&interp, text));
                match step {
                    Ok(Ok(code)) => match core::guard(|| code.exec_unscoped(&mut interp)) {
                        Ok(Ok(v)) => println!("{}", canon_typed(&v)),
                        Ok(Err(e)) => {
                            println!("run-time error {e:?}");
                            break;
                        }
                        Err(e) => {
                            println!("{e:?}");
                            break;
                        }
                    },
                    Ok(Err(e)) => {
                        println!("rejected: {e}");
                        break;
                    }
                    Err(e) => {
                        println!("{e:?}");
                        break;
                    }
                }
            }
            let mut names: Vec<String> = interp.verif_names().iter().map(|s| s.to_string()).collect();
            names.sort();
            println!("top-level names: {names:?}");
        }
        "string_after_string" => {
            // the earlier string is indexed and dropped, the later one made right after it and indexed everywhere
            let f = match eval("f := (s: string, i: int) -> any { return s[i] }") {
                Ok(Variable::Function(f)) => f,
                _ => return true,
            };
            let run = |s: &str| {
                let v = Variable::String(std::sync::Arc::from(s));
                let k = s.chars().count() as i64;
                for i in -k - 1..=k {
                    let r = f.clone().create_call(vec![v.clone(), Variable::Int(i)]).map(|c| c.exec());
                    println!("  {s:?}[{i}] => {}", match r { Ok(Ok(v)) => canon_typed(&v), Ok(Err(e)) => format!("{e:?}"), Err(e) => format!("{e:?}") });
                }
            };
            if let Some(before) = case["indexed_just_before_and_dropped"].as_str().filter(|b| !b.is_empty()) {
                run(before);
            }
            run(case["string"].as_str().unwrap_or(""));
        }
        other => {
            println!("case of kind `{other}`: re-run the check to re-evaluate it; recorded data:");
            println!("{}", serde_json::to_string_pretty(case).unwrap());
        }
    }
    true
}

pub fn run(path: &str) -> i32 {
    crate::warm::warm();
    let text = match std::fs::read_to_string(path) {
        Ok(t) => t,
        Err(e) => {
            eprintln!("cannot read {path}: {e}");
            return 2;
        }
    };
    let v: Value = match serde_json::from_str(&text) {
        Ok(v) => v,
        Err(e) => {
            eprintln!("not a replay file: {e}");
            return 2;
        }
    };
    println!("property {} signature {}", v["property"], v["sig"]);
    for key in ["expected", "observed", "expected_log", "observed_log", "static_type", "value", "reason", "panic", "at"] {
        if let Some(x) = v["case"].get(key) {
            println!("recorded {key}: {x}");
        }
    }
    let ok = core::on_big_stack(|| replay_case(&v["case"]));
    if ok {
        0
    } else {
        2
    }
}
