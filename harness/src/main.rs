mod core;
mod lexer;
mod opgrid;
mod order;
mod universe;
mod palette;
mod props;
mod replay;
mod report;
mod ty;
mod val;
mod warm;

fn main() {
    let args: Vec<String> = std::env::args().collect();
    if args.len() < 3 {
        eprintln!("usage: sslverif <ID> <quick|thorough> | sslverif <ID> --replay <path>");
        std::process::exit(2);
    }
    let id = args[1].as_str();
    let tier = args[2].as_str();
    core::install_panic_hook();
    if tier == "--replay" {
        std::process::exit(replay::run(args.get(3).map(|s| s.as_str()).unwrap_or("")));
    }
    // checks that feed extreme operands run under a supervisor: a child killed by a signal
    // (allocation failure, stack overflow: the implementation aborting the process) is a verdict
    // about the case that does it, found by re-running the cases the workers had noted
    const CRASH_ISOLATED: &[&str] = &["C09"];
    if CRASH_ISOLATED.contains(&id) && (tier == "quick" || tier == "thorough") && std::env::var("SSLVERIF_JOURNAL").is_err() {
        std::process::exit(supervise(id, tier));
    }
    if id == "RUN" {
        // sslverif RUN <program text>: parse and run one program with the stdlib (debugging aid)
        let text = tier.to_string();
        let code = core::on_big_stack(move || {
            let interp = simplesl::Interpreter::with_stdlib();
            match core::guard(|| simplesl::Code::parse(&interp, &text).map(|c| c.exec())) {
                Ok(Ok(Ok(v))) => println!("value {} :: {}", val::canon(&v), ty::Ty::from_impl(&simplesl::variable::Typed::as_type(&v)).print()),
                Ok(Ok(Err(e))) => println!("exec error {e:?}"),
                Ok(Err(e)) => println!("rejected {e:?}"),
                Err(_) => println!("panic / exhausted"),
            }
            0
        });
        std::process::exit(code);
    }
    if id == "GRIDPOINT" {
        // sslverif GRIDPOINT <construct name> <type> <type> ...: one point of the operand grid (debugging aid)
        let cs = opgrid::constructs(true);
        let Some(c) = cs.iter().find(|c| c.name == tier) else {
            eprintln!("no construct named {tier}");
            std::process::exit(2);
        };
        let all = palette::thorough_types();
        let tys: Vec<&ty::Ty> = args[3..].iter().map(|t| all.iter().find(|x| x.print() == *t).unwrap_or_else(|| panic!("no palette type {t}"))).collect();
        let code = core::on_big_stack(move || {
            let mut cx = opgrid::Ctx::new(false);
            println!("{}", opgrid::program_typed(c, &tys, "any"));
            cx.grid_point(c, &tys);
            println!("programs {} accepted {} calls {} values {} errors {} panics {}", cx.st.programs, cx.st.accepted, cx.st.calls, cx.st.values, cx.st.exec_errors, cx.st.panics);
            for (sig, (n, _)) in cx.st.c01.map.iter().chain(cx.st.c02.map.iter()) {
                println!("{n:6}  {sig}");
            }
            0
        });
        std::process::exit(code);
    }
    let code = match id {
        "C01" | "C02" => props::c01::run(id, tier),
        "C03" => props::c03::run(tier),
        "C04" => props::c04::run(tier),
        "C05" => props::c05::run(tier),
        "C06" => props::c06::run_check(tier),
        "C07" => props::c07::run(tier),
        "C08" => props::c08::run(tier),
        "C09" => props::c09::run(tier),
        "C10" => props::c10::run(tier),
        "C11" => props::c11::run(tier),
        "C12" => props::c12::run(tier),
        "C13" => props::c13::run(tier),
        "C14" => props::c14::run(tier),
        "C15" => props::c15::run(tier),
        "C17" => props::c17::run(tier),
        "C18" if tier == "--cgetline" => props::c18::cgetline_child(),
        "C18" => props::c18::run(tier),
        "C19" => props::c19::run(tier),
        "C20" => props::c20::run(tier),
        _ => {
            eprintln!("unknown property {id}");
            2
        }
    };
    std::process::exit(code);
}


fn supervise(id: &str, tier: &str) -> i32 {
    use serde_json::{json, Value};
    let exe = std::env::current_exe().expect("own path");
    let dir = report::verif_root().join("replays").join(format!(".journal-{}", std::process::id()));
    let _ = std::fs::remove_dir_all(&dir);
    std::fs::create_dir_all(&dir).expect("journal directory");
    let status = std::process::Command::new(&exe).args([id, tier]).env("SSLVERIF_JOURNAL", &dir).status().expect("spawn the check");
    if let Some(code) = status.code() {
        let _ = std::fs::remove_dir_all(&dir);
        return code;
    }
    eprintln!("the process running {id} {tier} was killed ({status}); looking for the case that does it");
    let mut cases: Vec<Value> = Vec::new();
    if let Ok(rd) = std::fs::read_dir(&dir) {
        for e in rd.flatten() {
            if let Ok(text) = std::fs::read_to_string(e.path()) {
                if let Ok(v) = serde_json::from_str::<Value>(&text) {
                    if !cases.contains(&v) {
                        cases.push(v);
                    }
                }
            }
        }
    }
    let mut rep = report::Report::new(id, tier);
    let mut probes = 0u64;
    let mut samples: Vec<Value> = Vec::new();
    for (k, case) in cases.iter().enumerate() {
        let path = dir.join(format!("probe-{k}.json"));
        let body = json!({"property": id, "sig": "crash-probe", "case": case});
        std::fs::write(&path, serde_json::to_string(&body).unwrap()).expect("write probe");
        let st = std::process::Command::new(&exe).args([id, "--replay"]).arg(&path).stdout(std::process::Stdio::null()).stderr(std::process::Stdio::null()).status().expect("spawn probe");
        probes += 1;
        if samples.len() < 3 {
            samples.push(case.clone());
        }
        if st.code().is_none() {
            let text = case["text"].as_str().or(case["program"].as_str()).unwrap_or("").chars().take(80).collect::<String>();
            let mut detail = case.clone();
            if let Some(o) = detail.as_object_mut() {
                o.insert("observed".into(), json!(format!("the process running this case is killed ({st}): no value, no error")));
                o.insert("expected".into(), json!("a value or a documented error"));
            }
            rep.violation(report::Violation { sig: format!("{id}|process-killed|{}", text.replace('|', "/")), detail });
        }
    }
    let _ = std::fs::remove_dir_all(&dir);
    if rep.is_empty() {
        eprintln!("MACHINERY ERROR: the check was killed ({status}) and none of the {probes} noted cases reproduces it");
        return 2;
    }
    rep.finish(
        "model_checking",
        json!({"states": probes, "transitions": probes, "traces_validated_against_impl": probes, "samples": samples, "exhaustive": false,
               "rule": "the enumeration was cut short: the implementation killed the checking process; the cases the worker threads had noted were re-run one per process, and those that kill their process are reported",
               "run_killed": format!("{status}")}),
        &["crash isolation: the verdict names the cases that kill a fresh process on their own"],
    )
}
