mod core;
mod lexer;
mod opgrid;
mod order;
mod universe;
mod palette;
mod props;
mod replay;
mod report;
mod ty;
mod val;
mod warm;

fn main() {
    let args: Vec<String> = std::env::args().collect();
    if args.len() < 3 {
        eprintln!("usage: sslverif <ID> <quick|thorough> | sslverif <ID> --replay <path>");
        std::process::exit(2);
    }
    let id = args[1].as_str();
    let tier = args[2].as_str();
    core::install_panic_hook();
    if tier == "--replay" {
        std::process::exit(replay::run(args.get(3).map(|s| s.as_str()).unwrap_or("")));
    }
    if id == "RUN" {
        // sslverif RUN <program text>: parse and run one program with the stdlib (debugging aid)
        let text = tier.to_string();
        let code = core::on_big_stack(move || {
            let interp = simplesl::Interpreter::with_stdlib();
            match core::guard(|| simplesl::Code::parse(&interp, &text).map(|c| c.exec())) {
                Ok(Ok(Ok(v))) => println!("value {} :: {}", val::canon(&v), ty::Ty::from_impl(&simplesl::variable::Typed::as_type(&v)).print()),
                Ok(Ok(Err(e))) => println!("exec error {e:?}"),
                Ok(Err(e)) => println!("rejected {e:?}"),
                Err(_) => println!("panic / exhausted"),
            }
            0
        });
        std::process::exit(code);
    }
    if id == "GRIDPOINT" {
        // sslverif GRIDPOINT <construct name> <type> <type> ...: one point of the operand grid (debugging aid)
        let cs = opgrid::constructs(true);
        let Some(c) = cs.iter().find(|c| c.name == tier) else {
            eprintln!("no construct named {tier}");
            std::process::exit(2);
        };
        let all = palette::thorough_types();
        let tys: Vec<&ty::Ty> = args[3..].iter().map(|t| all.iter().find(|x| x.print() == *t).unwrap_or_else(|| panic!("no palette type {t}"))).collect();
        let code = core::on_big_stack(move || {
            let mut cx = opgrid::Ctx::new(false);
            println!("{}", opgrid::program_typed(c, &tys, "any"));
            cx.grid_point(c, &tys);
            println!("programs {} accepted {} calls {} values {} errors {} panics {}", cx.st.programs, cx.st.accepted, cx.st.calls, cx.st.values, cx.st.exec_errors, cx.st.panics);
            for (sig, (n, _)) in cx.st.c01.map.iter().chain(cx.st.c02.map.iter()) {
                println!("{n:6}  {sig}");
            }
            0
        });
        std::process::exit(code);
    }
    let code = match id {
        "C01" | "C02" => props::c01::run(id, tier),
        "C03" => props::c03::run(tier),
        "C04" => props::c04::run(tier),
        "C05" => props::c05::run(tier),
        "C06" => props::c06::run_check(tier),
        "C07" => props::c07::run(tier),
        "C08" => props::c08::run(tier),
        "C09" => props::c09::run(tier),
        "C10" => props::c10::run(tier),
        "C11" => props::c11::run(tier),
        "C12" => props::c12::run(tier),
        "C13" => props::c13::run(tier),
        "C14" => props::c14::run(tier),
        "C15" => props::c15::run(tier),
        "C17" => props::c17::run(tier),
        "C18" if tier == "--cgetline" => props::c18::cgetline_child(),
        "C18" => props::c18::run(tier),
        "C19" => props::c19::run(tier),
        "C20" => props::c20::run(tier),
        _ => {
            eprintln!("unknown property {id}");
            2
        }
    };
    std::process::exit(code);
}
