//! E1 "opgrid": construct x operand-type palette x value palette, driven through
//! the public API (`Code::parse`, `Function::create_call`) with the run-time type
//! monitor installed. Typed parameters are the opaque-constant seam: the checker
//! sees operands of exactly the palette type, the folder sees no value.
use crate::core::{self, guard, par_fold, Stop};
use crate::palette::{self, Values, RECIPES};
use crate::report::{VSet, Violation};
use crate::ty::{belongs, cells_well_typed, Ty};
use crate::val::canon_typed;
use serde_json::{json, Value};
use simplesl::variable::{ReturnType, Type, Typed, Variable};
use simplesl::verif::{self, Event, NodeResult};
use simplesl::{Code, Interpreter};
use std::cell::RefCell;
use std::collections::BTreeMap;
use std::sync::Arc;

type Render = Arc<dyn Fn(&[String]) -> String + Send + Sync>;

#[derive(Clone)]
pub struct Construct {
    pub name: String,
    pub slots: usize,
    /// body of a function whose parameters (or literals) are the operand texts;
    /// must end by returning the construct's value
    pub render: Render,
    /// the body is `return <expr>;` for this expression (usable as a top-level program)
    pub expr: Option<Render>,
}

fn expr_c(name: &str, slots: usize, f: impl Fn(&[String]) -> String + Send + Sync + 'static) -> Construct {
    let f: Render = Arc::new(f);
    let g = f.clone();
    Construct {
        name: name.to_string(),
        slots,
        render: Arc::new(move |o| format!("return {};", g(o))),
        expr: Some(f),
    }
}

fn stmt_c(name: &str, slots: usize, f: impl Fn(&[String]) -> String + Send + Sync + 'static) -> Construct {
    Construct { name: name.to_string(), slots, render: Arc::new(f), expr: None }
}

pub const BIN_OPS: &[&str] = &[
    "+", "-", "*", "/", "%", "**", "<<", ">>", "&", "|", "^", "==", "!=", "<", "<=", ">", ">=", "&&", "||", "@", "?",
    "\\", "=", "+=", "-=", "*=", "/=", "%=", "**=", "<<=", ">>=", "&=", "|=", "^=",
];

pub fn constructs(thorough: bool) -> Vec<Construct> {
    let mut v = Vec::new();
    for op in BIN_OPS {
        let op = op.to_string();
        v.push(expr_c(&format!("bin:{op}"), 2, move |o| format!("{} {op} {}", o[0], o[1])));
    }
    v.push(expr_c("reduce:$", 3, |o| format!("{} ${} {}", o[0], o[1], o[2])));
    for op in ["!", "-", "*"] {
        let op = op.to_string();
        v.push(expr_c(&format!("prefix:{op}"), 1, move |o| format!("{op}{}", o[0])));
    }
    for op in ["$+", "$*", "$&&", "$||", "$&", "$|", "$]", "~"] {
        let op = op.to_string();
        v.push(expr_c(&format!("postfix:{op}"), 1, move |o| format!("{}{op}", o[0])));
    }
    v.push(expr_c("index", 2, |o| format!("{}[{}]", o[0], o[1])));
    v.push(expr_c("slice[:]", 1, |o| format!("{}[:]", o[0])));
    v.push(expr_c("slice[a:]", 2, |o| format!("{}[{}:]", o[0], o[1])));
    v.push(expr_c("slice[:b]", 2, |o| format!("{}[:{}]", o[0], o[1])));
    v.push(expr_c("slice[::c]", 2, |o| format!("{}[::{}]", o[0], o[1])));
    v.push(expr_c("slice[a:b]", 3, |o| format!("{}[{}:{}]", o[0], o[1], o[2])));
    v.push(expr_c("slice[a::c]", 3, |o| format!("{}[{}::{}]", o[0], o[1], o[2])));
    v.push(expr_c("slice[:b:c]", 3, |o| format!("{}[:{}:{}]", o[0], o[1], o[2])));
    if thorough {
        v.push(expr_c("slice[a:b:c]", 4, |o| format!("{}[{}:{}:{}]", o[0], o[1], o[2], o[3])));
    }
    v.push(expr_c("call0", 1, |o| format!("{}()", o[0])));
    v.push(expr_c("call1", 2, |o| format!("{}({})", o[0], o[1])));
    v.push(expr_c("call2", 3, |o| format!("{}({}, {})", o[0], o[1], o[2])));
    for i in 0..3 {
        v.push(expr_c(&format!("tuple.{i}"), 1, move |o| format!("{}.{i}", o[0])));
    }
    for f in ["a", "b"] {
        v.push(expr_c(&format!("field.{f}"), 1, move |o| format!("{}.{f}", o[0])));
    }
    for t in palette::position_types() {
        let ts = t.print();
        let ts2 = ts.clone();
        v.push(expr_c(&format!("typefilter:{ts}"), 1, move |o| format!("{} ? {ts2}", o[0])));
        let ts2 = ts.clone();
        v.push(expr_c(&format!("mut:{ts}"), 1, move |o| format!("mut {ts2} {}", o[0])));
        let ts2 = ts.clone();
        v.push(stmt_c(&format!("ifset:{ts}"), 2, move |o| {
            format!("if x: {ts2} = {} {{ return x }} else {{ return {} }}", o[0], o[1])
        }));
        let ts2 = ts.clone();
        v.push(stmt_c(&format!("whileset:{ts}"), 2, move |o| {
            format!("while x: {ts2} = {} {{ return x }}; return {};", o[0], o[1])
        }));
        let ts2 = ts.clone();
        v.push(stmt_c(&format!("match-type:{ts}"), 2, move |o| {
            format!("return match {} {{ x: {ts2} => x, => {}, }};", o[0], o[1])
        }));
        let ts2 = ts.clone();
        v.push(stmt_c(&format!("match-type-only:{ts}"), 1, move |o| {
            format!("return match {} {{ x: {ts2} => x, }};", o[0])
        }));
    }
    let pts = palette::position_types();
    for (i, t1) in pts.iter().enumerate() {
        for t2 in pts.iter().skip(i + 1) {
            if !thorough && (t1.depth() > 0 || t2.depth() > 0) {
                continue;
            }
            let (s1, s2) = (t1.print(), t2.print());
            v.push(stmt_c(&format!("match-2types:{s1};{s2}"), 1, move |o| {
                format!("return match {} {{ x: {s1} => x, y: {s2} => y, }};", o[0])
            }));
        }
    }
    v.push(expr_c("array2", 2, |o| format!("[{}, {}]", o[0], o[1])));
    v.push(expr_c("array1", 1, |o| format!("[{}]", o[0])));
    v.push(expr_c("repeat", 2, |o| format!("[{}; {}]", o[0], o[1])));
    v.push(expr_c("tuple2", 2, |o| format!("({}, {})", o[0], o[1])));
    v.push(expr_c("struct2", 2, |o| format!("struct{{ a := {}, b := {} }}", o[0], o[1])));
    // selection written directly on an aggregate literal: the siblings of the selected component
    // are still evaluated (their effects and failures happen), whatever is known about it
    for k in 0..2 {
        v.push(expr_c(&format!("tuple2-select.{k}"), 2, move |o| format!("({}, {}).{k}", o[0], o[1])));
        v.push(expr_c(&format!("array2-select[{k}]"), 2, move |o| format!("[{}, {}][{k}]", o[0], o[1])));
    }
    for f in ["a", "b"] {
        v.push(expr_c(&format!("struct2-select.{f}"), 2, move |o| format!("struct{{ a := {}, b := {} }}.{f}", o[0], o[1])));
    }
    v.push(expr_c("array2-select[-1]", 2, |o| format!("[{}, {}][-1]", o[0], o[1])));
    // a struct literal that names a field twice: whatever the rule (last wins), the value and the
    // static type follow the same one
    v.push(expr_c("struct2-repeated-field", 2, |o| format!("struct{{ a := {}, a := {} }}", o[0], o[1])));
    v.push(expr_c("struct2-repeated-field-select", 2, |o| format!("struct{{ a := {}, a := {} }}.a", o[0], o[1])));
    v.push(expr_c("struct3-repeated-field-select", 2, |o| format!("struct{{ a := {}, b := 0, a := {} }}.a", o[0], o[1])));
    v.push(expr_c("array2-slice[1:]", 2, |o| format!("[{}, {}][1:]", o[0], o[1])));
    v.push(expr_c("array2-len", 2, |o| format!("std.len([{}, {}])", o[0], o[1])));
    v.push(expr_c("tuple2-in-tuple-select", 2, |o| format!("(({}, {}), 0).0.1", o[0], o[1])));
    v.push(expr_c("mut", 1, |o| format!("mut {}", o[0])));
    v.push(stmt_c("if-else", 3, |o| format!("return if {} {} else {};", o[0], o[1], o[2])));
    v.push(stmt_c("if", 2, |o| format!("return if {} {{ {} }};", o[0], o[1])));
    v.push(stmt_c("match-value", 3, |o| format!("return match {} {{ ({}) => 1, => {}, }};", o[0], o[1], o[2])));
    v.push(stmt_c("match-value-only", 2, |o| format!("return match {} {{ ({}) => 1, }};", o[0], o[1])));
    v.push(stmt_c("while", 2, |o| format!("while {} {{ return {} }}; return 0;", o[0], o[1])));
    v.push(stmt_c("for", 2, |o| format!("for x in {} {{ return x }}; return {};", o[0], o[1])));
    v.push(stmt_c("for-collect", 1, |o| {
        format!("acc := mut [any] []; for x in {} {{ acc += [x] }}; return *acc;", o[0])
    }));
    v.push(stmt_c("destruct2", 1, |o| format!("(p, q) := {}; return (q, p);", o[0])));
    v.push(stmt_c("destruct3", 1, |o| format!("(p, q, r) := {}; return r;", o[0])));
    v.push(stmt_c("block", 2, |o| format!("return {{ {}; {} }};", o[0], o[1])));
    v.push(stmt_c("return-stmt", 1, |o| format!("return {};", o[0])));
    v.push(stmt_c("fall-off", 1, |o| format!("{};", o[0])));
    v.push(stmt_c("loop-break", 1, |o| format!("loop {{ if true {{ break }}; {} }}; return 1;", o[0])));
    v.push(stmt_c("closure-capture", 1, |o| format!("g := () -> any {{ return {} }}; return g;", o[0])));
    v.push(stmt_c("set-use", 1, |o| format!("y := {}; z := y; return z;", o[0])));
    // closures bound through every binding form, then called
    v.push(stmt_c("paren-closure-call", 1, |o| format!("h := ((q: any) -> any {{ return {} }}); return h(1);", o[0])));
    v.push(stmt_c("destruct-closure", 1, |o| format!("(h, k) := ((q: any) -> any {{ return {} }}, 1); return h(k);", o[0])));
    v.push(stmt_c("closure-in-struct", 1, |o| format!("s := struct{{ h := (q: any) -> any {{ return {} }} }}; return s.h(1);", o[0])));
    v.push(stmt_c("closure-in-array", 1, |o| format!("arr := [(q: any) -> any {{ return {} }}]; return arr[0](1);", o[0])));
    v.push(stmt_c("closure-in-tuple", 1, |o| format!("t := ((q: any) -> any {{ return {} }}, 1); return t.0(t.1);", o[0])));
    // a callee whose static type is a union of function types: the argument must fit the meet of
    // the members' parameter types, so that whichever member runs gets a value of its own
    // parameter type (identity body: the parameter is judged; use body: the parameter is used
    // as its declared type says it can be)
    {
        const PARAMS: &[(&str, &str)] = &[
            ("struct{a: int, b: int}", "p.a + p.b"),
            ("struct{a: int, c: int}", "p.a + p.c"),
            ("struct{a: int}", "p.a"),
            ("(int, int)", "p.0 + p.1"),
            ("(int, int, int)", "p.0 + p.1 + p.2"),
            ("[int]", "p~ $+"),
            ("[int|float]", "std.len(p)"),
            ("int", "p + 1"),
            ("int|float", "if q: int = p { q } else { 0 }"),
            ("mut int", "*p + 1"),
            ("mut (int|float)", "{ p = 2.5; 0 }"),
        ];
        for (i1, (p1, use1)) in PARAMS.iter().enumerate() {
            for (i2, (p2, use2)) in PARAMS.iter().enumerate() {
                if i1 == i2 || (!thorough && i1.max(i2) >= 5 && i1.min(i2) < 5 && (i1 + i2) % 2 == 0) {
                    continue;
                }
                for sel in 0..2 {
                    v.push(stmt_c(&format!("call-union-of-functions-identity:{p1},{p2}#{sel}"), 1, move |o| {
                        format!("f := (p: {p1}) -> {p1} {{ return p }}; g := (p: {p2}) -> {p2} {{ return p }}; fs := [f, g]; return fs[{sel}]({});", o[0])
                    }));
                    v.push(stmt_c(&format!("call-union-of-functions-use:{p1},{p2}#{sel}"), 1, move |o| {
                        format!("f := (p: {p1}) -> int {{ return {use1} }}; g := (p: {p2}) -> int {{ return {use2} }}; h := if {} {{ f }} else {{ g }}; return h({});", if sel == 0 { "std.len([1]) == 1" } else { "std.len([1]) == 2" }, o[0])
                    }));
                }
            }
        }
    }
    // the recorded finding's consequence for C02: the second component of the answer of an
    // exhausted iterator whose element type is `!` is () at run time and `!` for the checker, which
    // lets it stand as any operand (known_findings.json; every use below panics on the unchanged tree)
    for (uname, usage) in [("add", "v9 + 1"), ("index", "v9[0]"), ("negate", "-v9"), ("len", "std.len(v9)"), ("component-add", "r9.1 + 1"), ("compare", "v9 < 1"), ("deref", "*v9"), ("iterate", "v9~ $]")] {
        for (sname, source) in [("empty-array", "[]~"), ("mapped-to-never", "[]~ @ (q9: int) -> ! { loop { } }")] {
            v.push(stmt_c(&format!("never-iterator-answer-used:{uname}:{sname}"), 1, move |o| {
                format!("x9 := {}; it9 := {source}; r9 := it9(); (con9, v9) := r9; return {usage};", o[0])
            }));
        }
    }
    // the answer of an iterator past its end, used as its static type says it can be (a stage
    // that changes the element type must answer with a value of *its* element type)
    for (i, (source, usage)) in [
        ("[1, 2]~ @ (q9: int) -> string { return \"m\" }", "v9 + \"!\""),
        ("[1]~ @ (q9: int) -> [int] { return [q9] }", "std.len(v9)"),
        ("[\"a\"]~ @ (q9: string) -> int { return 1 }", "v9 + 1"),
        ("[1]~ @ (q9: int) -> float { return 1.5 }", "v9 + 1.0"),
        ("[1]~ @ (q9: int) -> bool { return true }", "!v9"),
        ("[1]~ @ (q9: int) -> (int, string) { return (q9, \"s\") }", "v9.1 + \"!\""),
        ("[1]~ @ (q9: int) -> struct{a: string} { return struct{ a := \"s\" } }", "v9.a + \"!\""),
        ("[\"a\"]~ ? (q9: string) -> bool { return true }", "v9 + \"!\""),
        ("[1, \"a\"]~ ? string", "v9 + \"!\""),
        ("[1, \"a\"]~ ? int @ (q9: int) -> string { return \"m\" }", "v9 + \"!\""),
        ("[\"a\"]~ $] ~", "v9 + \"!\""),
        ("[1]~ @ (q9: int) -> string { return \"m\" } ? (q9: string) -> bool { return true }", "v9 + \"!\""),
    ]
    .into_iter()
    .enumerate()
    {
        v.push(stmt_c(&format!("exhausted-answer-used#{i}"), 1, move |o| {
            format!("x9 := {}; it9 := {source}; it9(); it9(); it9(); (c9, v9) := it9(); return {usage};", o[0])
        }));
    }
    // a function declared `-> !` never hands anything back: bodies that can complete must be
    // rejected, and if one is accepted, calling it where a value is expected shows the `()`
    for (i, body) in ["", "loop { break }", "z9 := 1", "if false { return g9() }", "while false { }", "for e9 in [1]~ { }", "match 1 { 1 => 1, => 0, }", "if true { } else { return g9() }"].into_iter().enumerate() {
        v.push(stmt_c(&format!("declared-never-function-completes#{i}"), 2, move |o| {
            format!("g9 := () -> ! {{ {body} }}; r9 := if {} == {} {{ g9() }} else {{ {} }}; return r9;", o[0], o[0], o[1])
        }));
        v.push(stmt_c(&format!("declared-never-anonymous-function-completes#{i}"), 1, move |o| {
            format!("h9 := (q9: any) -> ! {{ {body} }}; r9 := [{}, h9(1)]; return r9;", o[0]).replace("return g9()", "return h9(q9)")
        }));
    }
    v.push(stmt_c("closure-typed-result", 1, |o| format!("h := ((q: int) -> int {{ return q }}); r := h(1); return ({}, r);", o[0])));
    // exits inside a function that is itself inside a loop belong to the function, not to the loop
    v.push(stmt_c("break-in-fn-in-loop", 1, |o| {
        format!("r := mut [any] []; loop {{ h := () -> any {{ if true {{ break }}; return {} }}; r += [h()]; break }}; return *r;", o[0])
    }));
    v.push(stmt_c("continue-in-fn-in-for", 1, |o| {
        format!("r := mut [any] []; for e in [1]~ {{ h := () -> any {{ if true {{ continue }}; return {} }}; r += [h()] }}; return *r;", o[0])
    }));
    v.push(stmt_c("fn-in-loop", 1, |o| {
        format!("r := mut [any] []; loop {{ h := () -> any {{ loop {{ break }}; return {} }}; r += [h()]; break }}; return *r;", o[0])
    }));
    // degenerate forms: every repetition of the grammar with zero items, in each position
    // where the checker asks for the type of the form
    v.push(stmt_c("match0-bound", 1, |o| format!("x := match {} {{ }}; return x;", o[0])));
    v.push(stmt_c("match0-return", 1, |o| format!("return match {} {{ }};", o[0])));
    v.push(stmt_c("match0-stmt", 1, |o| format!("match {} {{ }}; return 1;", o[0])));
    v.push(stmt_c("match0-fn-body", 1, |o| format!("g := () -> int {{ match {} {{ }} }}; return g;", o[0])));
    v.push(stmt_c("match0-in-tuple", 1, |o| format!("m := match {} {{ }}; return (m, 1);", o[0])));
    v.push(stmt_c("match-other-only", 2, |o| format!("return match {} {{ => {}, }};", o[0], o[1])));
    v.push(stmt_c("if-empty-blocks", 1, |o| format!("r := if {} {{ }} else {{ }}; return r;", o[0])));
    v.push(stmt_c("block0", 1, |o| format!("{}; r := {{ }}; return r;", o[0])));
    v.push(stmt_c("fn-empty-body", 1, |o| format!("g := () -> () {{ }}; return (g(), {});", o[0])));
    // binders whose body uses the bound name in an operation of its declared type (the folder
    // must not evaluate that operation on a scrutinee constant of another type)
    for t in palette::position_types() {
        let ts = t.print();
        let usage: &str = match ts.as_str() {
            "int" => "x + 1",
            "float" => "x / 2.0",
            "string" => "x + \"s\"",
            "[int]" => "x[0] + std.len(x + [1])",
            "(int, int)" => "x.0 + x.1",
            "mut int" => "*x + 1",
            "()->int" => "x() + 1",
            "struct{a: int}" => "x.a + 1",
            "int|float" => "match x { i: int => i + 1, f: float => 1, }",
            _ => continue,
        };
        let (ts2, u2) = (ts.clone(), usage.to_string());
        v.push(stmt_c(&format!("ifset-typed-use:{ts}"), 2, move |o| format!("if x: {ts2} = {} {{ r := {u2}; return r }} else {{ return {} }}", o[0], o[1])));
        let (ts2, u2) = (ts.clone(), usage.to_string());
        v.push(stmt_c(&format!("match-typed-use:{ts}"), 2, move |o| format!("m := match {} {{ x: {ts2} => {{ r := {u2}; r }}, => {}, }}; return m;", o[0], o[1])));
        let (ts2, u2) = (ts.clone(), usage.to_string());
        v.push(stmt_c(&format!("whileset-typed-use:{ts}"), 2, move |o| format!("while x: {ts2} = {} {{ r := {u2}; return r }}; return {};", o[0], o[1])));
        let (ts2, u2) = (ts.clone(), usage.to_string());
        v.push(stmt_c(&format!("ifset-chain-typed-use:{ts}"), 2, move |o| format!("y := {}; if x: string = y {{ return x + \"t\" }} else if x: {ts2} = y {{ r := {u2}; return r }} else {{ return {} }}", o[0], o[1])));
    }
    // a block / branch whose only statement re-declares an operand (by every declaration form):
    // afterwards the operand is meant again
    v.push(stmt_c("lone-declaration-in-block", 2, |o| format!("{{ {} := {} }}; return {};", o[0], o[1], o[0])));
    v.push(stmt_c("lone-declaration-in-branch", 2, |o| format!("if true {{ {} := {} }}; return {};", o[0], o[1], o[0])));
    v.push(stmt_c("lone-declaration-in-else", 2, |o| format!("if false {{ 1 }} else {{ {} := {} }}; return {};", o[0], o[1], o[0])));
    v.push(stmt_c("lone-destructuring-in-block", 2, |o| format!("{{ ({}, zz) := ({}, 1) }}; return {};", o[0], o[1], o[0])));
    v.push(stmt_c("lone-function-declaration-in-block", 2, |o| format!("{{ {} := () -> any {{ return {} }} }}; return {};", o[0], o[1], o[0])));
    v.push(stmt_c("lone-declaration-in-match-arm", 2, |o| format!("match 1 {{ 1 => {{ {} := {} }}, => {{ }}, }}; return {};", o[0], o[1], o[0])));
    v.push(stmt_c("lone-declaration-in-closure-block", 2, |o| format!("g := () -> any {{ {{ {} := {} }}; return {}; }}; return g();", o[0], o[1], o[0])));
    // binders that shadow an operand: outside the bound body the outer operand is meant
    for t in palette::position_types() {
        let ts = t.print();
        let ts2 = ts.clone();
        v.push(stmt_c(&format!("ifset-shadow:{ts}"), 2, move |o| {
            format!("if a: {ts2} = {} {{ return a }} else {{ return {} }}", o[1], o[0])
        }));
        let ts2 = ts.clone();
        v.push(stmt_c(&format!("match-shadow:{ts}"), 2, move |o| {
            format!("return match {} {{ a: {ts2} => a, => {}, }};", o[1], o[0])
        }));
        // the same inside a closure: the shadowed operand is a captured name there
        let ts2 = ts.clone();
        v.push(stmt_c(&format!("ifset-shadow-closure:{ts}"), 2, move |o| {
            format!("g := () -> any {{ if a: {ts2} = {} {{ return a }} else {{ return {} }} }}; return g();", o[1], o[0])
        }));
        let ts2 = ts.clone();
        v.push(stmt_c(&format!("match-shadow-closure:{ts}"), 2, move |o| {
            format!("g := () -> any {{ return match {} {{ a: {ts2} => a, => {}, }}; }}; return g();", o[1], o[0])
        }));
        // a cell handed on through a position declared with the cell type `mut T`, written
        // there, then read through its first name
        let ts2 = Ty::mutc(t.clone()).print();
        v.push(stmt_c(&format!("cell-through-param:{ts}"), 2, move |o| {
            format!("g := (c: {ts2}) -> () {{ c = {} }}; g({}); return ({}, *{});", o[1], o[0], o[0], o[0])
        }));
        let ts2 = Ty::mutc(t.clone()).print();
        v.push(stmt_c(&format!("cell-through-result:{ts}"), 2, move |o| {
            format!("g := () -> {ts2} {{ return {} }}; c := g(); c = {}; return ({}, *{});", o[0], o[1], o[0], o[0])
        }));
        // ... and used by an operation that relies on the first name's type
        let ts2 = Ty::mutc(t.clone()).print();
        v.push(stmt_c(&format!("cell-through-param-then-use:{ts}"), 2, move |o| {
            format!("g := (c: {ts2}) -> () {{ c = {} }}; g({}); r := match *{} {{ q: int => q + 1, q: float => q + 1.0, q: string => q + \"s\", q: [int] => q + [1], => 0, }}; return (r, *{} + *{});", o[1], o[0], o[0], o[0], o[0])
        }));
        // a general reduction answers with its initial value when nothing is pulled
        let ts2 = ts.clone();
        v.push(expr_c(&format!("reduce-to:{ts}"), 3, move |o| {
            format!("{} ${} (acc: any, x: any) -> {ts2} {{ return {} }}", o[0], o[1], o[2])
        }));
        let ts2 = Ty::mutc(t.clone()).print();
        v.push(stmt_c(&format!("cell-through-array:{ts}"), 2, move |o| {
            format!("g := (cs: [{ts2}]) -> () {{ cs[0] = {} }}; g([{}]); return ({}, *{});", o[1], o[0], o[0], o[0])
        }));
    }
    // a cell of declared content type T made here, updated by every assignment operator with an
    // operand of any type, then read: what is accepted must leave contents that inhabit T
    let mut cell_types = palette::position_types();
    cell_types.push(Ty::arr(Ty::union([Ty::Int, Ty::Float])));
    cell_types.push(Ty::arr(Ty::Float));
    for t in cell_types {
        let ts = t.print();
        for op in ["=", "+=", "-=", "*=", "/=", "%=", "**=", "<<=", ">>=", "&=", "|=", "^="] {
            let ts2 = ts.clone();
            v.push(stmt_c(&format!("cell-update:{op}:{ts}"), 2, move |o| {
                format!("c := mut {ts2} {}; r := (c {op} {}); return (r, *c, c);", o[0], o[1])
            }));
        }
    }
    // `? T` over a source that holds members of many types, cells of union content among them,
    // for element types T with structure (the filter tests run-time types against T, however it
    // gets hold of T); the results are then used as what their static type says they are
    const MIXED: &str = "1, 2.5, \"s\", mut 7, mut 7.5, mut int|float 1, mut int|float 2.5, [1], [2.5], [mut 1], (1, 2), (mut 1, 2), struct{ a := 1 }, struct{ a := mut 1 }";
    for (tname, ttext, as_cell) in [
        ("mut int", "mut int", true),
        ("mut (int/float)", "mut (int|float)", true),
        ("mut any", "mut any", true),
        ("int/float", "int|float", false),
        ("[mut int]", "[mut int]", false),
        ("(mut int, int)", "(mut int, int)", false),
        ("struct{a: mut int}", "struct{a: mut int}", false),
        ("mut int/float", "mut int|float", false),
        ("[int]/[float]", "[int]|[float]", false),
        ("() -> int", "() -> int", false),
    ] {
        v.push(expr_c(&format!("typefilter-mixed:{tname}"), 1, move |o| format!("([{MIXED}, {}]~ ? {ttext} $])", o[0])));
        if as_cell {
            v.push(stmt_c(&format!("typefilter-mixed-cells-used:{tname}"), 1, move |o| {
                format!("seen := mut [any] []; for x in [{MIXED}, {}]~ ? {ttext} {{ seen += [*x]; x = *x }}; return *seen;", o[0])
            }));
        }
    }
    // a function with a declared result type R whose body ends in each kind of statement that may
    // or may not hand control on: whatever the checker accepts must produce an R on every path
    for t in palette::position_types() {
        let ts = t.print();
        for (name, body) in [
            ("loop-with-break", "loop { if c { break }; return OPERAND }"),
            ("while-true-with-break", "while true { if c { break }; return OPERAND }"),
            ("loop-with-nested-break", "loop { loop { break }; if c { break }; return OPERAND }"),
            ("loop-break-in-match", "loop { match c { true => { break }, => { return OPERAND }, } }"),
            ("if-without-else", "if !c { return OPERAND }"),
            ("match-with-an-empty-arm", "match c { true => { }, => { return OPERAND }, }"),
            ("for", "for e in [1]~ { if !c { return OPERAND } }"),
            ("while", "n := mut 0; while *n < 1 { n += 1; if !c { return OPERAND } }"),
            ("while-set", "while q: bool = c { if !q { return OPERAND }; break }"),
            ("block", "{ if !c { return OPERAND } }"),
            ("loop-without-exit", "loop { return OPERAND }"),
            ("if-else-both-return", "if c { return OPERAND } else { return OPERAND }"),
        ] {
            let (ts2, body) = (ts.clone(), body.to_string());
            // the results are also used as what the declared type says they are
            let usage: &str = match ts.as_str() {
                "int" => "x + 1",
                "float" => "x / 2.0",
                "string" => "x + \"s\"",
                "[int]" => "x + [1]",
                "(int, int)" => "x.0 + x.1",
                "mut int" => "*x + 1",
                "()->int" => "x() + 1",
                "struct{a: int}" => "x.a + 1",
                _ => "x",
            };
            v.push(stmt_c(&format!("fn-ends-with-{name}:{ts}"), 1, move |o| {
                format!("g := (c: bool) -> {ts2} {{ {} }}; use := (x: {ts2}) -> any {{ return {usage} }}; return (g(false), g(true), use(g(false)), use(g(true)));", body.replace("OPERAND", &o[0]))
            }));
        }
    }
    // hand-written iterators whose declared result type is not the plain `(bool, T)`: a union of
    // two-component tuples, a union second component, any, never - under every consumer
    for (rname, rtext) in [
        ("(bool, int)/(bool, string)", "(bool, int) | (bool, string)"),
        ("(bool, int/string)", "(bool, int|string)"),
        ("(bool, any)", "(bool, any)"),
        ("(bool, int)/(bool, int, int)", "(bool, int) | (bool, int, int)"),
        ("(bool, [int])/(bool, [float])", "(bool, [int]) | (bool, [float])"),
    ] {
        let it = format!("{{ i := mut 0; () -> {rtext} {{ i += 1; if *i == 1 {{ return (true, OPERAND) }}; return (false, OPERAND) }} }}");
        for (cname, ctext) in [
            ("$]", "IT $]"),
            ("for", "acc := mut [any] []; for e in IT { acc += [e] }; *acc"),
            ("@", "IT @ (e: any) -> any { return e } $]"),
            ("?", "IT ? (e: any) -> bool { return true } $]"),
            ("? int", "IT ? int $]"),
            ("$ init", "IT $ 0 (a: any, e: any) -> int { return 1 }"),
            ("partition", "IT \\ (e: any) -> bool { return true }"),
            ("manual", "g := IT; (g(), g())"),
            ("first element used", "a := IT $]; a[0]"),
        ] {
            let (it2, c2) = (it.clone(), ctext.to_string());
            v.push(stmt_c(&format!("odd-iterator:{rname}:{cname}"), 1, move |o| format!("it := {}; r := {{ {} }}; return r;", it2.replace("OPERAND", &o[0]), c2.replace("IT", "it"))));
        }
    }
    // a documented run-time error raised inside a callback, a predicate or a hand-written iterator
    // ends the consumer with that error, whichever consumer drives the source
    for (sname, stext, kind) in [
        ("map-callback", "[1, 0, OPERAND]~ @ (v: int) -> int { return 10 / v }", "int"),
        ("filter-predicate", "[1, 0, OPERAND]~ ? (v: int) -> bool { return 10 / v > 0 }", "int"),
        ("user-iterator", "{ i := mut 2; () -> (bool, int) { i -= 1; return (true, OPERAND / *i) } }", "int"),
        ("map-callback-index", "[0, 5, OPERAND]~ @ (v: int) -> float { return [1.5][v] }", "float"),
        ("map-callback-shift", "[1, 64, OPERAND]~ @ (v: int) -> bool { return 1 << v > 0 }", "bool"),
        ("map-callback-string", "[0, 3, OPERAND]~ @ (v: int) -> string { return \"ab\"[v] }", "string"),
    ] {
        let consumers: Vec<(&str, &str)> = match kind {
            "int" => vec![("$+", "IT $+"), ("$*", "IT $*"), ("$&", "IT $&"), ("$|", "IT $|"), ("$]", "IT $]"), ("$ init", "IT $ 0 (a: int, e: int) -> int { return a + e }"), ("for", "for e in IT { }; 0"), ("partition", "IT \\ (e: int) -> bool { return e > 0 }"), ("second stage", "IT @ (e: int) -> int { return e } $+")],
            "float" => vec![("$+", "IT $+"), ("$*", "IT $*"), ("$]", "IT $]")],
            "bool" => vec![("$&&", "IT $&&"), ("$||", "IT $||"), ("$]", "IT $]")],
            _ => vec![("$+", "IT $+"), ("$]", "IT $]")],
        };
        for (cname, ctext) in consumers {
            let (s2, c2) = (stext.to_string(), ctext.to_string());
            v.push(stmt_c(&format!("failing-source:{sname}:{cname}"), 1, move |o| format!("it := {}; r := {{ {} }}; return r;", s2.replace("OPERAND", &o[0]), c2.replace("IT", "it"))));
        }
    }
    // a binder that re-uses the spelling of the first operand, then the operand is read *after*
    // the construct (taken and not taken): the name means the operand again, with its type
    for t in palette::position_types() {
        let ts = t.print();
        for (name, text) in [
            ("match-arm", "m := match OTHER { a: TYPE => 0, => 1, }; return (m, FIRST);"),
            ("match-arm-value", "m := match OTHER { a: TYPE => a, => OTHER, }; return (m, FIRST);"),
            ("if-set", "if a: TYPE = OTHER { }; return FIRST;"),
            ("if-set-else", "m := if a: TYPE = OTHER { 0 } else { 1 }; return (m, FIRST);"),
            ("while-set", "while a: TYPE = OTHER { break }; return FIRST;"),
            ("for", "for a in [OTHER]~ { }; return FIRST;"),
            ("destructuring-in-block", "{ (a, zz) := (OTHER, 1) }; return FIRST;"),
            ("callback-parameter", "m := [OTHER]~ @ (a: any) -> any { return a } $]; return (m, FIRST);"),
        ] {
            let (ts2, text) = (ts.clone(), text.to_string());
            v.push(stmt_c(&format!("shadow-then-read:{name}:{ts}"), 2, move |o| text.replace("TYPE", &ts2).replace("OTHER", &o[1]).replace("FIRST", &o[0])));
        }
    }
    // a parameter spelled like the function it belongs to: in the body the name is the parameter,
    // with the parameter's type, for the checker, for both folds and when the body runs
    for t in palette::position_types() {
        let ts = t.print();
        let usage: &str = match ts.as_str() {
            "int" => "g + 1",
            "float" => "g / 2.0",
            "string" => "g + \"s\"",
            "[int]" => "g[0]",
            "(int, int)" => "g.0",
            "mut int" => "*g",
            "()->int" => "g()",
            "struct{a: int}" => "g.a",
            _ => continue,
        };
        for (name, text) in [
            ("bound", "g := (g: TYPE) -> any { y := USAGE; return y }; return g(OPERAND);"),
            ("returned", "g := (g: TYPE) -> any { return USAGE }; return g(OPERAND);"),
            ("in-a-closure", "g := (g: TYPE) -> any { h := () -> any { y := USAGE; return y }; return h() }; return g(OPERAND);"),
            ("second-parameter", "g := (n: int, g: TYPE) -> any { if n > 0 { y := USAGE; return y }; return 0 }; return g(1, OPERAND);"),
            ("declared-in-a-function", "mk := () -> any { g := (g: TYPE) -> any { y := USAGE; return y }; return g }; k := mk(); return k(OPERAND);"),
            ("bound-literal", "g := ((g: TYPE) -> any { y := USAGE; return y }); return g(OPERAND);"),
        ] {
            let text = text.replace("TYPE", &ts).replace("USAGE", usage);
            v.push(stmt_c(&format!("parameter-named-like-its-function:{name}:{ts}"), 1, move |o| text.replace("OPERAND", &o[0])));
        }
    }
    // the same binders (and every kind of block holding nothing but a binder), after which the
    // operand is *used* as what its static type says it is
    for t in palette::position_types() {
        let ts = t.print();
        let usage: &str = match ts.as_str() {
            "int" => "FIRST + 1",
            "float" => "FIRST / 2.0",
            "string" => "FIRST + \"s\"",
            "[int]" => "FIRST + [1]",
            "(int, int)" => "FIRST.0 + FIRST.1",
            "mut int" => "*FIRST + 1",
            "()->int" => "FIRST() + 1",
            "struct{a: int}" => "FIRST.a + 1",
            _ => continue,
        };
        for (name, text) in [
            ("match-arm", "m := match OTHER { a: any => 0, }; return (m, USAGE);"),
            ("if-set", "if a: any = OTHER { }; return USAGE;"),
            ("while-set", "while a: any = OTHER { break }; return USAGE;"),
            ("for", "for a in [OTHER]~ { }; return USAGE;"),
            ("destructuring-in-block", "{ (a, zz) := (OTHER, 1) }; return USAGE;"),
            ("destructuring-in-branch", "if true { (a, zz) := (OTHER, 1) }; return USAGE;"),
            ("destructuring-in-else", "if false { } else { (zz, a) := (1, OTHER) }; return USAGE;"),
            ("destructuring-in-for-body", "for q in [1]~ { (a, zz) := (OTHER, 1) }; return USAGE;"),
            ("destructuring-in-while-body", "n := mut 0; while *n < 1 { n += 1; (a, zz) := (OTHER, 1) }; return USAGE;"),
            ("destructuring-in-match-arm", "match 1 { 1 => { (a, zz) := (OTHER, 1) }, => { }, }; return USAGE;"),
            ("destructuring-in-called-function", "g := () -> () { (a, zz) := (OTHER, 1) }; g(); return USAGE;"),
            ("declaration-in-block", "{ a := OTHER }; return USAGE;"),
            ("function-declaration-in-block", "{ a := () -> any { return OTHER } }; return USAGE;"),
            ("callback-parameter", "m := [OTHER]~ @ (a: any) -> any { return a } $]; return (m, USAGE);"),
        ] {
            let text = text.replace("USAGE", usage);
            v.push(stmt_c(&format!("shadow-then-use:{name}:{ts}"), 2, move |o| text.replace("OTHER", &o[1]).replace("FIRST", &o[0])));
        }
    }
    v
}

/// second level of nesting: every expression construct (<= 2 operands) as the first operand of
/// every construct (<= 2 operands)
pub fn nested_constructs() -> Vec<Construct> {
    let base = constructs(false);
    let inners: Vec<&Construct> = base.iter().filter(|c| c.expr.is_some() && c.slots <= 2 && !c.name.starts_with("mut:") && !c.name.starts_with("typefilter:") && !c.name.contains("-select") && !c.name.starts_with("array2-")).collect();
    let outers: Vec<&Construct> = base
        .iter()
        .filter(|c| c.slots <= 2 && !c.name.contains("shadow") && !c.name.starts_with("match-2types") && !c.name.starts_with("closure"))
        .collect();
    let mut out = Vec::new();
    for inner in &inners {
        for outer in &outers {
            let ie = inner.expr.clone().unwrap();
            let k = inner.slots;
            let orender = outer.render.clone();
            let oexpr = outer.expr.clone();
            let oslots = outer.slots;
            let compose = move |o: &[String], f: &Render| -> String {
                let mut ops: Vec<String> = vec![format!("({})", ie(&o[..k]))];
                ops.extend(o[k..k + oslots - 1].iter().cloned());
                f(&ops)
            };
            let c1 = compose.clone();
            let render: Render = Arc::new(move |o| c1(o, &orender));
            let expr: Option<Render> = oexpr.map(|oe| {
                let c2 = compose.clone();
                let r: Render = Arc::new(move |o: &[String]| c2(o, &oe));
                r
            });
            out.push(Construct { name: format!("{} of {}", outer.name, inner.name), slots: k + oslots - 1, render, expr });
        }
    }
    out
}

/// reduced palette for the nested grid
pub fn nested_types() -> Vec<Ty> {
    vec![
        Ty::Int,
        Ty::Bool,
        Ty::arr(Ty::Int),
        Ty::Tup(vec![Ty::Int, Ty::Int]),
        Ty::union([Ty::Int, Ty::Float]),
        Ty::mutc(Ty::Int),
        palette::t_iter(Ty::Int),
        Ty::func(vec![Ty::Int], Ty::Int),
        Ty::Str,
    ]
}

const NAMES: [&str; 4] = ["a", "b", "c", "d"];

pub fn program_typed(c: &Construct, tys: &[&Ty], ret: &str) -> String {
    let params: Vec<String> = tys.iter().enumerate().map(|(i, t)| format!("{}: {}", NAMES[i], t.print())).collect();
    let ops: Vec<String> = NAMES[..c.slots].iter().map(|s| s.to_string()).collect();
    format!("f := ({}) -> {ret} {{ {} }}", params.join(", "), (c.render)(&ops))
}

pub fn program_captured(c: &Construct, tys: &[&Ty], ret: &str) -> String {
    let params: Vec<String> = tys.iter().enumerate().map(|(i, t)| format!("{}: {}", NAMES[i], t.print())).collect();
    let ops: Vec<String> = NAMES[..c.slots].iter().map(|s| s.to_string()).collect();
    format!("f := ({}) -> {ret} {{ inner := () -> {ret} {{ {} }}; return inner() }}", params.join(", "), (c.render)(&ops))
}

pub fn program_literal(c: &Construct, lits: &[&str]) -> String {
    let ops: Vec<String> = lits.iter().map(|s| s.to_string()).collect();
    format!("f := () -> any {{ {} }}", (c.render)(&ops))
}

fn decode(mut index: usize, base: usize, slots: usize) -> Vec<usize> {
    let mut out = Vec::with_capacity(slots);
    for _ in 0..slots {
        out.push(index % base);
        index /= base;
    }
    out
}

// ------------------------------------------------------------------ check only

pub struct GridResult {
    pub programs: u64,
    pub accepted: u64,
    pub kinds: BTreeMap<String, u64>,
    pub violations: Vec<Violation>,
    pub samples: Vec<Value>,
}

/// C03 (d): every construct x every palette type assignment through the checker and `return_type()`.
/// source texts of (up to two) constants of type `t`, simplest first, computed once per type
fn literal_candidates(t: &Ty, take: usize) -> Vec<&'static str> {
    use std::collections::HashMap;
    use std::sync::Mutex;
    static CACHE: Mutex<Option<HashMap<(Ty, usize), Vec<&'static str>>>> = Mutex::new(None);
    if let Some(v) = CACHE.lock().unwrap().get_or_insert_with(HashMap::new).get(&(t.clone(), take)) {
        return v.clone();
    }
    let mut values = Values::new();
    let v: Vec<&'static str> = values.admitted(t, 1).into_iter().filter(|&i| !RECIPES[i].stateful || RECIPES[i].src.starts_with("mut ") || RECIPES[i].src.ends_with('~')).take(take).map(|i| RECIPES[i].src).collect();
    CACHE.lock().unwrap().get_or_insert_with(HashMap::new).insert((t.clone(), take), v.clone());
    v
}

pub fn check_only(thorough: bool) -> GridResult {
    let types = if thorough { palette::thorough_types() } else { palette::quick_types() };
    let mut cs = constructs(thorough);
    let first_nested = cs.len();
    let ntypes = nested_types();
    if thorough {
        cs.extend(nested_constructs());
    }
    let mut jobs: Vec<(usize, usize)> = Vec::new(); // (construct, assignment index)
    for (ci, c) in cs.iter().enumerate() {
        let base = if ci >= first_nested { ntypes.len() } else { types.len() };
        let n = base.pow(c.slots as u32);
        for a in 0..n {
            jobs.push((ci, a));
        }
    }
    let states = par_fold(
        jobs.len(),
        || (crate::props::c03::Stats::default(), Interpreter::with_stdlib(), Vec::<Value>::new()),
        |(st, interp, samples), j| {
            let (ci, a) = jobs[j];
            let c = &cs[ci];
            let pal = if ci >= first_nested { &ntypes } else { &types };
            let idx = decode(a, pal.len(), c.slots);
            let tys: Vec<&Ty> = idx.iter().map(|&i| &pal[i]).collect();
            let text = program_typed(c, &tys, "any");
            let before = st.accepted;
            crate::props::c03::probe(&text, interp, "std", false, st);
            if st.accepted > before && samples.len() < 2 && j % 997 == 0 {
                samples.push(json!({"grid_program": text}));
            }
            // the same construct over constants (the folder then works on them): the first two
            // recipes of every operand type, all combinations
            if st.accepted > before {
                // operators: four literals per slot (0, 1, -1, MIN_INT for ints), everything else two
                // positions: slice bounds, indices and repeat lengths also get the four int literals
                let positional = c.name.starts_with("slice") || c.name == "index" || c.name.starts_with("repeat");
                let take = if c.name.starts_with("bin:") || c.name.starts_with("prefix:") || positional { 4 } else { 2 };
                let lit_cands: Vec<Vec<&str>> = tys.iter().map(|t| literal_candidates(t, take)).collect();
                if lit_cands.iter().all(|c| !c.is_empty()) {
                    let total: usize = lit_cands.iter().map(|c| c.len()).product();
                    for k in 0..total.min(if positional { 512 } else if take == 4 { 16 } else { 8 }) {
                        let mut kk = k;
                        let lits: Vec<&str> = lit_cands
                            .iter()
                            .map(|c| {
                                let l = c[kk % c.len()];
                                kk /= c.len();
                                l
                            })
                            .collect();
                        crate::props::c03::probe(&program_literal(c, &lits), interp, "std", false, st);
                        // and bound to names first (constants propagated through variables)
                        let bound: String = lits.iter().enumerate().map(|(i, l)| format!("k{i} := {l}; ")).collect();
                        let names: Vec<String> = (0..lits.len()).map(|i| format!("k{i}")).collect();
                        let name_refs: Vec<&str> = names.iter().map(|s| s.as_str()).collect();
                        crate::props::c03::probe(&format!("{bound}{}", program_literal(c, &name_refs)), interp, "std", false, st);
                    }
                }
            }
        },
    );
    let mut total = crate::props::c03::Stats::default();
    let mut samples = Vec::new();
    for (s, _, sm) in states {
        total.merge(s);
        samples.extend(sm);
    }
    samples.truncate(4);
    GridResult {
        programs: total.parses,
        accepted: total.accepted,
        kinds: total.kinds,
        violations: total.violations,
        samples,
    }
}

// ------------------------------------------------------------- monitored runs

#[derive(Clone, Debug)]
pub struct MonViolation {
    pub reason: &'static str,
    pub node: String,
    pub static_type: String,
    pub value: String,
}

thread_local! {
    static MON: RefCell<Vec<MonViolation>> = const { RefCell::new(Vec::new()) };
    static NODES: RefCell<u64> = const { RefCell::new(0) };
}

fn judge(v: &Variable, s: &Type) -> Option<&'static str> {
    let sty = Ty::from_impl(s);
    if sty == Ty::Never {
        return Some("value-from-never-typed");
    }
    if !belongs(v, &sty) {
        return Some("contents-not-in-static-type");
    }
    let tag = v.as_type();
    if !tag.matches(s) {
        return Some("tag-not-matching-static-type");
    }
    // the tag is what run-time dispatch (match arms, if-set, ? T, host-call argument checks)
    // believes: a value whose contents are outside its own tag is taken for one by
    // `match v { x: <tag> => x }`, whose binder then has a static type its value is not in
    if !belongs(v, &Ty::from_impl(&tag)) {
        return Some("tag-does-not-describe-contents");
    }
    None
}

/// Per-case attribution state (see `c01_sig`).
const TYPED_EMPTY_ITER: u8 = 1;
const ROOT_SEEN: u8 = 2;
thread_local! {
    static TAINT: std::cell::Cell<u8> = const { std::cell::Cell::new(0) };
}

/// Starts a new case: nothing has gone wrong yet.
pub fn begin_case() {
    TAINT.with(|t| t.set(0));
}

fn has_default(t: &Type) -> bool {
    Variable::of_type(t).is_some()
}

/// `a~` where the checker knows an element type with a default value but the iterator
/// produced has none: its answer after exhaustion cannot be in the static type. That is
/// not the recorded finding (which needs a static element type without values).
fn note_iter_node(static_type: &Type, v: &Variable) {
    let elem = |t: &Type| t.return_type().and_then(|r| r.tuple_element_at(1));
    if let (Some(ts), Some(tr)) = (elem(static_type), elem(&v.as_type())) {
        if has_default(&ts) && !has_default(&tr) {
            TAINT.with(|t| t.set(t.get() | TYPED_EMPTY_ITER));
        }
    }
}

/// Signature of a soundness violation. The answer of an *exhausted iterator* -
/// the tuple (false, ()) judged against (bool, T) with () not in T - is keyed by the
/// default and the declared type only: the defect sits in the iterator, not in
/// the construct that happened to pull it. Once that answer exists in a case, what the
/// rest of the same case computes from it (a cell or array holding it, its second
/// component, ...) is attributed to it as well ("downstream"): the premise of every later
/// judgement - operands inhabit their static types - is already gone. Every construct is
/// also run with operands that are not such answers, so nothing is only ever seen downstream.
/// Must be called in event order.
pub fn c01_sig(reason: &str, origin: &str, node: &str, static_type: &str, value: &str) -> String {
    let st = static_type.replace('|', "/");
    let taint = TAINT.with(|t| t.get());
    if reason != "value-from-never-typed" && value == "(false, ())" && static_type.starts_with("(bool, ") {
        if taint & TYPED_EMPTY_ITER != 0 {
            return format!("C01|iterator-default-ignores-static-type|{origin}|node={node}|static={st}");
        }
        TAINT.with(|t| t.set(taint | ROOT_SEEN));
        return format!("C01|exhausted-iterator-default|value={}|declared={st}", value.replace('|', "/"));
    }
    if taint & ROOT_SEEN != 0 && taint & TYPED_EMPTY_ITER == 0 {
        return format!("C01|exhausted-iterator-default|downstream|{reason}");
    }
    format!("C01|{reason}|{origin}|node={node}|static={st}")
}

pub fn install_monitor() {
    MON.with(|m| m.borrow_mut().clear());
    verif::set_monitor(Some(Box::new(|ev: Event<'_>| match ev {
        Event::Node { kind, static_type, result } => {
            NODES.with(|n| *n.borrow_mut() += 1);
            let Some(s) = static_type else {
                MON.with(|m| {
                    m.borrow_mut().push(MonViolation {
                        reason: "return_type-panicked",
                        node: kind,
                        static_type: "?".into(),
                        value: String::new(),
                    })
                });
                return;
            };
            if std::env::var_os("VERIF_DEBUG").is_some() {
                if let NodeResult::Value(v) = &result {
                    eprintln!("  node {kind}: static {} value {}", Ty::from_impl(&s).print(), canon_typed(v));
                }
            }
            if let NodeResult::Value(v) = result {
                if kind == "UnaryOperation(Iter)" {
                    note_iter_node(&s, v);
                }
                if let Some(reason) = judge(v, &s) {
                    MON.with(|m| {
                        m.borrow_mut().push(MonViolation {
                            reason,
                            node: kind,
                            static_type: Ty::from_impl(&s).print(),
                            value: canon_typed(v),
                        })
                    });
                }
            }
        }
        Event::FnExit { ident, native, declared, result } => {
            if let Ok(v) = result {
                let reason = judge(v, declared).or_else(|| (!cells_well_typed(v)).then_some("cell-content-not-in-declared-type"));
                if let Some(reason) = reason {
                    MON.with(|m| {
                        m.borrow_mut().push(MonViolation {
                            reason,
                            node: format!("fn-exit({}{})", ident.unwrap_or("anonymous"), if native { ",native" } else { "" }),
                            static_type: Ty::from_impl(declared).print(),
                            value: canon_typed(v),
                        })
                    });
                }
            }
        }
    })));
}

pub fn take_monitor_violations() -> Vec<MonViolation> {
    MON.with(|m| std::mem::take(&mut *m.borrow_mut()))
}

pub fn take_node_count() -> u64 {
    NODES.with(|n| std::mem::replace(&mut *n.borrow_mut(), 0))
}

pub fn uninstall_monitor() {
    verif::set_monitor(None);
}

#[derive(Default)]
pub struct RunStats {
    pub programs: u64,
    pub accepted: u64,
    pub calls: u64,
    pub host_rejected: u64,
    pub values: u64,
    pub exec_errors: u64,
    pub exhausted: u64,
    pub panics: u64,
    pub nodes_judged: u64,
    pub closure_calls: u64,
    pub outcome_kinds: BTreeMap<String, u64>,
    pub c01: VSet,
    pub c02: VSet,
    pub samples: Vec<Value>,
}

impl RunStats {
    pub fn merge(&mut self, o: RunStats) {
        self.programs += o.programs;
        self.accepted += o.accepted;
        self.calls += o.calls;
        self.host_rejected += o.host_rejected;
        self.values += o.values;
        self.exec_errors += o.exec_errors;
        self.exhausted += o.exhausted;
        self.panics += o.panics;
        self.nodes_judged += o.nodes_judged;
        self.closure_calls += o.closure_calls;
        for (k, v) in o.outcome_kinds {
            *self.outcome_kinds.entry(k).or_insert(0) += v;
        }
        self.c01.merge(o.c01);
        self.c02.merge(o.c02);
        for s in o.samples {
            if self.samples.len() < 10 {
                self.samples.push(s);
            }
        }
    }
}

pub struct Ctx {
    pub values: Values,
    pub interp: Interpreter<'static>,
    pub fuel: u64,
    pub max_rank: u8,
    pub per_slot: usize,
    pub st: RunStats,
}

impl Ctx {
    pub fn new(thorough: bool) -> Self {
        Ctx {
            values: Values::new(),
            interp: Interpreter::with_stdlib(),
            fuel: if thorough { 50_000 } else { core::QUICK_FUEL },
            max_rank: if thorough { 2 } else { 1 },
            per_slot: if thorough { 64 } else { 3 },
            st: RunStats::default(),
        }
    }

    fn record_mon(&mut self, origin: &str, case: &Value) {
        self.st.nodes_judged += take_node_count();
        for mv in take_monitor_violations() {
            self.st.c01.push(c01_sig(mv.reason, origin, &mv.node, &mv.static_type, &mv.value), || json!({"case": case, "node": mv.node, "static_type": mv.static_type, "value": mv.value, "reason": mv.reason}));
        }
    }

    /// Calls a function value through the host API with the monitor on.
    /// Returns the result value when the call completed.
    pub fn host_call(
        &mut self,
        f: &Arc<simplesl::function::Function>,
        args: Vec<Variable>,
        origin: &str,
        case: &Value,
    ) -> Option<Variable> {
        self.st.calls += 1;
        let kept_args = args.clone();
        let code = match guard(|| f.clone().create_call(args)) {
            Ok(Ok(code)) => code,
            Ok(Err(_)) => {
                self.st.host_rejected += 1;
                return None;
            }
            Err(Stop::Exhausted) => {
                self.st.exhausted += 1;
                return None;
            }
            Err(Stop::Panic(p)) => {
                self.st.panics += 1;
                self.st.c02.push(format!("C02|panic|create_call|{origin}|{}|{}", p.file(), p.short_msg()), || json!({"case": case, "panic": p.msg, "at": p.loc}));
                return None;
            }
        };
        install_monitor();
        verif::set_fuel(Some(self.fuel), Some(core::DEPTH));
        let r = guard(|| code.exec());
        verif::set_fuel(None, None);
        uninstall_monitor();
        self.record_mon(origin, case);
        // cells handed in by the host must still hold values of their declared types
        for (i, a) in kept_args.iter().enumerate() {
            if !cells_well_typed(a) {
                self.st.c01.push(c01_sig("cell-content-not-in-declared-type", origin, &format!("argument#{i}"), "", ""), || json!({"case": case, "argument_after_call": canon_typed(a)}));
            }
        }
        if std::env::var_os("VERIF_DEBUG").is_some() {
            eprintln!("host call {origin}: {:?}; nodes judged so far {}", r.as_ref().map(|x| x.as_ref().map(canon_typed)), self.st.nodes_judged);
        }
        match r {
            Ok(Ok(v)) => {
                self.st.values += 1;
                *self.st.outcome_kinds.entry("value".into()).or_insert(0) += 1;
                if !cells_well_typed(&v) {
                    self.st.c01.push(c01_sig("cell-content-not-in-declared-type", origin, "result", "", ""), || json!({"case": case, "value": canon_typed(&v)}));
                }
                Some(v)
            }
            Ok(Err(e)) => {
                self.st.exec_errors += 1;
                *self.st.outcome_kinds.entry(format!("error:{}", core::exec_error_kind(&e))).or_insert(0) += 1;
                None
            }
            Err(Stop::Exhausted) => {
                self.st.exhausted += 1;
                *self.st.outcome_kinds.entry("exhausted".into()).or_insert(0) += 1;
                None
            }
            Err(Stop::Panic(p)) => {
                self.st.panics += 1;
                *self.st.outcome_kinds.entry(format!("panic:{}", p.file())).or_insert(0) += 1;
                self.st.c02.push(format!("C02|panic|exec|{origin}|{}|{}", p.file(), p.short_msg()), || json!({"case": case, "panic": p.msg, "at": p.loc}));
                None
            }
        }
    }

    /// C02 "call closure": every function reachable in `v` (depth <= 2 containers) is
    /// called with admitted palette arguments; zero-argument functions (iterators) are
    /// pulled several times so that exhaustion is passed.
    pub fn call_closure(&mut self, v: &Variable, depth: usize, origin: &str, case: &Value) {
        if depth == 0 {
            return;
        }
        match v {
            Variable::Function(f) => {
                let ptys: Vec<Ty> = match f.as_type() {
                    Type::Function(ft) => ft.params.iter().map(Ty::from_impl).collect(),
                    _ => return,
                };
                if ptys.is_empty() {
                    for pull in 0..4 {
                        self.st.closure_calls += 1;
                        let case2 = json!({"base": case, "then": format!("pull #{pull} of the function value in the result")});
                        let o = format!("{origin}|closure-call");
                        if let Some(r) = self.host_call(f, vec![], &o, &case2) {
                            if pull == 0 {
                                self.call_closure(&r, depth - 1, origin, &case2);
                            }
                        } else {
                            break;
                        }
                    }
                    return;
                }
                let cands: Vec<Vec<usize>> =
                    ptys.iter().map(|t| self.values.admitted(t, 0).into_iter().take(2).collect()).collect();
                if cands.iter().any(|c| c.is_empty()) {
                    return;
                }
                let total: usize = cands.iter().map(|c| c.len()).product();
                for k in 0..total.min(4) {
                    let mut kk = k;
                    let mut args = Vec::new();
                    let mut desc = Vec::new();
                    for c in &cands {
                        let ri = c[kk % c.len()];
                        kk /= c.len();
                        let Some(val) = self.values.make(ri) else { return };
                        args.push(val);
                        desc.push(RECIPES[ri].src);
                    }
                    self.st.closure_calls += 1;
                    let case2 = json!({"base": case, "then": format!("call the function value in the result with ({})", desc.join(", "))});
                    let o = format!("{origin}|closure-call");
                    if let Some(r) = self.host_call(f, args, &o, &case2) {
                        self.call_closure(&r, depth - 1, origin, &case2);
                    }
                }
            }
            Variable::Tuple(xs) => {
                for x in xs.iter() {
                    self.call_closure(x, depth, origin, case);
                }
            }
            Variable::Array(a) => {
                for x in a.iter().take(3) {
                    self.call_closure(x, depth, origin, case);
                }
            }
            Variable::Struct(vm) => {
                let mut keys: Vec<_> = vm.keys().cloned().collect();
                keys.sort();
                for k in keys {
                    self.call_closure(&vm[&k], depth, origin, case);
                }
            }
            Variable::Mut(m) => {
                let content = m.variable.read().ok().map(|g| g.clone());
                if let Some(c) = content {
                    self.call_closure(&c, depth - 1, origin, case);
                }
            }
            _ => {}
        }
    }

    /// Parses `text` (a program evaluating to a function value) and returns the function.
    fn define(&mut self, text: &str, origin: &str) -> Option<Arc<simplesl::function::Function>> {
        self.st.programs += 1;
        verif::set_fuel(Some(self.fuel), Some(core::DEPTH));
        let code = match guard(|| Code::parse(&self.interp, text)) {
            Ok(Ok(c)) => c,
            Ok(Err(e)) => {
                *self.st.outcome_kinds.entry(format!("rejected:{}", core::error_kind(&e))).or_insert(0) += 1;
                return None;
            }
            // panics of the checker belong to C03
            Err(_) => return None,
        };
        self.st.accepted += 1;
        verif::set_fuel(Some(self.fuel), Some(core::DEPTH));
        let r = guard(|| code.exec());
        verif::set_fuel(None, None);
        match r {
            Ok(Ok(Variable::Function(f))) => Some(f),
            Ok(Ok(_)) | Ok(Err(_)) | Err(Stop::Exhausted) => None,
            Err(Stop::Panic(p)) => {
                self.st.panics += 1;
                self.st.c02.push(format!("C02|panic|define|{origin}|{}|{}", p.file(), p.short_msg()), || json!({"kind": "program", "stdlib": true, "text": text, "panic": p.msg, "at": p.loc}));
                None
            }
        }
    }

    /// One grid point: construct x type assignment; run-time path with every admitted value tuple,
    /// plus the literal (folded) twin of each tuple.
    /// the first result type, from narrow to wide, with which the checker accepts the typed
    /// program: "a function declared to return T never yields a non-T" is then judged against
    /// a T that says something (with `any` it cannot fail)
    fn tightest_result(&mut self, c: &Construct, tys: &[&Ty]) -> String {
        let mut cands: Vec<String> = ["!", "bool", "int", "float", "string", "()", "[int]", "[float]", "(int, int)", "mut int", "() -> int", "struct{a: int}", "int|float", "(bool, int)", "[int|float]", "[any]"]
            .iter()
            .map(|s| s.to_string())
            .collect();
        for t in tys {
            let mut p = t.print();
            if t.is_union() {
                p = format!("({p})");
            }
            if !cands.contains(&p) {
                cands.push(p);
            }
        }
        // rejected with `any` means rejected with every result type
        {
            let text = program_typed(c, tys, "any");
            verif::set_fuel(Some(self.fuel), Some(core::DEPTH));
            let ok = matches!(guard(|| Code::parse(&self.interp, &text)), Ok(Ok(_)));
            verif::set_fuel(None, None);
            if !ok {
                return "any".into();
            }
        }
        for cand in cands {
            let text = program_typed(c, tys, &cand);
            self.st.programs += 1;
            verif::set_fuel(Some(self.fuel), Some(core::DEPTH));
            let ok = matches!(guard(|| Code::parse(&self.interp, &text)), Ok(Ok(_)));
            verif::set_fuel(None, None);
            if ok {
                return cand;
            }
        }
        "any".into()
    }

    pub fn grid_point(&mut self, c: &Construct, tys: &[&Ty]) {
        let ret = self.tightest_result(c, tys);
        let text = program_typed(c, tys, &ret);
        let tnames: Vec<String> = tys.iter().map(|t| t.print().replace('|', "/")).collect();
        let origin = format!("construct={}|types={}", c.name, tnames.join(";"));
        let Some(f) = self.define(&text, &origin) else { return };
        // operators and cell updates get one more value per slot in the quick tier: the fourth
        // rank-0 int is MIN_INT, and `MIN_INT op -1` is where wrapping arithmetic is decided
        let per_slot = if self.per_slot <= 8 && (c.name.starts_with("bin:") || c.name.starts_with("cell-update:") || c.name.starts_with("prefix:")) { 4 } else { self.per_slot };
        let cands: Vec<Vec<usize>> = tys
            .iter()
            .map(|t| {
                let max_rank = self.max_rank;
                self.values.admitted(t, max_rank).into_iter().take(per_slot).collect()
            })
            .collect();
        if cands.iter().any(|c| c.is_empty()) {
            return;
        }
        let total: usize = cands.iter().map(|c| c.len()).product();
        let cap = if self.per_slot > 8 { 4096 } else if per_slot == 4 { 64 } else { 27 };
        for k in 0..total.min(cap) {
            let mut kk = k;
            let mut args = Vec::new();
            let mut lits: Vec<&str> = Vec::new();
            let mut ok = true;
            for cnd in &cands {
                let ri = cnd[kk % cnd.len()];
                kk /= cnd.len();
                match self.values.make(ri) {
                    Some(v) => args.push(v),
                    None => ok = false,
                }
                lits.push(RECIPES[ri].src);
            }
            if !ok {
                continue;
            }
            begin_case();
            let case = json!({"kind": "host_call", "program": text, "args": lits});
            if self.st.samples.len() < 4 && k == 0 && self.st.accepted % 50 == 1 {
                self.st.samples.push(case.clone());
            }
            if let Some(r) = self.host_call(&f, args, &origin, &case) {
                self.call_closure(&r, 2, &origin, &case);
            }
            // literal twin (folded path)
            let ltext = program_literal(c, &lits);
            let lorigin = format!("{origin}|literal");
            begin_case();
            if let Some(lf) = self.define(&ltext, &lorigin) {
                let lcase = json!({"kind": "host_call", "program": ltext, "args": []});
                if let Some(r) = self.host_call(&lf, vec![], &lorigin, &lcase) {
                    self.call_closure(&r, 2, &lorigin, &lcase);
                }
            }
            // captured twin: the operands are parameters of an outer function, the construct sits in
            // an inner function value created at run time (its body is folded then, against the
            // captured values, while the program runs)
            let ctext = program_captured(c, tys, &ret);
            let corigin = format!("{origin}|captured");
            begin_case();
            if let Some(cf) = self.define(&ctext, &corigin) {
                let mut cargs = Vec::new();
                let mut ok = true;
                let mut kk = k;
                for cnd in &cands {
                    let ri = cnd[kk % cnd.len()];
                    kk /= cnd.len();
                    match self.values.make(ri) {
                        Some(v) => cargs.push(v),
                        None => ok = false,
                    }
                }
                if ok {
                    let ccase = json!({"kind": "host_call", "program": ctext, "args": lits});
                    if let Some(r) = self.host_call(&cf, cargs, &corigin, &ccase) {
                        self.call_closure(&r, 2, &corigin, &ccase);
                    }
                }
            }
            // top-level expression form: static type of the program vs value of its execution
            if let Some(e) = &c.expr {
                let ops: Vec<String> = lits.iter().map(|s| s.to_string()).collect();
                let etext = e(&ops);
                self.top_level(&etext, &format!("{origin}|top-level"));
            }
        }
        // late-failing operand: the construct sits in a function value created at run time, and one
        // operand is a constant operation on captured values that cannot succeed (`[a][ix9]` with
        // ix9 = 1), known to the folder only when the function value is made - which must succeed;
        // the failure belongs to the call of the function value
        for s in 0..c.slots {
            let ops: Vec<String> = (0..c.slots).map(|j| if j == s { format!("([{}][ix9])", NAMES[j]) } else { NAMES[j].to_string() }).collect();
            let params: Vec<String> = tys.iter().enumerate().map(|(i, t)| format!("{}: {}", NAMES[i], t.print())).collect();
            // as the construct renders itself, and (expression constructs) bound to a name first:
            // a binding asks for the type of the expression while the function value is made
            let mut bodies = vec![(c.render)(&ops)];
            if let Some(e) = &c.expr {
                bodies.push(format!("r9 := {}; return r9;", e(&ops)));
                bodies.push(format!("return [{}];", e(&ops)));
            }
            for (bi, body) in bodies.iter().enumerate() {
            let ftext = format!("f := ({}, ix9: int) -> any {{ inner := () -> any {{ {body} }}; return inner }}", params.join(", "));
            let forigin = format!("{origin}|late-failing-operand#{s}|form{bi}");
            begin_case();
            if let Some(ff) = self.define(&ftext, &forigin) {
                let mut fargs = Vec::new();
                let mut flits: Vec<&str> = Vec::new();
                for cnd in &cands {
                    if let Some(v) = self.values.make(cnd[0]) {
                        fargs.push(v);
                        flits.push(RECIPES[cnd[0]].src);
                    }
                }
                if fargs.len() == c.slots {
                    fargs.push(Variable::Int(1));
                    flits.push("1");
                    let fcase = json!({"kind": "host_call", "program": ftext, "args": flits});
                    if let Some(r) = self.host_call(&ff, fargs, &forigin, &fcase) {
                        self.call_closure(&r, 2, &forigin, &fcase);
                    }
                }
            }
            }
        }
        // the same calls once more as one history: cells and iterators handed in persist from
        // call to call, so a call meets what earlier calls (also failed ones) left in them
        if cands.iter().flatten().any(|&ri| RECIPES[ri].stateful) {
            let mut kept: std::collections::HashMap<(usize, usize), Variable> = std::collections::HashMap::new();
            let porigin = format!("{origin}|persistent-values");
            begin_case();
            let mut history: Vec<Vec<&str>> = Vec::new();
            for k in 0..total.min(cap) {
                let mut kk = k;
                let mut args = Vec::new();
                let mut lits: Vec<&str> = Vec::new();
                let mut ok = true;
                for (slot, cnd) in cands.iter().enumerate() {
                    let ri = cnd[kk % cnd.len()];
                    kk /= cnd.len();
                    if !kept.contains_key(&(slot, ri)) {
                        match self.values.make(ri) {
                            Some(v) => {
                                kept.insert((slot, ri), v);
                            }
                            None => ok = false,
                        }
                    }
                    if let Some(v) = kept.get(&(slot, ri)) {
                        args.push(v.clone());
                    }
                    lits.push(RECIPES[ri].src);
                }
                if !ok {
                    continue;
                }
                history.push(lits.clone());
                let case = json!({"kind": "host_call_history", "program": text, "calls_so_far_with_persisting_stateful_values": history});
                self.host_call(&f, args, &porigin, &case);
            }
        }
    }

    /// `Code::return_type()` must be a supertype of what `Code::exec()` yields.
    pub fn top_level(&mut self, text: &str, origin: &str) {
        begin_case();
        self.st.programs += 1;
        verif::set_fuel(Some(self.fuel), Some(core::DEPTH));
        let code = match guard(|| Code::parse(&self.interp, text)) {
            Ok(Ok(c)) => c,
            _ => return,
        };
        self.st.accepted += 1;
        let case = json!({"kind": "program", "stdlib": true, "text": text});
        let sty = match guard(|| code.return_type()) {
            Ok(t) => t,
            Err(_) => return, // C03 reports return_type panics
        };
        install_monitor();
        verif::set_fuel(Some(self.fuel), Some(core::DEPTH));
        let r = guard(|| code.exec());
        verif::set_fuel(None, None);
        uninstall_monitor();
        self.record_mon(origin, &case);
        match r {
            Ok(Ok(v)) => {
                self.st.values += 1;
                if let Some(reason) = judge(&v, &sty) {
                    self.st.c01.push(c01_sig(reason, origin, "program", &Ty::from_impl(&sty).print(), &canon_typed(&v)), || json!({"case": case, "static_type": Ty::from_impl(&sty).print(), "value": canon_typed(&v)}));
                }
                self.call_closure(&v, 1, origin, &case);
            }
            Ok(Err(_)) => self.st.exec_errors += 1,
            Err(Stop::Exhausted) => self.st.exhausted += 1,
            Err(Stop::Panic(p)) => {
                self.st.panics += 1;
                self.st.c02.push(format!("C02|panic|exec|{origin}|{}|{}", p.file(), p.short_msg()), || json!({"case": case, "panic": p.msg, "at": p.loc}));
            }
        }
    }
}

/// Runs the whole grid (C01 / C02 share it).
pub fn run_grid(thorough: bool) -> RunStats {
    let types = if thorough { palette::thorough_types() } else { palette::quick_types() };
    let mut cs = constructs(thorough);
    let first_nested = cs.len();
    let ntypes = nested_types();
    if thorough {
        cs.extend(nested_constructs());
    }
    let mut jobs: Vec<(usize, usize)> = Vec::new();
    for (ci, c) in cs.iter().enumerate() {
        let base = if ci >= first_nested { ntypes.len() } else { types.len() };
        let n = base.pow(c.slots as u32);
        for a in 0..n {
            jobs.push((ci, a));
        }
    }
    let states = par_fold(
        jobs.len(),
        || Ctx::new(thorough),
        |ctx, j| {
            let (ci, a) = jobs[j];
            let c = &cs[ci];
            let pal = if ci >= first_nested { &ntypes } else { &types };
            let idx = decode(a, pal.len(), c.slots);
            let tys: Vec<&Ty> = idx.iter().map(|&i| &pal[i]).collect();
            if ci >= first_nested {
                // nested grid: fewer values per slot
                let (r, p) = (ctx.max_rank, ctx.per_slot);
                ctx.max_rank = 1;
                ctx.per_slot = 3;
                ctx.grid_point(c, &tys);
                ctx.max_rank = r;
                ctx.per_slot = p;
            } else {
                ctx.grid_point(c, &tys);
            }
        },
    );
    let mut total = RunStats::default();
    let mut reported = false;
    for mut ctx in states {
        if !reported {
            for (i, p) in ctx.values.failures.drain(..) {
                reported = true;
                total.c02.push(format!("C02|panic|exec|value-recipe|{}|{}", p.file(), p.short_msg()), || json!({"kind": "program", "stdlib": true, "text": RECIPES[i].src, "panic": p.msg, "at": p.loc}));
            }
        }
        total.merge(ctx.st);
    }
    total
}
