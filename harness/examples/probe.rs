use simplesl::{Code, Interpreter};
use simplesl::variable::ReturnType;
fn main() {
    let src = std::env::args().nth(1).unwrap();
    let interp = Interpreter::with_stdlib();
    match Code::parse(&interp, &src) {
        Ok(code) => {
            println!("static: {}", code.return_type());
            match code.exec() { Ok(v) => println!("value: {v:?}"), Err(e) => println!("exec error: {e}") }
        }
        Err(e) => println!("rejected: {e:?}"),
    }
}
