#!/bin/bash
# applies each seeded/<id>/patch.diff to /repo, runs the quick check of the property the change targets
# (meta.json: breaks_property), records whether it reports a violation; restores /repo
cd /verif
out=${2:-/tmp/seedown.log}
for id in $1; do
 (
  flock 9
  git -C /repo diff --quiet || { echo "/repo dirty" >> $out; exit 0; }
  prop=$(jq -r .breaks_property /verif/seeded/$id/meta.json)
  git -C /repo apply /verif/seeded/$id/patch.diff || { echo "$id: patch does not apply" >> $out; exit 0; }
  ./check $prop quick > /tmp/seedown_$id.log 2>&1
  code=$?
  git -C /repo checkout -- .
  if [ $code -eq 1 ]; then echo "$id: $prop detects ($(grep -c '^VIOLATION' /tmp/seedown_$id.log) replay files)" >> $out
  else echo "$id: $prop exit $code" >> $out; fi
 ) 9>/tmp/repo.lock
done
echo done >> $out
