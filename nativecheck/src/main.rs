//! Tie-back of the order-oracle model to the real `RandomState`: runs programs
//! with the crate built WITHOUT the verification hooks, K times in this process,
//! and prints one canonicalised outcome per run. The harness starts this binary
//! in several processes and compares every line with the outcome it computed
//! under the canonical order of the oracle.
#[path = "../../harness/src/ty.rs"]
#[allow(dead_code)]
mod ty;
#[path = "../../harness/src/val.rs"]
#[allow(dead_code)]
mod val;

use simplesl::variable::ReturnType;
use simplesl::{Code, Interpreter};
use std::io::Read;

fn outcome(text: &str) -> String {
    let interp = Interpreter::with_stdlib();
    let r = std::panic::catch_unwind(|| {
        let code = match Code::parse(&interp, text) {
            Ok(c) => c,
            Err(e) => {
                let s = format!("{e:?}");
                let kind: String = s.chars().take_while(|c| c.is_ascii_alphanumeric() || *c == '_').collect();
                return format!("rejected:{kind}");
            }
        };
        let st = ty::normal(&ty::Ty::from_impl(&code.return_type())).print();
        match code.exec() {
            Ok(v) => format!("static={st}; value={}", val::canon_typed(&v)),
            Err(e) => format!("static={st}; error:{e:?}"),
        }
    });
    r.unwrap_or_else(|_| "panic".into())
}

fn main() {
    // programs on stdin, separated by lines containing only "----"
    let repeats: usize = std::env::args().nth(1).and_then(|s| s.parse().ok()).unwrap_or(8);
    let mut input = String::new();
    std::io::stdin().read_to_string(&mut input).unwrap();
    std::panic::set_hook(Box::new(|_| {}));
    let handle = std::thread::Builder::new()
        .stack_size(256 << 20)
        .spawn(move || {
            for (i, program) in input.split("\n----\n").enumerate() {
                for _ in 0..repeats {
                    println!("{i}\t{}", outcome(program).replace('\n', " "));
                }
            }
        })
        .unwrap();
    handle.join().unwrap();
}
